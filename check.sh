#!/bin/bash
# usage: check.sh <Cxx|all> [quick|thorough]   (cwd: anywhere)
# Builds the checker from /verif/sa if needed (offline, vendored deps) and runs it on /repo's working tree.
set -u
HERE="$(cd "$(dirname "${BASH_SOURCE[0]}")" && pwd)"
export PATH=/opt/veriftools/go1.26.8/bin:$PATH
export GOTOOLCHAIN=local GOPROXY=off
unset GOWORK
TIER="${2:-${VERIF_TIER:-quick}}"
BIN="$HERE/bin/nokvsa"
need_build=0
if [ ! -x "$BIN" ]; then need_build=1; else
  if [ -n "$(find "$HERE/sa" -name '*.go' -newer "$BIN" -not -path '*/vendor/*' -print -quit)" ]; then need_build=1; fi
fi
if [ "$need_build" = 1 ]; then
  mkdir -p "$HERE/bin"
  (cd "$HERE/sa" && GOFLAGS=-mod=vendor go build -o "$BIN.tmp.$$" ./cmd/nokvsa && mv "$BIN.tmp.$$" "$BIN") || { echo "ANALYSIS-ERROR cannot build checker"; exit 2; }
fi
export GOFLAGS=-mod=mod
exec "$BIN" check "$1" --tier "$TIER" --repo "${VERIF_REPO:-/repo}" --verif "$HERE"
