// nokvsa: static checker for the NoKV property list.  See /verif/DESIGN.md.
package main

import (
	"flag"
	"fmt"
	"os"
	"path/filepath"
	"sort"
	"strconv"
	"strings"
	"time"

	"nokvsa/core"
	"nokvsa/props"
)

func main() {
	if len(os.Args) < 2 {
		usage()
	}
	switch os.Args[1] {
	case "check":
		os.Exit(check(os.Args[2:]))
	case "list":
		ids := props.IDs()
		fmt.Println(strings.Join(ids, "\n"))
	default:
		usage()
	}
}

func usage() {
	fmt.Fprintln(os.Stderr, "usage: nokvsa check <Cxx|all> [--tier quick|thorough] [--repo /repo] [--verif /verif] [--replay file]")
	os.Exit(2)
}

func check(args []string) int {
	fs := flag.NewFlagSet("check", flag.ExitOnError)
	tier := fs.String("tier", envOr("VERIF_TIER", "quick"), "quick|thorough")
	repo := fs.String("repo", "/repo", "repository root")
	verif := fs.String("verif", "/verif", "verif root")
	replay := fs.String("replay", "", "replay file (re-evaluates the property and reports that obligation)")
	var ids []string
	for len(args) > 0 && !strings.HasPrefix(args[0], "-") {
		ids = append(ids, args[0])
		args = args[1:]
	}
	fs.Parse(args)
	if *tier != "quick" && *tier != "thorough" {
		*tier = "quick"
	}
	if len(ids) == 1 && ids[0] == "all" {
		ids = props.IDs()
	}
	if len(ids) == 0 {
		usage()
	}
	seed, _ := strconv.Atoi(os.Getenv("VERIF_SEED"))
	known, err := core.LoadKnown(filepath.Join(*verif, "known_findings.json"))
	if err != nil {
		fmt.Printf("ANALYSIS-ERROR cannot read known_findings.json: %v\n", err)
		return 2
	}
	type cfg struct{ goos, goarch string }
	cfgs := []cfg{{"", ""}}
	if *tier == "thorough" {
		cfgs = []cfg{{"", ""}, {"linux", "arm64"}, {"darwin", "amd64"}, {"darwin", "arm64"}}
	}
	exit := 0
	t0 := time.Now()
	var progs []*core.Program
	for _, cf := range cfgs {
		p, err := core.Load(*repo, cf.goos, cf.goarch)
		if err != nil {
			fmt.Printf("ANALYSIS-ERROR load %s/%s: %v\n", cf.goos, cf.goarch, err)
			for _, id := range ids {
				fmt.Printf("VIOLATION property=%s replay=%s\n", id, "-")
			}
			return 1
		}
		progs = append(progs, p)
	}
	for _, id := range ids {
		f := props.Get(id)
		if f == nil {
			fmt.Printf("ANALYSIS-ERROR unknown property %s\n", id)
			exit = 2
			continue
		}
		tp := time.Now()
		if len(ids) == 1 {
			tp = t0
		}
		var main *core.Ctx
		for i, p := range progs {
			c := core.NewCtx(p, id, *tier)
			runSafe(c, f)
			if i == 0 {
				main = c
			} else {
				// merge: obligations from other configs are kept when they differ in
				// verdict or construct from the default config.
				have := map[string]core.Verdict{}
				for _, o := range main.Obls {
					have[o.Key()] = o.Verdict
				}
				for _, o := range c.Obls {
					if v, ok := have[o.Key()]; !ok || v != o.Verdict {
						o.Construct = o.Construct + "@" + p.Config
						main.Obls = append(main.Obls, o)
					}
				}
				for fn := range c.FuncsSet {
					_ = fn
				}
			}
		}
		extra := map[string]any{"build_configs": cfgNames(progs), "load_s": progs[0].LoadTime.Seconds()}
		if *replay != "" {
			extra["replay_of"] = *replay
		}
		if *tier == "thorough" && os.Getenv("VERIF_NO_SELFTEST") == "" {
			st := selftest(*repo, *verif, id, known)
			printSelftest(id, st)
			if len(st) > 0 {
				extra["checker_selftest"] = map[string]any{
					"what":  "stored seeded changes applied to a scratch copy of the current tree; evidence about the checker, never affects the verdict",
					"seeds": st,
				}
			}
		}
		code := core.Finish(main, *verif, known, seed, tp, extra)
		if code > exit {
			exit = code
		}
	}
	_ = t0
	if exit > 1 {
		exit = 1
	}
	return exit
}

func cfgNames(ps []*core.Program) []string {
	var out []string
	for _, p := range ps {
		out = append(out, p.Config)
	}
	sort.Strings(out)
	return out
}

func runSafe(c *core.Ctx, f func(*core.Ctx)) {
	defer func() {
		if r := recover(); r != nil {
			c.Errorf("PANIC in rule evaluation: %v", r)
		}
	}()
	f(c)
}

func envOr(k, d string) string {
	if v := os.Getenv(k); v != "" {
		return v
	}
	return d
}
