package main

import (
	"encoding/json"
	"fmt"
	"io"
	"io/fs"
	"os"
	"os/exec"
	"path/filepath"
	"runtime"
	"runtime/debug"
	"sort"
	"strings"

	"nokvsa/core"
	"nokvsa/props"
)

// Checker self-test (thorough tier): every stored seeded change that this property's
// check is recorded to detect (seeded/<name>/meta.json, field detect_with) is applied to
// a scratch copy of the *current* working tree and the property's rules are evaluated
// on it.  The result is evidence about the checker ("the rule instances still fire"),
// not about /repo: it never changes the exit code.  A seed whose patch no longer applies
// to the current tree is skipped.  The scratch copy is removed before returning.

type seedMeta struct {
	Name       string   `json:"name"`
	Breaks     string   `json:"breaks_property"`
	Status     string   `json:"status"`
	DetectWith []string `json:"detect_with"`
}

type seedResult struct {
	Seed     string   `json:"seed"`
	Applied  bool     `json:"applied"`
	Detected bool     `json:"detected"`
	Reports  []string `json:"reports,omitempty"`
	Note     string   `json:"note,omitempty"`
}

func selftest(repo, verif, id string, known *core.KnownFile) []seedResult {
	metas, _ := filepath.Glob(filepath.Join(verif, "seeded", "*", "meta.json"))
	sort.Strings(metas)
	var out []seedResult
	for _, mf := range metas {
		b, err := os.ReadFile(mf)
		if err != nil {
			continue
		}
		var m seedMeta
		if json.Unmarshal(b, &m) != nil {
			continue
		}
		want := false
		for _, d := range m.DetectWith {
			if d == id {
				want = true
			}
		}
		if !want {
			continue
		}
		out = append(out, runSeed(repo, filepath.Dir(mf), m, id, known))
	}
	return out
}

func runSeed(repo, seedDir string, m seedMeta, id string, known *core.KnownFile) seedResult {
	res := seedResult{Seed: m.Name}
	// the program loaded for this seed must not outlive it
	defer func() {
		core.ResetCaches()
		runtime.GC()
		debug.FreeOSMemory()
	}()
	tmp, err := os.MkdirTemp("", "nokvsa-selftest-")
	if err != nil {
		res.Note = err.Error()
		return res
	}
	defer os.RemoveAll(tmp)
	if err := copyTree(repo, tmp); err != nil {
		res.Note = "copy: " + err.Error()
		return res
	}
	cmd := exec.Command("git", "apply", "--whitespace=nowarn", filepath.Join(seedDir, "patch.diff"))
	cmd.Dir = tmp
	if outp, err := cmd.CombinedOutput(); err != nil {
		res.Note = "patch does not apply to the current tree: " + firstLine(string(outp))
		return res
	}
	res.Applied = true
	p, err := core.Load(tmp, "", "")
	if err != nil {
		// e.g. the reverse of one fix no longer compiles on top of a later one: skipped, like a
		// patch that does not apply
		res.Applied = false
		res.Note = "patched tree does not load: " + firstLine(err.Error())
		return res
	}
	c := core.NewCtx(p, id, "selftest")
	runSafe(c, props.Get(id))
	kn := map[string]bool{}
	for _, f := range known.Findings {
		kn[f.Property+"|"+f.Rule+"|"+f.Construct] = true
	}
	seen := map[string]bool{}
	for _, o := range c.Obls {
		if o.Verdict != core.Violation && o.Verdict != core.Undecided {
			continue
		}
		if kn[o.Key()] {
			continue
		}
		k := o.Rule + " @ " + o.Construct
		if !seen[k] {
			seen[k] = true
			res.Reports = append(res.Reports, k)
		}
	}
	sort.Strings(res.Reports)
	res.Detected = len(res.Reports) > 0
	return res
}

func firstLine(s string) string {
	if i := strings.IndexByte(s, '\n'); i >= 0 {
		return s[:i]
	}
	return s
}

func copyTree(src, dst string) error {
	return filepath.WalkDir(src, func(path string, d fs.DirEntry, err error) error {
		if err != nil {
			return err
		}
		rel, _ := filepath.Rel(src, path)
		if rel == "." {
			return nil
		}
		if d.IsDir() {
			if d.Name() == ".git" {
				return filepath.SkipDir
			}
			return os.MkdirAll(filepath.Join(dst, rel), 0o755)
		}
		if !d.Type().IsRegular() {
			return nil
		}
		in, err := os.Open(path)
		if err != nil {
			return err
		}
		defer in.Close()
		out, err := os.Create(filepath.Join(dst, rel))
		if err != nil {
			return err
		}
		defer out.Close()
		_, err = io.Copy(out, in)
		return err
	})
}

func printSelftest(id string, rs []seedResult) {
	for _, r := range rs {
		switch {
		case !r.Applied:
			fmt.Printf("SELFTEST property=%s seed=%s skipped (%s)\n", id, r.Seed, r.Note)
		case r.Detected:
			fmt.Printf("SELFTEST property=%s seed=%s detected (%d report(s), first: %s)\n", id, r.Seed, len(r.Reports), r.Reports[0])
		default:
			fmt.Printf("SELFTEST-WARNING property=%s seed=%s applies to the current tree but is no longer reported\n", id, r.Seed)
		}
	}
}
