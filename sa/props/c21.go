package props

import (
	"fmt"
	"go/token"
	"go/types"
	"slices"
	"strings"

	"golang.org/x/tools/go/ssa"

	. "nokvsa/core"
)

func init() {
	register("C21", C21)
	register("C23", C23)
	register("C25", C25)
}

func C21(c *Ctx) {
	c.Note("term/vote monotonicity across arbitrary histories; conflicting-overwrite semantics of the in-memory raft log; that fsync reaches the device; recovery replay order")
	segmentNamesGroup(c, "K12.segment-name-codec")
	const r1 = "K1.raft-wal-durable-before-return"
	c.Rule(r1, "WALStorage.Append, SetHardState (non-empty state) and ApplySnapshot: every path from wal.AppendRecords to a nil return passes a successful wal.Manager.Sync (the manager is opened with SyncOnWrite=false, so the explicit Sync is the only point where the record leaves the user-space buffer); the in-memory raft storage is updated only after the record was appended")
	for _, name := range []string{"WALStorage.Append", "WALStorage.SetHardState", "WALStorage.ApplySnapshot"} {
		fn := c.Fn("raftstore/engine", name)
		if fn == nil {
			continue
		}
		// the record may be appended and synced by fn itself or by a same-package helper it calls
		appendM := Named("wal.(*Manager).AppendRecords")
		var ap []ssa.CallInstruction
		if direct := Calls(fn, false, appendM); len(direct) > 0 {
			ap = direct
			appendThenSync(c, r1, fn)
		} else {
			for _, ci := range Calls(fn, false, func(cc *ssa.CallCommon) bool { return true }) {
				h := StaticFn(ci.Common())
				if h == nil || h.Blocks == nil || h == fn || FuncPkgPath(h) != FuncPkgPath(fn) || len(Calls(h, false, appendM)) == 0 {
					continue
				}
				c.Touch(h)
				appendThenSync(c, r1, h)
				ap = append(ap, ci)
			}
		}
		c.Decide(len(ap) >= 1, r1, key(fn, "has:wal.AppendRecords"), fn.Pos(), len(ap)+1, "the record is appended to the WAL (directly or through a helper)", name+" no longer appends its record to the WAL")
		// mem update after append success
		mem := Named("go.etcd.io/raft/v3.(*MemoryStorage).Append", "go.etcd.io/raft/v3.(*MemoryStorage).SetHardState", "go.etcd.io/raft/v3.(*MemoryStorage).ApplySnapshot")
		for i, m := range Calls(fn, false, mem) {
			// the empty-hard-state shortcut is before any append: accept when no AppendRecords can reach it and it is dominated by IsEmptyHardState
			if g, _ := guardedByCall(fn, m.(ssa.Instruction), Named("go.etcd.io/raft/v3.IsEmptyHardState", "raft.IsEmptyHardState"), true); g {
				c.Pass(r1, key(fn, fmt.Sprintf("mem-update[%d]", i+1)), m.Pos(), 1, "empty hard state: nothing to persist")
				continue
			}
			succOK(c, r1, key(fn, fmt.Sprintf("mem-update[%d]<-ok(AppendRecords)", i+1)), fn, ap, "wal.AppendRecords", m.(ssa.Instruction), "in-memory raft storage update")
		}
	}
	const r1b = "K1.replay-applies-every-record"
	c.Rule(r1b, "the WAL replay callback in OpenWALStorage applies every raft-typed record of its group to the in-memory storage: between the successful decode of a record and mem.Append / mem.SetHardState / mem.ApplySnapshot the only conditions are the decode error test and the group-id / emptiness filter on the decoded values (no comparison with state replayed so far)")
	if fn := c.Fn("raftstore/engine", "OpenWALStorage"); fn != nil {
		var cb *ssa.Function
		for _, a := range fn.AnonFuncs {
			if len(Calls(a, false, Named("raftstore/engine.decodeRaftHardState"))) > 0 {
				cb = a
			}
		}
		if cb == nil {
			c.Fail(r1b, key(fn, "has:replay-callback"), fn.Pos(), 1, "no replay callback decoding raft records found in OpenWALStorage")
		} else {
			c.Touch(cb)
			pairs := [][2]string{
				{"raftstore/engine.decodeRaftEntries", "go.etcd.io/raft/v3.(*MemoryStorage).Append"},
				{"raftstore/engine.decodeRaftHardState", "go.etcd.io/raft/v3.(*MemoryStorage).SetHardState"},
				{"raftstore/engine.decodeRaftSnapshot", "go.etcd.io/raft/v3.(*MemoryStorage).ApplySnapshot"},
			}
			for _, pr := range pairs {
				dec := need(c, r1b, cb, false, pr[0], Named(pr[0]), 1)
				app := need(c, r1b, cb, false, pr[1], Named(pr[1]), 1)
				if len(dec) == 0 || len(app) == 0 {
					continue
				}
				d, a := dec[0], app[0]
				// every branch on the way from the decode to the apply tests only values produced by the decode
				// (error, group id, payload emptiness) against constants / the configured group id
				bad := ""
				nb := 0
				for _, b := range cb.Blocks {
					ifi := ifOf(b)
					if ifi == nil || !blockReaches(d.Block(), b) || !blockReaches(b, a.Block()) || b == a.Block() {
						continue
					}
					if !d.Block().Dominates(b) {
						continue
					}
					// a filter branch: one successor cannot reach the apply
					if blockReaches(b.Succs[0], a.Block()) && blockReaches(b.Succs[1], a.Block()) {
						continue
					}
					nb++
					if why := replayFilterOK(ifi.Cond, d.Value()); why != "" {
						bad = why
					}
				}
				c.Decide(bad == "", r1b, key(cb, "filters-between:"+shortName(pr[0])+"→"+shortName(pr[1])), a.Pos(), nb+1, fmt.Sprintf("%d filter(s), all on the decoded record itself", nb), "a replayed record can be skipped by a condition that is not a property of the record itself ("+bad+"): persisted raft state is not recovered exactly")
			}
		}
	}

	const r2 = "K1.persist-before-send"
	c.Rule(r2, "Peer.processReady sends the Ready's messages only after handleReady returned nil; handleReady persists snapshot, entries and then the hard state (each error returned; the hard state last, because its commit index may refer to the other two) before applying committed entries; processReady calls node.Advance only after handleReady succeeded")
	if fn := c.Fn("raftstore/peer", "Peer.processReady"); fn != nil {
		hr := Named("raftstore/peer.(*Peer).handleReady")
		beforeOK(c, r2, fn, "handleReady", hr, "sendMessages", Named("raftstore/peer.(*Peer).sendMessages"), 1)
		beforeOK(c, r2, fn, "handleReady", hr, "node.Advance", Named("go.etcd.io/raft/v3.(*RawNode).Advance"), 1)
	}
	if fn := c.Fn("raftstore/peer", "Peer.handleReady"); fn != nil {
		st := Named("(raftstore/engine.PeerStorage).SetHardState", "(raftstore/engine.PeerStorage).ApplySnapshot", "(raftstore/engine.PeerStorage).Append")
		// the three persistence calls may live in handleReady or in a helper it calls first (persistReady)
		owner := fn
		if len(Calls(fn, false, st)) == 0 {
			for _, ci := range Calls(fn, false, func(cc *ssa.CallCommon) bool { return true }) {
				if h := StaticFn(ci.Common()); h != nil && h.Blocks != nil && FuncPkgPath(h) == FuncPkgPath(fn) && len(Calls(h, false, st)) > 0 {
					owner = h
					c.Touch(h)
					errPropagated(c, r2, key(fn, "persist-helper#error-propagated"), fn, ci)
					break
				}
			}
		}
		sites := need(c, r2, owner, false, "storage mutators", st, 3)
		for i, s := range sites {
			errPropagated(c, r2, key(fn, fmt.Sprintf("storage-mutator[%d]#error-propagated", i+1)), owner, s)
		}
		// the hard state record goes last: no snapshot/entries persistence is reachable after it
		hsM := Named("(raftstore/engine.PeerStorage).SetHardState")
		for i, hs := range Calls(owner, false, hsM) {
			late := ""
			for _, o := range Calls(owner, false, Named("(raftstore/engine.PeerStorage).ApplySnapshot", "(raftstore/engine.PeerStorage).Append")) {
				if blockReaches(hs.Block(), o.Block()) && !(hs.Block() == o.Block() && Dominates(o.(ssa.Instruction), hs.(ssa.Instruction))) {
					late = CalleeObj(o.Common()).Name()
				}
			}
			c.Decide(late == "", r2, key(fn, fmt.Sprintf("SetHardState[%d]#after-snapshot-and-entries", i+1)), hs.Pos(), 3, "the hard state is persisted after the snapshot and the entries it may refer to", "storage."+late+" can run after SetHardState within one Ready: each is its own synced WAL record, so a crash in between recovers a commit index beyond the log (the peer panics on restart)")
		}
		// apply of committed entries after the three persistence calls: the apply callback call (dynamic) and applyAdminCommand
		beginApply := deepMatcher(Named("raftstore/peer.(*Peer).beginApply"), FuncPkgPath(fn), 2)
		applyCalls := Calls(fn, false, beginApply)
		// persistence sites as seen from handleReady: the mutators themselves or the helper that holds them
		var persist []ssa.CallInstruction
		if owner == fn {
			persist = sites
		} else {
			persist = Calls(fn, false, Fnm(owner))
		}
		for i, a := range applyCalls {
			for j, s := range persist {
				// no path from the apply back to a storage mutator within one Ready: mutators come first
				c.Decide(!blockReaches(a.Block(), s.Block()) || (a.Block() == s.Block() && Dominates(s.(ssa.Instruction), a.(ssa.Instruction))), r2, key(fn, fmt.Sprintf("beginApply[%d]-after-storage-mutator[%d]", i+1, j+1)), a.Pos(), 2, "persistence precedes apply", "committed entries can be applied before the Ready's state was persisted")
			}
		}
	}
	const r3 = "K3.raft-record-writers"
	c.Rule(r3, "raft-typed WAL records are appended only by WALStorage (Append, SetHardState, ApplySnapshot)")
	n := 0
	for _, f := range c.P.ModFuncs {
		if strings.HasSuffix(FuncPkgPath(f), "/benchmark") {
			continue
		}
		for _, ci := range Calls(f, false, Named("wal.(*Manager).AppendRecords")) {
			root := FuncName(Root(f))
			if root == "(*wal.Manager).Append" {
				continue
			}
			n++
			ok := strings.HasPrefix(root, "(*raftstore/engine.WALStorage).")
			c.Decide(ok, r3, "wal.AppendRecords#caller:"+root, ci.Pos(), 1, "raft storage mutator", "typed WAL records are appended by "+root+" outside the raft storage mutators (no durability point)")
		}
	}
	c.Floor(r3, n, 1, "AppendRecords call sites")
}

func C23(c *Ctx) {
	c.Note("safety of ReadIndex itself under partitions (etcd/raft, trusted); clock/lease issues; a stale Status() racing with a leader change between validation and proposal")
	clientOutcomeRules(c, "K1.proposal-answered-by-its-own-command")
	const r1 = "K1.read-path-chain"
	c.Rule(r1, "Store.ReadCommand: validateCommand (nil region error) → peer.LinearizableRead()==nil → peer.WaitApplied(index)==nil → commandApplier, where the index waited for is the one LinearizableRead returned; LinearizableRead registers the read context before ReadIndex and returns the index delivered through handleReadStates")
	if fn := c.Fn("raftstore/store", "Store.ReadCommand"); fn != nil {
		vc := Named("raftstore/store.(*Store).validateCommand")
		lr := Named("raftstore/peer.(*Peer).LinearizableRead")
		wa := Named("raftstore/peer.(*Peer).WaitApplied")
		// the barrier (LinearizableRead → WaitApplied) may live in a helper of ReadCommand whose
		// success implies both steps
		succChain(c, r1, fn, []chainStep{{"validateCommand", vc, nil}, {"LinearizableRead", lr, nil}, {"WaitApplied", wa, nil}}, 1)
		// applier: dynamic call through field Store.commandApplier
		var applies []ssa.Instruction
		AllInstrs(fn, false, func(in ssa.Instruction) {
			if call, ok := in.(*ssa.Call); ok && !call.Call.IsInvoke() {
				if isFieldLoad(call.Call.Value, "raftstore/store.Store", "commandApplier") {
					applies = append(applies, in)
				}
			}
		})
		c.Decide(len(applies) == 1, r1, key(fn, "has:commandApplier-call"), fn.Pos(), 1, "single local apply", fmt.Sprintf("%d commandApplier calls in ReadCommand", len(applies)))
		was := verifySites(c, fn, wa, 1)
		lrs := verifySites(c, fn, lr, 1)
		c.Decide(len(lrs) >= 1, r1, key(fn, "has:LinearizableRead"), fn.Pos(), len(lrs)+1, "read barrier present", "expected at least 1 call(s) to LinearizableRead in (*raftstore/store.Store).ReadCommand, found 0")
		c.Decide(len(was) >= 1, r1, key(fn, "has:WaitApplied"), fn.Pos(), len(was)+1, "apply wait present", "expected at least 1 call(s) to WaitApplied in (*raftstore/store.Store).ReadCommand, found 0")
		for i, a := range applies {
			succOK(c, r1, key(fn, fmt.Sprintf("commandApplier[%d]<-ok(WaitApplied)", i+1)), fn, was, "WaitApplied", a, "local read")
			succOK(c, r1, key(fn, fmt.Sprintf("commandApplier[%d]<-ok(LinearizableRead)", i+1)), fn, lrs, "LinearizableRead", a, "local read")
		}
		// waited index == LinearizableRead's index (in whichever function holds both calls)
		holder := fn
		if len(Calls(fn, false, wa)) == 0 && len(was) > 0 {
			holder = StaticFn(was[0].Common())
		}
		if hw, hl := Calls(holder, false, wa), Calls(holder, false, lr); len(hw) > 0 && len(hl) > 0 {
			arg := hw[0].Common().Args[len(hw[0].Common().Args)-1]
			ok := false
			for _, r := range *hl[0].Value().Referrers() {
				if ex, isEx := r.(*ssa.Extract); isEx && ex.Index == 0 && ex == arg {
					ok = true
				}
			}
			c.Decide(ok, r1, key(fn, "WaitApplied#index=ReadIndex"), hw[0].Pos(), 1, "waits for exactly the read index", "WaitApplied is not given the index returned by LinearizableRead")
		}
		// region response (not leader / epoch) returned before anything else
		// the read-only test precedes the apply
		ro := Calls(fn, false, Named("raftstore/store.isReadOnlyRequest"))
		for i, a := range applies {
			g, _ := guardedByCall(fn, a, Named("raftstore/store.isReadOnlyRequest"), true)
			c.Decide(g && len(ro) == 1, r1, key(fn, fmt.Sprintf("commandApplier[%d]<-isReadOnlyRequest", i+1)), a.Pos(), 2, "only read-only commands bypass the log", "a command that is not read-only can be applied locally without going through raft")
		}
	}
	if fn := c.Fn("raftstore/peer", "Peer.LinearizableRead"); fn != nil {
		sri := Calls(fn, false, Named("raftstore/peer.(*Peer).startReadIndex"))
		inlined := len(sri) == 0 && len(Calls(fn, false, Named("go.etcd.io/raft/v3.(*RawNode).ReadIndex"))) > 0
		c.Decide(len(sri) >= 1 || inlined, r1, key(fn, "has:startReadIndex"), fn.Pos(), len(sri)+1, "the ReadIndex round trip is started", "expected at least 1 call(s) to startReadIndex (or an inlined node.ReadIndex) in (*raftstore/peer.Peer).LinearizableRead, found 0")
		n := 0
		for _, r := range SuccessReturns(fn) {
			if fn.Recover != nil && r.Block() == fn.Recover {
				continue
			}
			// `return 0, ctx.Err()` in the <-ctx.Done() case: Err is non-nil once Done is closed
			if ec, ok := RetVal(r, 1).(*ssa.Call); ok && ec.Call.IsInvoke() && ec.Call.Method.Name() == "Err" && TypeName(ec.Call.Value.Type()) == "context.Context" {
				continue
			}
			n++
			v := RetVal(r, 0)
			good := false
			if len(sri) > 0 {
				good = recvFromResultOf(v, sri[0].Value(), 1)
			} else if inlined {
				// the waiter channel is the one registered in pendingReads
				good = recvFromRegisteredChan(fn, v)
			}
			c.Decide(good, r1, key(fn, fmt.Sprintf("success-return[%d]#index<-readIndex-channel", n)), r.Pos(), 2, "the index returned on success is the one received from the ReadIndex waiter channel", "LinearizableRead can return success with an index that did not come from the ReadIndex round trip (no quorum confirmation of leadership: a deposed leader serves stale reads)")
		}
		c.Decide(n >= 1, r1, key(fn, "has:success-return"), fn.Pos(), 1, "success return found", "no success return found in LinearizableRead")
	}
	sriFn := c.FnOpt("raftstore/peer", "Peer.startReadIndex")
	if sriFn == nil {
		sriFn = c.Fn("raftstore/peer", "Peer.LinearizableRead") // inlined
	}
	if fn := sriFn; fn != nil {
		reg := fieldStoresIn(fn, false, "raftstore/peer.Peer", "pendingReads")
		ri := need(c, r1, fn, false, "node.ReadIndex", Named("go.etcd.io/raft/v3.(*RawNode).ReadIndex"), 1)
		for i, r := range ri {
			ok, n := MustPrecede(fn, r.(ssa.Instruction), reg)
			c.Decide(ok && len(reg) > 0, r1, key(fn, fmt.Sprintf("ReadIndex[%d]<-register-pending", i+1)), r.Pos(), n, "the waiter is registered before ReadIndex is issued", "ReadIndex can be issued before the pending read is registered (its ReadState would be dropped)")
		}
	}
	if fn := c.Fn("raftstore/peer", "Peer.WaitApplied"); fn != nil {
		need(c, r1, fn, false, "applyMark.WaitForMark", Named("utils.(*WaterMark).WaitForMark"), 1)
	}
	if fn := c.Fn("raftstore/peer", "Peer.finishApply"); fn != nil {
		need(c, r1, fn, false, "applyMark.Done", Named("utils.(*WaterMark).Done", "utils.(*WaterMark).DoneMany"), 1)
	}

	const r2 = "K1.leader-gate"
	c.Rule(r2, "Store.validateCommand returns a usable peer only behind status.RaftState == StateLeader (otherwise a NotLeader region error); ProposeCommand and ReadCommand call it first and are the only callers of router.SendCommand / the local applier outside the raft apply loop")
	if fn := c.Fn("raftstore/store", "Store.validateCommand"); fn != nil {
		// find the comparison RaftState != StateLeader
		var gate *ssa.BasicBlock
		var leaderEdge *ssa.BasicBlock
		for _, b := range fn.Blocks {
			if ifi := ifOf(b); ifi != nil {
				if bo, ok := ifi.Cond.(*ssa.BinOp); ok && (bo.Op == token.NEQ || bo.Op == token.EQL) {
					if TypeName(bo.X.Type()) == "go.etcd.io/raft/v3.StateType" {
						if k, isC := ConstInt(bo.Y); isC && k == stateLeaderValue(c) {
							gate = b
							if bo.Op == token.NEQ {
								leaderEdge = b.Succs[1]
							} else {
								leaderEdge = b.Succs[0]
							}
						}
					}
				}
			}
		}
		c.Decide(gate != nil, r2, key(fn, "has:RaftState==StateLeader"), fn.Pos(), 1, "leader test present", "validateCommand no longer compares the peer's RaftState with StateLeader")
		if gate != nil {
			for i, r := range Returns(fn) {
				// returns with a non-nil peer (result 0) and nil response
				if IsNilConst(RetVal(r, 0)) {
					continue
				}
				c.Decide(EdgeDominates(gate, leaderEdge, r.Block()), r2, key(fn, fmt.Sprintf("peer-return[%d]<-leader-edge", i+1)), r.Pos(), 2, "a peer is handed out only on the leader edge", "validateCommand can return a peer without the leader check")
			}
			// the not-leader edge returns a response built by notLeaderError
			nl := Calls(fn, false, Named("raftstore/store.notLeaderError"))
			c.Decide(len(nl) == 1, r2, key(fn, "not-leader→NotLeader-error"), fn.Pos(), 1, "non-leaders answer NotLeader", "the NotLeader region error is no longer produced")
		}
	}
	vc := c.Fn("raftstore/store", "Store.validateCommand")
	for _, name := range []string{"Store.ProposeCommand", "Store.ReadCommand"} {
		fn := c.Fn("raftstore/store", name)
		if fn == nil || vc == nil {
			continue
		}
		vcs := Calls(fn, false, Fnm(vc))
		c.Decide(len(vcs) == 1, r2, key(fn, "calls:validateCommand"), fn.Pos(), 1, "validated", name+" does not call validateCommand exactly once")
		// every other call in the function comes after it
		if len(vcs) == 1 {
			for i, s := range Calls(fn, false, Named("raftstore/store.(*Router).SendCommand", "raftstore/peer.(*Peer).LinearizableRead", "raftstore/store.(*commandPipeline).registerProposal")) {
				ok, n := MustPrecede(fn, s.(ssa.Instruction), instrs(vcs))
				c.Decide(ok, r2, key(fn, fmt.Sprintf("action[%d]<-validateCommand", i+1)), s.Pos(), n, "validation first", "an action precedes validation")
				// behind the nil-response edge
				resp := extractN(vcs[0], 2)
				good := false
				for _, e := range NilEdges(fn, map[ssa.Value]bool{resp: true}) {
					if EdgeDominates(e.Nil[0], e.Nil[1], s.Block()) {
						good = true
					}
				}
				c.Decide(good, r2, key(fn, fmt.Sprintf("action[%d]<-no-region-error", i+1)), s.Pos(), 2, "actions only when validation produced no region error", "the command proceeds although validateCommand produced a region error response")
			}
		}
	}
	onlyCallers(c, r2, c.Fn("raftstore/store", "Router.SendCommand"), map[string]string{"(*raftstore/store.Store).ProposeCommand": "validated proposals"}, 1)
}

func extractN(ci ssa.CallInstruction, n int) ssa.Value {
	v := ci.Value()
	if v == nil {
		return nil
	}
	for _, r := range *v.Referrers() {
		if ex, ok := r.(*ssa.Extract); ok && ex.Index == n {
			return ex
		}
	}
	return nil
}

func stateLeaderValue(c *Ctx) int64 {
	for _, sp := range c.P.SSA.AllPackages() {
		if sp.Pkg.Path() == "go.etcd.io/raft/v3" {
			if k, ok := sp.Pkg.Scope().Lookup("StateLeader").(*types.Const); ok {
				v, _ := ConstInt(ssa.NewConst(k.Val(), k.Type()))
				return v
			}
		}
	}
	c.Errorf("UNRESOLVED-ANCHOR raft.StateLeader")
	return -1
}

func C25(c *Ctx) {
	c.Note("scan requests sent through ProposeCommand are not trimmed (only the read path trims; the gRPC service routes scans to ReadCommand); keys reached through PrewriteRequest.PrimaryLock are deliberately not range-checked (the primary may live in another region)")
	applyTimeAdmission(c, "K1.validation-at-apply")
	scanConfinement(c, "K14.scan-confinement")
	const r1 = "K1.validation-on-accept-path"
	c.Rule(r1, "Store.validateCommand hands out a peer only after validateRegionEpoch()==nil and validateRequestKeys()==nil; validateRegionEpoch compares both ConfVer and Version for inequality; a missing epoch is rejected")
	if fn := c.Fn("raftstore/store", "Store.validateCommand"); fn != nil {
		for _, g := range []string{"raftstore/store.validateRegionEpoch", "raftstore/store.validateRequestKeys"} {
			gs := need(c, r1, fn, false, g, Named(g), 1)
			for i, r := range Returns(fn) {
				if IsNilConst(RetVal(r, 0)) {
					continue
				}
				// behind the nil edge of the guard's result
				good := false
				for _, gc := range gs {
					for _, e := range NilEdges(fn, map[ssa.Value]bool{gc.Value(): true}) {
						if EdgeDominates(e.Nil[0], e.Nil[1], r.Block()) {
							good = true
						}
					}
				}
				c.Decide(good, r1, key(fn, fmt.Sprintf("peer-return[%d]<-ok(%s)", i+1, g)), r.Pos(), 2, "accepted only when "+g+" found no error", "a command is accepted although "+g+" reported a region error (or without calling it)")
			}
		}
	}
	if fn := c.Fn("raftstore/store", "validateRegionEpoch"); fn != nil {
		// decided by order-sign evaluation over (epoch present?, ConfVer ==?, Version ==?):
		// the request is accepted (nil region error) exactly when the epoch is present and
		// both components equal the region's; any spelling of the guard gives the same table
		role := func(v ssa.Value) string {
			v = Unwrap(v)
			if len(fn.Params) > 0 && v == fn.Params[0] {
				return "req"
			}
			if k, ok := v.(*ssa.Const); ok && k.IsNil() {
				return "nil"
			}
			if call, ok := v.(*ssa.Call); ok {
				switch FuncName(StaticFn(call.Common())) {
				case "(*pb.RegionEpoch).GetConfVer":
					return "reqConf"
				case "(*pb.RegionEpoch).GetVersion":
					return "reqVer"
				}
			}
			if isFieldLoad(v, "manifest.RegionEpoch", "ConfVersion") {
				return "curConf"
			}
			if isFieldLoad(v, "manifest.RegionEpoch", "Version") {
				return "curVer"
			}
			return ""
		}
		bad, n := "", 0
		for _, present := range []int{0, 1} {
			for _, dc := range []int{-1, 0, 1} {
				for _, dv := range []int{-1, 0, 1} {
					signs := map[string]int{}
					SetSign(signs, "req", "nil", present)
					SetSign(signs, "reqConf", "curConf", dc)
					SetSign(signs, "reqVer", "curVer", dv)
					env := &SignEnv{Role: role, Signs: signs, Depth: 2}
					wantAccept := present == 1 && dc == 0 && dv == 0
					for _, r := range env.ReachableReturns(fn) {
						n++
						isNil := IsNilConst(RetVal(r, 0))
						if isNil != wantAccept && bad == "" {
							bad = fmt.Sprintf("epoch present=%v ConfVer cmp=%d Version cmp=%d: returns %s", present == 1, dc, dv, map[bool]string{true: "no error (accepted)", false: "a region error (rejected)"}[isNil])
						}
					}
				}
			}
		}
		c.Decide(bad == "" && n >= 18, r1, key(fn, "ConfVer!=&&Version!="), fn.Pos(), n+1, "accepted exactly when the epoch is present and both components match (18 orderings evaluated)", "validateRegionEpoch decides wrongly for "+bad)
		nilRej := true
		{
			signs := map[string]int{}
			SetSign(signs, "req", "nil", 0)
			env := &SignEnv{Role: role, Signs: signs, Depth: 2}
			rs := env.ReachableReturns(fn)
			for _, r := range rs {
				if IsNilConst(RetVal(r, 0)) {
					nilRej = false
				}
			}
			if len(rs) == 0 {
				nilRej = false
			}
		}
		c.Decide(nilRej, r1, key(fn, "nil-epoch→reject"), fn.Pos(), 1, "a request without epoch is rejected", "a request without an epoch is accepted")
	}

	const r2 = "K5.cmdtype-exhaustive-key-check"
	c.Rule(r2, "validateRequestKeys has a case for every pb.CmdType that raftstore/kv.Apply executes (same handled set) and a rejecting default; in every case each key-bearing field of the request message (Key, Keys, StartKey, PrimaryKey, Mutations[].Key) reaches keyInRange")
	vk := c.Fn("raftstore/store", "validateRequestKeys")
	apl := c.Fn("raftstore/kv", "Apply")
	if vk != nil && apl != nil {
		a := comparedConsts(vk, "pb.CmdType")
		b := comparedConsts(apl, "pb.CmdType")
		consts := enumConsts(c, "pb", "CmdType")
		for name, v := range consts {
			k := key(vk, "case:"+name)
			switch {
			case a[v] && b[v]:
				c.Pass(r2, k, vk.Pos(), 2, "validated and executed")
			case !a[v] && !b[v]:
				c.Pass(r2, k, vk.Pos(), 2, "neither validated nor executable (falls to the rejecting defaults)")
			case b[v] && !a[v]:
				c.Fail(r2, k, vk.Pos(), 2, "%s is executed by kv.Apply but has no key-range case in validateRequestKeys", name)
			default:
				c.Pass(r2, k, vk.Pos(), 2, "validated; not executable")
			}
		}
		// the validation group: validateRequestKeys and the same-package helpers it hands keys to
		isKIR := Named("raftstore/store.keyInRange")
		grp := []*ssa.Function{vk}
		for i := 0; i < len(grp) && len(grp) < 16; i++ {
			for _, cs := range Calls(grp[i], true, func(*ssa.CallCommon) bool { return true }) {
				cal := cs.Common().StaticCallee()
				if cal == nil || cal.Blocks == nil || cal.Pkg != vk.Pkg || isKIR(cs.Common()) || slices.Contains(grp, cal) {
					continue
				}
				if len(Calls(cal, true, isKIR)) > 0 {
					grp = append(grp, cal)
				}
			}
		}
		// a value (the result of a key-field getter) reaches the key argument of keyInRange:
		// through range/index/phi/conversions and through parameters of the group's helpers
		var reaches func(v ssa.Value, seen map[ssa.Value]bool) bool
		reaches = func(v ssa.Value, seen map[ssa.Value]bool) bool {
			if v == nil || seen[v] || v.Referrers() == nil {
				return false
			}
			seen[v] = true
			for _, ref := range *v.Referrers() {
				switch r := ref.(type) {
				case ssa.CallInstruction:
					cc := r.Common()
					if isKIR(cc) {
						if len(cc.Args) > 1 && cc.Args[1] == v {
							return true
						}
						continue
					}
					if cal := cc.StaticCallee(); cal != nil && slices.Contains(grp, cal) {
						for i, a := range cc.Args {
							if a == v && i < len(cal.Params) && reaches(cal.Params[i], seen) {
								return true
							}
						}
					}
				case *ssa.Store:
					if r.Val == v && reaches(r.Addr, seen) {
						return true
					}
				case *ssa.Range, *ssa.Next, *ssa.Extract, *ssa.Index, *ssa.IndexAddr, *ssa.Phi, *ssa.Slice, *ssa.ChangeType, *ssa.Convert, *ssa.Lookup:
					if reaches(r.(ssa.Value), seen) {
						return true
					}
				case *ssa.UnOp:
					if r.Op == token.MUL && reaches(r, seen) {
						return true
					}
				}
			}
			return false
		}
		// the answer of a key check (or of a helper that performs key checks) leads to a rejection
		var rejects func(v ssa.Value, depth int) bool
		rejects = func(v ssa.Value, depth int) bool {
			if v == nil || v.Referrers() == nil || depth > 4 {
				return false
			}
			for _, ref := range *v.Referrers() {
				switch r := ref.(type) {
				case *ssa.If:
					if returnsNonNilPtr(r.Block().Succs[1]) || returnsNonNilPtr(r.Block().Succs[0]) {
						return true
					}
				case *ssa.UnOp:
					if r.Op == token.NOT {
						return true
					}
				case *ssa.BinOp:
					if (r.Op == token.NEQ || r.Op == token.EQL) && rejects(r, depth+1) {
						return true
					}
				case *ssa.Return:
					return true
				case *ssa.Phi:
					if rejects(r, depth+1) {
						return true
					}
				}
			}
			return false
		}
		var kir []ssa.CallInstruction
		for _, f := range grp {
			kir = append(kir, Calls(f, true, isKIR)...)
		}
		for i, k := range kir {
			c.Decide(rejects(k.Value(), 0), r2, key(vk, fmt.Sprintf("keyInRange[%d]→reject", i+1)), k.Pos(), 1, "out-of-range key rejects the command", "the result of keyInRange does not lead to a rejection")
		}
		for _, h := range grp[1:] {
			for i, cs := range c.P.CallersOf(h) {
				if cs.Site == nil || !slices.Contains(grp, Root(cs.Caller)) || cs.Site.Value() == nil {
					continue
				}
				c.Decide(rejects(cs.Site.Value(), 0), r2, key(vk, fmt.Sprintf("helper:%s[%d]→reject", h.Name(), i+1)), cs.Site.Pos(), 1, "a key the helper finds out of range rejects the command", "the answer of "+h.Name()+", which performs the key-range checks, is not turned into a rejection")
			}
		}
		// field coverage: every key-bearing field of the request messages flows into a key check
		wantGetters := []string{"(*pb.GetRequest).GetKey", "(*pb.ScanRequest).GetStartKey", "(*pb.Mutation).GetKey", "(*pb.CommitRequest).GetKeys",
			"(*pb.BatchRollbackRequest).GetKeys", "(*pb.ResolveLockRequest).GetKeys", "(*pb.CheckTxnStatusRequest).GetPrimaryKey"}
		for _, g := range wantGetters {
			ok := false
			for _, f := range grp {
				for _, gc := range Calls(f, true, Named(g)) {
					if gc.Value() != nil && reaches(gc.Value(), map[ssa.Value]bool{}) {
						ok = true
					}
				}
			}
			c.Decide(ok, r2, key(vk, "reads:"+g), vk.Pos(), 1, "key field flows into a keyInRange check", "the key-bearing field read by "+g+" no longer flows into a keyInRange check of validateRequestKeys")
		}
		// default arm rejects
		c.Decide(rejectingDefault(vk, "pb.CmdType"), r2, key(vk, "default→reject"), vk.Pos(), 1, "unknown command kinds are rejected", "validateRequestKeys accepts command kinds it has no case for")
	}

	const r3 = "K14.range-operators"
	c.Rule(r3, "keyInRange is the half-open interval test: key < StartKey rejects, key >= EndKey rejects, empty bounds are unbounded; trimScanResponse keeps a KV only when keyInRange holds and runs before ReadCommand returns a response")
	if fn := c.Fn("raftstore/store", "keyInRange"); fn != nil {
		// decided by order-sign evaluation over (key empty?, start empty?, end empty?,
		// key vs start, key vs end): 36 combinations, each must give the half-open answer
		var role func(v ssa.Value) string
		role = func(v ssa.Value) string {
			v = Unwrap(v)
			if len(fn.Params) > 1 && v == fn.Params[1] {
				return "key"
			}
			if isFieldLoad(v, "manifest.RegionMeta", "StartKey") {
				return "start"
			}
			if isFieldLoad(v, "manifest.RegionMeta", "EndKey") {
				return "end"
			}
			if call, ok := v.(*ssa.Call); ok {
				if bi, ok := call.Call.Value.(*ssa.Builtin); ok && bi.Name() == "len" && len(call.Call.Args) == 1 {
					if r := role(call.Call.Args[0]); r != "" {
						return "len(" + r + ")"
					}
				}
			}
			return ""
		}
		lower, upper, n := "", "", 0
		// (an empty key stands for `unbounded` in scan requests and is not constrained here)
		for _, ke := range []int{1} {
			for _, se := range []int{0, 1} {
				for _, ee := range []int{0, 1} {
					for _, ks := range []int{-1, 0, 1} {
						for _, kend := range []int{-1, 0, 1} {
							signs := map[string]int{}
							SetSign(signs, "len(key)", "0", ke)
							SetSign(signs, "len(start)", "0", se)
							SetSign(signs, "len(end)", "0", ee)
							SetSign(signs, "key", "start", ks)
							SetSign(signs, "key", "end", kend)
							env := &SignEnv{Role: role, Signs: signs, Depth: 2}
							want := ke == 1 && (se == 0 || ks >= 0) && (ee == 0 || kend < 0)
							got := env.ReturnValue(fn, 0)
							n++
							if (got == True) == want && got != Unknown {
								continue
							}
							d := fmt.Sprintf("non-empty key=%v start set=%v end set=%v key?start=%d key?end=%d: answers %v, the half-open interval says %v", ke == 1, se == 1, ee == 1, ks, kend, triName(got), want)
							// blame the bound that alone decides this combination
							if ke == 1 && (ee == 0 || kend < 0) {
								if lower == "" {
									lower = d
								}
							} else if upper == "" {
								upper = d
							}
						}
					}
				}
			}
		}
		c.Decide(lower == "", r3, key(fn, "StartKey:<→reject"), fn.Pos(), n+1, "exactly key < StartKey is below the range (36 orderings evaluated)", "keyInRange decides wrongly for "+lower)
		c.Decide(upper == "", r3, key(fn, "EndKey:>=→reject"), fn.Pos(), n+1, "exactly key >= EndKey is above the range (end exclusive; 72 orderings evaluated)", "keyInRange decides wrongly for "+upper)
	}
	if fn := c.Fn("raftstore/store", "Store.ReadCommand"); fn != nil {
		tr := need(c, r3, fn, false, "trimScanResponse", Named("raftstore/store.trimScanResponse"), 1)
		for i, r := range Returns(fn) {
			if IsNilConst(RetVal(r, 0)) || !IsNilConst(RetVal(r, 1)) {
				continue
			}
			// region-error responses from validateCommand are returned untrimmed (no data)
			if call, ok := RetVal(r, 0).(*ssa.Extract); ok {
				if cc, ok := call.Tuple.(*ssa.Call); ok && Named("raftstore/store.(*Store).validateCommand")(cc.Common()) {
					continue
				}
			}
			reach, n := CutReach(fn, nil, r, instrs(tr), nilValueEdges(fn, RetVal(r, 0)))
			c.Decide(!reach, r3, key(fn, fmt.Sprintf("data-return[%d]<-trimScanResponse", i+1)), r.Pos(), n, "applier output is trimmed to the region before it is returned", "ReadCommand can return applier output without trimming scans to the region's range")
		}
	}
	if fn := c.Fn("raftstore/store", "trimScanResponse"); fn != nil {
		// the filter may live in a helper; wherever it is, every append into the kept slice
		// lies behind the true edge of keyInRange
		kirM := Named("raftstore/store.keyInRange")
		sites := effectSites(c, fn, func(ci ssa.CallInstruction) bool { return kirM(ci.Common()) }, 1)
		ok := len(sites) >= 1
		for _, s := range sites {
			g := fn
			if !kirM(s.Common()) {
				g = StaticFn(s.Common())
			}
			kir := Calls(g, false, kirM)
			AllInstrs(g, false, func(in ssa.Instruction) {
				call, isCall := in.(*ssa.Call)
				if !isCall {
					return
				}
				if bi, isB := call.Call.Value.(*ssa.Builtin); !isB || bi.Name() != "append" {
					return
				}
				behind := false
				for _, k := range kir {
					for e := range boolValueEdges(g, k.Value(), true) {
						if EdgeDominates(e[0], e[1], in.Block()) {
							behind = true
						}
					}
				}
				if !behind {
					ok = false
				}
			})
		}
		how := "kept keys satisfy keyInRange"
		if !ok && len(sites) == 0 && sortedCutAtEnd(fn) {
			// the other sound shape: scans start inside the region (admission rejects a start
			// below StartKey and an empty start on a region with a lower bound, rule K5/K14
			// above) and the applier emits keys in ascending order, so cutting the ordered
			// output at the first key >= EndKey leaves exactly the keys of the region
			ok, how = true, "the ordered scan output is cut at the first key >= EndKey (binary search whose predicate is exactly key >= EndKey); the lower bound is enforced at admission"
		}
		c.Decide(ok, r3, key(fn, "filters-by:keyInRange"), fn.Pos(), len(sites)+1, how, "trimScanResponse no longer filters by keyInRange (a KV is kept on a path that is not behind its true edge)")
	}
}

func isFieldOf(v ssa.Value, owner string) bool {
	v = Unwrap(v)
	if f, ok := v.(*ssa.Field); ok {
		o, _, _ := FieldOf(f)
		if o == owner {
			return true
		}
		return isFieldOf(f.X, owner)
	}
	return false
}

func paramSet(fn *ssa.Function, i int) map[ssa.Value]bool {
	if i < len(fn.Params) {
		return map[ssa.Value]bool{fn.Params[i]: true}
	}
	return nil
}

func rejectsFalse(b *ssa.BasicBlock) bool {
	seen := map[*ssa.BasicBlock]bool{}
	for b != nil && !seen[b] {
		seen[b] = true
		switch t := b.Instrs[len(b.Instrs)-1].(type) {
		case *ssa.Return:
			k, ok := t.Results[0].(*ssa.Const)
			return ok && k.Value != nil && k.Value.String() == "false"
		case *ssa.Jump:
			b = b.Succs[0]
		default:
			return false
		}
	}
	return false
}

// rejectingDefault: the arm reached when no case of the enum switch matches returns a non-nil first result.
func rejectingDefault(fn *ssa.Function, typeName string) bool {
	var lastFalse *ssa.BasicBlock
	for _, b := range fn.Blocks {
		ifi := ifOf(b)
		if ifi == nil {
			continue
		}
		bo, ok := ifi.Cond.(*ssa.BinOp)
		if !ok || bo.Op != token.EQL || TypeName(bo.X.Type()) != typeName {
			continue
		}
		f := b.Succs[1]
		isTest := false
		if fi := ifOf(f); fi != nil {
			if fb, ok := fi.Cond.(*ssa.BinOp); ok && fb.Op == token.EQL && TypeName(fb.X.Type()) == typeName {
				isTest = true
			}
		}
		if !isTest {
			lastFalse = f
		}
	}
	return lastFalse != nil && returnsNonNilPtr(lastFalse)
}

// nilValueEdges: edges taken when v == nil.
func nilValueEdges(fn *ssa.Function, v ssa.Value) map[[2]*ssa.BasicBlock]bool {
	out := map[[2]*ssa.BasicBlock]bool{}
	for _, e := range NilEdges(fn, map[ssa.Value]bool{v: true}) {
		out[e.Nil] = true
	}
	return out
}

// recvFromResultOf: v is the value received (select case or <-ch) from the channel that is
// result #idx of call.
func recvFromResultOf(v ssa.Value, call ssa.Value, idx int) bool {
	return recvFromChan(v, func(ch ssa.Value) bool {
		ex, ok := ch.(*ssa.Extract)
		return ok && ex.Tuple == call && ex.Index == idx
	})
}

// recvFromRegisteredChan: v is received from the channel that fn registered in Peer.pendingReads.
func recvFromRegisteredChan(fn *ssa.Function, v ssa.Value) bool {
	reg := map[ssa.Value]bool{}
	AllInstrs(fn, false, func(in ssa.Instruction) {
		if mu, ok := in.(*ssa.MapUpdate); ok {
			if o, f, ok := FieldOf(mu.Map); ok && o == "raftstore/peer.Peer" && f == "pendingReads" {
				reg[mu.Value] = true
			}
		}
	})
	return recvFromChan(v, func(ch ssa.Value) bool { return reg[ch] })
}

func recvFromChan(v ssa.Value, isCh func(ssa.Value) bool) bool {
	switch x := v.(type) {
	case *ssa.UnOp:
		if x.Op == token.ARROW {
			return isCh(x.X)
		}
	case *ssa.Extract:
		switch t := x.Tuple.(type) {
		case *ssa.Select:
			k := x.Index - 2
			j := 0
			for _, st := range t.States {
				if st.Dir != types.RecvOnly {
					continue
				}
				if j == k {
					return isCh(st.Chan)
				}
				j++
			}
		case *ssa.UnOp:
			if t.Op == token.ARROW && x.Index == 0 {
				return isCh(t.X)
			}
		}
	}
	return false
}

func shortName(n string) string {
	if i := strings.LastIndex(n, "."); i >= 0 {
		return n[i+1:]
	}
	return n
}

// replayFilterOK returns "" when cond only involves results of the decode call dec,
// constants, free variables (the configuration) and pure functions of those; otherwise it
// names the foreign operand.
func replayFilterOK(cond ssa.Value, dec ssa.Value) string {
	var bad string
	seen := map[ssa.Value]bool{}
	var walk func(v ssa.Value, depth int)
	walk = func(v ssa.Value, depth int) {
		if v == nil || seen[v] || bad != "" {
			return
		}
		seen[v] = true
		if depth > 12 {
			bad = "expression too deep"
			return
		}
		switch x := v.(type) {
		case *ssa.Const, *ssa.FreeVar, *ssa.Builtin, *ssa.Function:
			return
		case *ssa.Extract:
			if x.Tuple == dec {
				return
			}
			walk(x.Tuple, depth+1)
		case *ssa.BinOp:
			walk(x.X, depth+1)
			walk(x.Y, depth+1)
		case *ssa.UnOp:
			walk(x.X, depth+1)
		case *ssa.Phi:
			for _, e := range x.Edges {
				walk(e, depth+1)
			}
		case *ssa.FieldAddr:
			walk(x.X, depth+1)
		case *ssa.Field:
			walk(x.X, depth+1)
		case *ssa.Convert:
			walk(x.X, depth+1)
		case *ssa.Call:
			if x == dec {
				return
			}
			if _, isB := x.Call.Value.(*ssa.Builtin); !isB {
				if o := CalleeObj(x.Common()); o == nil || !pureRaftHelpers[ObjName(o)] {
					bad = "call to " + x.Call.Value.String()
					return
				}
			}
			for _, a := range x.Call.Args {
				walk(a, depth+1)
			}
		case *ssa.Alloc:
			// a spilled local: every store into it must be acceptable
			for _, r := range *x.Referrers() {
				if st, ok := r.(*ssa.Store); ok && st.Addr == x {
					walk(st.Val, depth+1)
				}
			}
		default:
			bad = fmt.Sprintf("operand %s", v.String())
		}
	}
	walk(cond, 0)
	return bad
}

var pureRaftHelpers = map[string]bool{
	"go.etcd.io/raft/v3.IsEmptySnap":      true,
	"go.etcd.io/raft/v3.IsEmptyHardState": true,
}

// appendThenSync: in f, every success return reachable from a wal.AppendRecords call lies behind
// a wal.Manager.Sync whose error was tested nil.
func appendThenSync(c *Ctx, r1 string, fn *ssa.Function) {
	ap := Calls(fn, false, Named("wal.(*Manager).AppendRecords"))
	syncs := Calls(fn, false, Named("wal.(*Manager).Sync"))
	for ai, a := range ap {
		bad, n := false, 0
		why := ""
		for _, r := range SuccessReturns(fn) {
			// success returns reachable from the append
			if reach, _ := CutReach(fn, a.(ssa.Instruction), r, nil, nil); !reach {
				continue
			}
			// must pass a Sync whose error was tested nil
			reach, m := CutReach(fn, a.(ssa.Instruction), r, instrs(syncs), nil)
			n += m
			if reach {
				bad, why = true, "a success return is reachable after AppendRecords without wal.Sync"
				continue
			}
			for _, s := range syncs {
				if rr, _ := CutReach(fn, s.(ssa.Instruction), r, nil, nil); !rr {
					continue
				}
				ev := ErrResult(s)
				if ev == nil {
					bad, why = true, "the error of wal.Sync is discarded"
					continue
				}
				cut := map[[2]*ssa.BasicBlock]bool{}
				for _, e := range NilEdges(fn, FlowSet(ev)) {
					cut[e.Nil] = true
				}
				if rr, k := CutReach(fn, s.(ssa.Instruction), r, nil, cut); rr {
					n += k
					bad, why = true, "a success return is reachable although wal.Sync failed"
				}
			}
		}
		c.Decide(!bad, r1, key(fn, fmt.Sprintf("AppendRecords[%d]→Sync→success", ai+1)), a.Pos(), n+1, "every success return after the append lies behind wal.Sync()==nil", why+": persisted raft state is still in the WAL manager's user-space buffer when the peer acts on it")
	}
}

func triName(t Tri) string {
	switch t {
	case True:
		return "true"
	case False:
		return "false"
	}
	return "undetermined"
}

// boolValueEdges returns the CFG edges taken when the boolean value v (used directly, or
// negated, as an If condition) equals val.
func boolValueEdges(fn *ssa.Function, v ssa.Value, val bool) edgeSet {
	out := edgeSet{}
	for _, b := range fn.Blocks {
		ifi := ifOf(b)
		if ifi == nil {
			continue
		}
		cv, pol := ifi.Cond, true
		for {
			if u, ok := cv.(*ssa.UnOp); ok && u.Op == token.NOT {
				cv, pol = u.X, !pol
				continue
			}
			break
		}
		if cv != v {
			continue
		}
		if pol == val {
			out[[2]*ssa.BasicBlock{b, b.Succs[0]}] = true
		} else {
			out[[2]*ssa.BasicBlock{b, b.Succs[1]}] = true
		}
	}
	return out
}

// applyTimeAdmission (C25): the epoch and key-range checks made when a command is proposed can be
// outdated when it executes (a split or merge logged before it has applied in between).  The
// apply loop must therefore ask again: the applier call of commandPipeline.applyEntries lies
// behind a nil answer of an admission function that the store wires to a function reaching
// validateRegionEpoch and validateRequestKeys; and the peer's Ready handler executes entries in
// log order (pending normal entries are applied before a following admin / conf-change entry).
func applyTimeAdmission(c *Ctx, rule string) {
	c.Rule(rule, "raftstore/store.commandPipeline.applyEntries calls the applier only behind a nil answer of commandPipeline.admit (or when no admission is wired); the Store constructor wires admit to a function that reaches validateRegionEpoch and validateRequestKeys; Peer.handleReady applies the normal entries collected so far before it applies an admin or configuration-change entry")
	const pkg = "raftstore/store"
	if fn := c.Fn(pkg, "commandPipeline.applyEntries"); fn != nil {
		var applies, admits []ssa.CallInstruction
		AllInstrs(fn, false, func(in ssa.Instruction) {
			call, ok := in.(*ssa.Call)
			if !ok || call.Call.IsInvoke() {
				return
			}
			switch {
			case isFieldLoad(call.Call.Value, pkg+".commandPipeline", "applier"):
				applies = append(applies, call)
			case isFieldLoad(call.Call.Value, pkg+".commandPipeline", "admit"):
				admits = append(admits, call)
			}
		})
		c.Decide(len(applies) >= 1, rule, key(fn, "has:applier-call"), fn.Pos(), len(applies)+1, "apply site found", "cannot find the applier call in applyEntries")
		for i, a := range applies {
			k := key(fn, fmt.Sprintf("applier[%d]<-nil(admit)", i+1))
			if len(admits) == 0 {
				c.Fail(rule, k, a.Pos(), 1, "applyEntries executes a committed command without asking whether the region still owns it: a command validated at proposal time runs against a region whose range and epoch a split or merge logged before it has since changed (a prewrite for a key the region handed to its child takes effect, no EpochNotMatch)")
				continue
			}
			// reachable from an admission call only across the nil edge of its result
			bad := false
			for _, ad := range admits {
				cut := map[[2]*ssa.BasicBlock]bool{}
				for _, e := range NilEdges(fn, FlowSet(ad.Value())) {
					cut[e.Nil] = true
				}
				// (a later entry of the batch is a new question: asking again, or the `no admission
				// wired` edge, ends the path that belongs to this answer)
				for e := range nilFieldEdges(fn, pkg+".commandPipeline", "admit") {
					cut[e] = true
				}
				if r, _ := CutReach(fn, ad.(ssa.Instruction), a.(ssa.Instruction), instrs(admits), cut); r {
					bad = true
				}
			}
			pre, n := CutReach(fn, nil, a.(ssa.Instruction), instrs(admits), map[[2]*ssa.BasicBlock]bool(nilFieldEdges(fn, pkg+".commandPipeline", "admit")))
			c.Decide(!bad && !pre, rule, k, a.Pos(), n+len(admits), "the command runs only when the apply-time admission found no region error", "the applier is reachable although the apply-time admission reported a region error (or without asking it)")
		}
	}
	// wiring: some store function assigns commandPipeline.admit a function reaching both validators
	wired := false
	for _, f := range c.P.ModFuncs {
		if !strings.HasSuffix(FuncPkgPath(f), "/"+pkg) {
			continue
		}
		for _, st := range fieldStoresIn(f, false, pkg+".commandPipeline", "admit") {
			sv, ok := st.(*ssa.Store)
			if !ok {
				continue
			}
			var target *ssa.Function
			switch x := sv.Val.(type) {
			case *ssa.MakeClosure:
				target, _ = x.Fn.(*ssa.Function)
			case *ssa.Function:
				target = x
			}
			if target == nil {
				continue
			}
			reach := c.P.Reach([]*ssa.Function{target}, nil)
			e, k := false, false
			for g := range reach {
				switch FuncName(g) {
				case pkg + ".validateRegionEpoch":
					e = true
				case pkg + ".validateRequestKeys":
					k = true
				}
			}
			if e && k {
				wired = true
				c.Touch(target)
			}
		}
	}
	c.Decide(wired, rule, pkg+".commandPipeline.admit#wired-to-epoch+key-validation", token.NoPos, 2, "the store wires the apply-time admission to validateRegionEpoch and validateRequestKeys", "no store function wires commandPipeline.admit to a function that reaches validateRegionEpoch and validateRequestKeys: committed commands execute without an apply-time region check")
	// log order in the Ready handler
	if fn := c.Fn("raftstore/peer", "Peer.handleReady"); fn != nil {
		isApplyCall := func(f *ssa.Function) bool {
			found := false
			AllInstrs(f, false, func(in ssa.Instruction) {
				if call, ok := in.(*ssa.Call); ok && !call.Call.IsInvoke() && isFieldLoad(call.Call.Value, "raftstore/peer.Peer", "apply") {
					found = true
				}
			})
			return found
		}
		var flushes, admins, appends []ssa.Instruction
		AllInstrs(fn, false, func(in ssa.Instruction) {
			call, ok := in.(*ssa.Call)
			if !ok {
				return
			}
			if !call.Call.IsInvoke() && isFieldLoad(call.Call.Value, "raftstore/peer.Peer", "apply") {
				flushes = append(flushes, in)
				return
			}
			if mc, ok := call.Call.Value.(*ssa.MakeClosure); ok {
				if f, ok := mc.Fn.(*ssa.Function); ok && isApplyCall(f) {
					flushes = append(flushes, in)
					return
				}
			}
			if f := StaticFn(call.Common()); f != nil {
				switch FuncName(f) {
				case "(*raftstore/peer.Peer).applyAdminCommand", "(*raftstore/peer.Peer).handleConfChange":
					admins = append(admins, in)
				}
				if f.Blocks != nil && FuncPkgPath(f) == FuncPkgPath(fn) && isApplyCall(f) {
					flushes = append(flushes, in)
				}
			}
			if bi, ok := call.Call.Value.(*ssa.Builtin); ok && bi.Name() == "append" && strings.Contains(call.Type().String(), "Entry") {
				appends = append(appends, in)
			}
		})
		// appends made inside the flushing closure's parent only; appends may also live in closures
		c.Decide(len(admins) >= 1 && len(flushes) >= 1, rule, key(fn, "has:admin+apply-sites"), fn.Pos(), len(admins)+len(flushes)+1, "admin/conf-change sites and the apply call found", "cannot find the admin apply sites and the normal apply call in handleReady")
		for i, ad := range admins {
			bad := false
			n := 0
			for _, ap := range appends {
				r, m := CutReach(fn, ap, ad, flushes, nil)
				n += m
				if r {
					bad = true
				}
			}
			c.Decide(!bad, rule, key(fn, fmt.Sprintf("admin-apply[%d]<-pending-normal-entries-applied", i+1)), ad.Pos(), n+1, "entries logged before an admin / conf-change entry are executed before it",
				"an admin or configuration-change entry is applied while normal entries that precede it in the log are still waiting in the batch: a command logged before a split executes after it (replicas whose Ready batches differ disagree)")
		}
	}
}

// scanConfinement (C25): scan results handed to a client never contain another region's keys.
// Every region of a store shares one DB and kv.Apply's scan has no end bound, so confinement
// rests on three structural facts: (a) both entry points that return applier output
// (ReadCommand, ProposeCommand) pass it through trimScanResponse; (b) trimScanResponse pairs a
// request with its response by counting the non-nil requests – kv.Apply emits no response for a
// nil request, so the request's own index is the wrong one; (c) a scan whose empty start key
// means `from the first key` is refused by a region that has a lower bound.
func scanConfinement(c *Ctx, rule string) {
	c.Rule(rule, "Store.ProposeCommand and Store.ReadCommand return applier output only after trimScanResponse; trimScanResponse does not index resp.Responses with the range index of the request loop (nil requests have no response); validateRequestKeys refuses, in its CMD_SCAN case, an empty start key when the region has a StartKey")
	const pkg = "raftstore/store"
	trimM := Named(pkg + ".trimScanResponse")
	if fn := c.Fn(pkg, "Store.ProposeCommand"); fn != nil {
		tr := Calls(fn, false, trimM)
		n := 0
		for i, r := range Returns(fn) {
			v := RetVal(r, 0)
			// the applier's output: a field of the value received from the proposal channel
			if IsNilConst(v) || !fromProposalResult(v, 5) {
				continue
			}
			n++
			reach, m := CutReach(fn, nil, r, instrs(tr), nil)
			c.Decide(!reach && len(tr) > 0, rule, key(fn, fmt.Sprintf("data-return[%d]<-trimScanResponse", i+1)), r.Pos(), m+1, "output of a command that went through the log is trimmed to the region", "ProposeCommand returns applier output without trimming scans to the region's range: a CMD_SCAN proposed through the log returns keys of neighbouring regions")
		}
		c.Decide(n >= 1, rule, key(fn, "has:data-return"), fn.Pos(), n+1, "the return of the proposal's response found", "cannot find the return that hands back the proposal's response in ProposeCommand")
	}
	if fn := c.Fn(pkg, "trimScanResponse"); fn != nil {
		bad, n := false, 0
		AllInstrs(fn, false, func(in ssa.Instruction) {
			ia, ok := in.(*ssa.IndexAddr)
			if !ok {
				return
			}
			if _, f, ok := FieldOf(Unwrap(ia.X)); !ok || f != "Responses" {
				return
			}
			n++
			if isRangeIndex(ia.Index, 3) {
				bad = true
			}
		})
		c.Decide(n >= 1 && !bad, rule, key(fn, "response-index≠request-index"), fn.Pos(), n+1, "responses are paired with the non-nil requests", "trimScanResponse takes the response of request i from Responses[i]: kv.Apply emits no response for a nil request, so after a nil request the scan's response is not trimmed (or the wrong one is)")
	}
	if fn := c.Fn(pkg, "validateRequestKeys"); fn != nil {
		scanConst := int64(-1)
		for n, v := range enumConsts(c, "pb", "CmdType") {
			if n == "CmdType_CMD_SCAN" {
				scanConst = v
			}
		}
		ok := false
		for _, b := range fn.Blocks {
			ifi := ifOf(b)
			if ifi == nil {
				continue
			}
			bo, isBo := ifi.Cond.(*ssa.BinOp)
			if !isBo || bo.Op != token.EQL {
				continue
			}
			if k, isK := ConstInt(bo.Y); !isK || k != scanConst || TypeName(bo.X.Type()) != "pb.CmdType" {
				continue
			}
			// inside the scan case: a test that reads len(meta.StartKey) with a rejecting edge
			for _, d := range fn.Blocks {
				if !EdgeDominates(b, b.Succs[0], d) && d != b.Succs[0] {
					continue
				}
				di := ifOf(d)
				if di == nil || !mentionsLenOfField(di.Cond, "manifest.RegionMeta", "StartKey", 4) {
					continue
				}
				if returnsNonNilPtr(d.Succs[0]) || returnsNonNilPtr(d.Succs[1]) {
					ok = true
				}
			}
		}
		c.Decide(ok, rule, key(fn, "scan:empty-start-on-bounded-region→reject"), fn.Pos(), 2, "an unbounded scan start is accepted only by the region without a lower bound", "validateRequestKeys accepts a scan with an empty start key on a region that has a StartKey: the scan starts in another region's keys, spends its limit there, and the region answers with nothing although it owns matching keys")
	}
}

// fromProposalResult: v is (a field of) the value received from a proposal's result channel.
func fromProposalResult(v ssa.Value, depth int) bool {
	if depth <= 0 || v == nil {
		return false
	}
	switch x := v.(type) {
	case *ssa.Field:
		return fromProposalResult(x.X, depth-1)
	case *ssa.UnOp:
		if x.Op == token.ARROW {
			return true
		}
		return fromProposalResult(x.X, depth-1)
	case *ssa.FieldAddr:
		return fromProposalResult(x.X, depth-1)
	case *ssa.Extract:
		if _, ok := x.Tuple.(*ssa.Select); ok {
			return true
		}
		return fromProposalResult(x.Tuple, depth-1)
	case *ssa.Alloc:
		if x.Referrers() != nil {
			for _, r := range *x.Referrers() {
				if st, ok := r.(*ssa.Store); ok && st.Addr == x && fromProposalResult(st.Val, depth-1) {
					return true
				}
			}
		}
	case *ssa.Phi:
		for _, e := range x.Edges {
			if fromProposalResult(e, depth-1) {
				return true
			}
		}
	}
	return false
}

// isRangeIndex: v is the index variable of a range loop (phi commented rangeindex, or its +1).
func isRangeIndex(v ssa.Value, depth int) bool {
	if depth <= 0 {
		return false
	}
	switch x := v.(type) {
	case *ssa.Phi:
		return x.Comment == "rangeindex"
	case *ssa.BinOp:
		return isRangeIndex(x.X, depth-1)
	case *ssa.Convert:
		return isRangeIndex(x.X, depth-1)
	}
	return false
}

// mentionsLenOfField: cond is computed from len(owner.field).
func mentionsLenOfField(v ssa.Value, owner, field string, depth int) bool {
	if depth <= 0 || v == nil {
		return false
	}
	switch x := v.(type) {
	case *ssa.BinOp:
		return mentionsLenOfField(x.X, owner, field, depth-1) || mentionsLenOfField(x.Y, owner, field, depth-1)
	case *ssa.UnOp:
		return mentionsLenOfField(x.X, owner, field, depth-1)
	case *ssa.Call:
		if bi, ok := x.Call.Value.(*ssa.Builtin); ok && bi.Name() == "len" && len(x.Call.Args) == 1 {
			return isFieldLoad(x.Call.Args[0], owner, field)
		}
	}
	return false
}

// sortedCutAtEnd: fn replaces ScanResponse.Kvs by Kvs[:cut] where cut is the result of a binary
// search (sort.Search, slices.BinarySearchFunc) whose predicate answers exactly `key >= EndKey`
// (order-sign evaluation over the three orderings), and stores nothing else into Kvs.
func sortedCutAtEnd(fn *ssa.Function) bool {
	stores := fieldStoresIn(fn, false, "pb.ScanResponse", "Kvs")
	if len(stores) == 0 {
		return false
	}
	for _, st := range stores {
		sv, ok := st.(*ssa.Store)
		if !ok {
			return false
		}
		sl, ok := Unwrap(sv.Val).(*ssa.Slice)
		if !ok || sl.High == nil || sl.Low != nil && !isZeroConst(sl.Low) || !isFieldLoad(Unwrap(sl.X), "pb.ScanResponse", "Kvs") {
			return false
		}
		var call *ssa.Call
		switch h := Unwrap(sl.High).(type) {
		case *ssa.Call:
			call = h
		case *ssa.Extract:
			call, _ = h.Tuple.(*ssa.Call)
		}
		if call == nil || !Named("sort.Search", "slices.BinarySearchFunc")(call.Common()) {
			return false
		}
		var pred *ssa.Function
		for _, a := range call.Call.Args {
			if mc, ok := a.(*ssa.MakeClosure); ok {
				pred, _ = mc.Fn.(*ssa.Function)
			}
		}
		if pred == nil {
			return false
		}
		role := func(v ssa.Value) string {
			v = Unwrap(v)
			if c, ok := v.(*ssa.Call); ok && Named("(*pb.KV).GetKey")(c.Common()) {
				return "key"
			}
			if isFieldLoad(v, "pb.KV", "Key") {
				return "key"
			}
			if isFieldLoad(v, "manifest.RegionMeta", "EndKey") {
				return "end"
			}
			return ""
		}
		for _, sg := range []int{-1, 0, 1} {
			signs := map[string]int{}
			SetSign(signs, "key", "end", sg)
			got := (&SignEnv{Role: role, Signs: signs, Depth: 1}).ReturnValue(pred, 0)
			if sg < 0 && got != False || sg >= 0 && got != True {
				return false
			}
		}
	}
	return true
}
