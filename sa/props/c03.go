package props

import (
	"fmt"
	"go/token"

	"golang.org/x/tools/go/ssa"

	. "nokvsa/core"
)

func init() {
	register("C03", C03)
	register("C04", C04)
	register("C05", C05)
	register("C34", C34)
}

const oracleLock = "NoKV.oracle.Mutex"

var (
	mHasConflict = Named("NoKV.(*oracle).hasConflict")
	mTsAdd       = Named("(*sync/atomic.Uint64).Add")
	mMarkBegin   = Named("utils.(*WaterMark).Begin")
	mMarkDone    = Named("utils.(*WaterMark).Done")
)

// oracleCritical decides the critical-section facts of (*oracle).newCommitTs shared by C03/C04/C05.
func oracleCritical(c *Ctx, rule string, want []string) {
	fn := c.Fn("", "oracle.newCommitTs")
	if fn == nil {
		return
	}
	ls := ComputeLockSets(fn)
	has := func(s string) bool {
		for _, w := range want {
			if w == s {
				return true
			}
		}
		return false
	}
	conf := need(c, rule, fn, false, "hasConflict", mHasConflict, 1)
	adds := need(c, rule, fn, false, "nextTxnTs.Add", mTsAdd, 1)
	begins := need(c, rule, fn, false, "txnMark.Begin", mMarkBegin, 1)
	if has("conflict") {
		underLock(c, rule, fn, ls, "hasConflict", instrs(conf), oracleLock, false)
		// the allocation lies behind the false edge of hasConflict
		for i, a := range adds {
			k := key(fn, fmt.Sprintf("nextTxnTs.Add[%d]<-!hasConflict", i+1))
			if ok, _ := guardedByCall(fn, a.(ssa.Instruction), mHasConflict, false); ok {
				c.Pass(rule, k, a.Pos(), 2, "timestamp allocation is dominated by the false edge of hasConflict")
			} else {
				c.Fail(rule, k, a.Pos(), 2, "timestamp allocation is not dominated by the no-conflict edge of hasConflict")
			}
		}
		// history append and intent table update under the lock, after the allocation
		// the writes themselves, or the call of a same-package helper that performs them
		writeSites := func(field string) []ssa.Instruction {
			if direct := fieldStoresIn(fn, false, "NoKV.oracle", field); len(direct) > 0 {
				return direct
			}
			var out []ssa.Instruction
			for _, ci := range Calls(fn, false, func(cc *ssa.CallCommon) bool { return true }) {
				h := StaticFn(ci.Common())
				if h == nil || h.Blocks == nil || h == fn || FuncPkgPath(h) != FuncPkgPath(fn) {
					continue
				}
				if len(fieldStoresIn(h, false, "NoKV.oracle", field)) == 0 {
					continue
				}
				// a helper that records the commit receives the allocated timestamp; one
				// that only prunes the history (cleanupCommittedTransactions) does not
				recordsTs := false
				for _, a := range ci.Common().Args {
					if derivedFrom(a, valuesOf(adds), 4) {
						recordsTs = true
					}
				}
				if recordsTs {
					c.Touch(h)
					out = append(out, ci.(ssa.Instruction))
				}
			}
			return out
		}
		hist := writeSites("committedTxns")
		intent := writeSites("intentTable")
		if len(hist) < 1 {
			c.Fail(rule, key(fn, "has:committedTxns-append"), fn.Pos(), 1, "no append to oracle.committedTxns found in newCommitTs")
		}
		if len(intent) < 1 {
			c.Fail(rule, key(fn, "has:intentTable-update"), fn.Pos(), 1, "no update of oracle.intentTable found in newCommitTs")
		}
		underLock(c, rule, fn, ls, "committedTxns append", hist, oracleLock, false)
		underLock(c, rule, fn, ls, "intentTable update", intent, oracleLock, false)
		for i, h := range append(append([]ssa.Instruction{}, hist...), intent...) {
			k := key(fn, fmt.Sprintf("history-write[%d]<-nextTxnTs.Add", i+1))
			ok, n := MustPrecede(fn, h, instrs(adds))
			c.Decide(ok, rule, k, h.Pos(), n, "conflict history is written after the timestamp allocation", "conflict history written on a path that has not allocated the commit timestamp")
		}
		// the history append is taken on the detectConflicts==true edge only; it must not
		// be skippable when detectConflicts is true: the stores are dominated by that edge
		// and nothing else
		for i, h := range hist {
			k := key(fn, fmt.Sprintf("committedTxns-append[%d]#only-detectConflicts-guard", i+1))
			de := boolFieldEdges(fn, "NoKV.oracle", "detectConflicts", true)
			okEdge := false
			for e := range de {
				if EdgeDominates(e[0], e[1], h.Block()) {
					okEdge = true
				}
			}
			// reachable when every detectConflicts==true edge is kept and all other
			// conditional exits avoided?  Decide: from the Add, the append is reachable
			// crossing only detectConflicts edges (no other If on the way).
			extra := otherIfsBetween(fn, adds, h, "NoKV.oracle", "detectConflicts")
			if ci, isCall := h.(ssa.CallInstruction); isCall && !okEdge {
				// the guard may live in the helper that performs the append
				if hf := StaticFn(ci.Common()); hf != nil && hf.Blocks != nil {
					he := boolFieldEdges(hf, "NoKV.oracle", "detectConflicts", true)
					stores := fieldStoresIn(hf, false, "NoKV.oracle", "committedTxns")
					okEdge = len(stores) > 0
					for _, st := range stores {
						dom := false
						for e := range he {
							if EdgeDominates(e[0], e[1], st.Block()) {
								dom = true
							}
						}
						okEdge = okEdge && dom
						extra += otherIfsBetween(hf, nil, st, "NoKV.oracle", "detectConflicts")
					}
				}
			}
			c.Decide(okEdge && extra == 0, rule, k, h.Pos(), 2+extra,
				"append is guarded only by oracle.detectConflicts", fmt.Sprintf("append to the conflict history is guarded by %d additional condition(s) (or not by detectConflicts)", extra))
		}
	}
	if has("alloc") {
		underLock(c, rule, fn, ls, "nextTxnTs.Add", instrs(adds), oracleLock, false)
		if len(adds) > 1 {
			c.Fail(rule, key(fn, "single:nextTxnTs.Add"), fn.Pos(), len(adds), "%d timestamp allocations in one commit", len(adds))
		} else if len(adds) == 1 {
			// Add(1): strictly increasing by construction
			a := adds[0]
			delta, ok := ConstInt(a.Common().Args[len(a.Common().Args)-1])
			c.Decide(ok && delta == 1, rule, key(fn, "nextTxnTs.Add#delta"), a.Pos(), 1, "commit timestamp = atomic Add(1)-1", "timestamp allocation does not add the constant 1")
		}
	}
	if has("begin") {
		underLock(c, rule, fn, ls, "txnMark.Begin", instrs(begins), oracleLock, false)
		for i, b := range begins {
			k := key(fn, fmt.Sprintf("txnMark.Begin[%d]<-nextTxnTs.Add", i+1))
			ok, n := MustPrecede(fn, b.(ssa.Instruction), instrs(adds))
			c.Decide(ok, rule, k, b.Pos(), n, "Begin follows the allocation in the same critical section", "Begin can run before the allocation")
			// Begin's argument is the allocated timestamp
			k2 := key(fn, fmt.Sprintf("txnMark.Begin[%d]#arg=ts", i+1))
			arg := b.Common().Args[len(b.Common().Args)-1]
			c.Decide(derivedFrom(arg, valuesOf(adds), 4), rule, k2, b.Pos(), 1, "Begin(ts) receives the allocated timestamp", "Begin's argument is not derived from the allocated timestamp")
		}
		// every success return (no conflict) passes Begin
		for i, r := range Returns(fn) {
			if fn.Recover != nil && r.Block() == fn.Recover {
				continue
			}
			if ok, _ := guardedByCall(fn, r, mHasConflict, true); ok {
				continue
			}
			k := key(fn, fmt.Sprintf("return[%d]<-txnMark.Begin", i+1))
			ok, n := MustPrecede(fn, r, instrs(begins))
			c.Decide(ok, rule, k, r.Pos(), n, "non-conflict return passes txnMark.Begin", "a non-conflict return is reachable without txnMark.Begin (the commit ts would be invisible to WaitForMark)")
		}
	}
	// no unlock between: lock is released only by the deferred Unlock
	unl := 0
	AllInstrs(fn, false, func(in ssa.Instruction) {
		if op := LockOpOf(in); op != nil && op.Op == "Unlock" && !op.Defer {
			unl++
		}
	})
	c.Decide(unl == 0, rule, key(fn, "no-inline-unlock"), fn.Pos(), 1, "the oracle lock is released only by the deferred Unlock", "newCommitTs releases the oracle lock in the middle of the critical section")
}

func valuesOf(cs []ssa.CallInstruction) map[ssa.Value]bool {
	m := map[ssa.Value]bool{}
	for _, c := range cs {
		if v := c.Value(); v != nil {
			m[v] = true
		}
	}
	return m
}

// derivedFrom: v is computed from one of srcs through arithmetic/conversion/phi.
func derivedFrom(v ssa.Value, srcs map[ssa.Value]bool, depth int) bool {
	if srcs[v] {
		return true
	}
	if depth <= 0 {
		return false
	}
	switch x := v.(type) {
	case *ssa.BinOp:
		return derivedFrom(x.X, srcs, depth-1) || derivedFrom(x.Y, srcs, depth-1)
	case *ssa.Convert:
		return derivedFrom(x.X, srcs, depth-1)
	case *ssa.ChangeType:
		return derivedFrom(x.X, srcs, depth-1)
	case *ssa.Phi:
		for _, e := range x.Edges {
			if derivedFrom(e, srcs, depth-1) {
				return true
			}
		}
	case *ssa.Extract:
		return derivedFrom(x.Tuple, srcs, depth-1)
	case *ssa.UnOp:
		return derivedFrom(x.X, srcs, depth-1)
	case *ssa.FieldAddr:
		return derivedFrom(x.X, srcs, depth-1)
	case *ssa.Field:
		return derivedFrom(x.X, srcs, depth-1)
	case *ssa.Alloc:
		// a local struct filled from the source
		if x.Referrers() != nil {
			for _, r := range *x.Referrers() {
				if st, ok := r.(*ssa.Store); ok && st.Addr == x && derivedFrom(st.Val, srcs, depth-1) {
					return true
				}
			}
		}
	case *ssa.Call:
		// min/max builtins select one of their operands
		if bi, ok := x.Call.Value.(*ssa.Builtin); ok && (bi.Name() == "min" || bi.Name() == "max") {
			for _, a := range x.Call.Args {
				if derivedFrom(a, srcs, depth-1) {
					return true
				}
			}
		}
	}
	return false
}

// otherIfsBetween counts conditional branches other than tests of owner.field that
// strictly dominate `to` and are reachable after the `from` calls.
func otherIfsBetween(fn *ssa.Function, from []ssa.CallInstruction, to ssa.Instruction, owner, field string) int {
	n := 0
	for _, b := range fn.Blocks {
		ifi := ifOf(b)
		if ifi == nil || !b.Dominates(to.Block()) || b == to.Block() {
			continue
		}
		after := from == nil
		for _, f := range from {
			if Dominates(f.(ssa.Instruction), ifi) {
				after = true
			}
		}
		if !after {
			continue
		}
		v := ifi.Cond
		if u, ok := v.(*ssa.UnOp); ok && u.Op.String() == "!" {
			v = u.X
		}
		if isFieldLoad(v, owner, field) {
			continue
		}
		// does the branch decide reachability of `to`? (one successor does not reach it)
		r0 := blockReaches(b.Succs[0], to.Block())
		r1 := blockReaches(b.Succs[1], to.Block())
		if r0 != r1 {
			n++
		}
	}
	return n
}

func blockReaches(from, to *ssa.BasicBlock) bool {
	seen := map[*ssa.BasicBlock]bool{}
	work := []*ssa.BasicBlock{from}
	for len(work) > 0 {
		b := work[len(work)-1]
		work = work[:len(work)-1]
		if b == to {
			return true
		}
		if seen[b] {
			continue
		}
		seen[b] = true
		work = append(work, b.Succs...)
	}
	return false
}

func C03(c *Ctx) {
	c.Note("fingerprint collisions; pruning threshold correctness; snapshot reads themselves (C05/C06); serializability of whole histories")
	watermarkHoldGroup(c, "K2.watermark-holds-at-doneUntil")
	failedWriteNoEffect(c, "K1.failed-write-has-no-effect")
	const r1 = "K4.oracle-critical-section"
	c.Rule(r1, "in oracle.newCommitTs the conflict check, the commit-timestamp allocation, the append to committedTxns and the intentTable update all execute under oracle.Mutex with no unlock in between; the allocation is dominated by the no-conflict edge; the history append is guarded by detectConflicts only")
	oracleCritical(c, r1, []string{"conflict"})

	const r2 = "K3.history-writers"
	c.Rule(r2, "oracle.committedTxns / intentTable / lastCleanupTs are written only by newCommitTs, cleanupCommittedTransactions, initCommitState and newOracle, and every such write executes with oracle.Mutex held (directly, or in a function whose every caller holds it)")
	allowed := map[string]string{
		"(*NoKV.oracle).newCommitTs":                  "commit critical section",
		"(*NoKV.oracle).cleanupCommittedTransactions": "called from newCommitTs under the lock",
		"(*NoKV.oracle).initCommitState":              "seeding at Open",
		"NoKV.newOracle":                              "constructor, before publication",
	}
	for _, f := range []string{"committedTxns", "intentTable", "lastCleanupTs"} {
		ws := onlyWriters(c, r2, "NoKV.oracle", f, allowed, 1)
		for _, w := range ws {
			root := Root(w.Fn)
			name := FuncName(root)
			if name == "NoKV.newOracle" {
				continue
			}
			ls := ComputeLockSets(w.Fn)
			k := FuncName(w.Fn) + "#write:" + f + "@lock"
			if ls.Holds(w.In, oracleLock, false) {
				c.Pass(r2, k, w.In.Pos(), 1, "write under oracle.Mutex")
				continue
			}
			// caller-holds summary (through up to three levels of helpers)
			okAll, n := heldAtEveryCall(c, w.Fn, oracleLock, 3)
			c.Decide(okAll && n > 0, r2, k, w.In.Pos(), n+1, "every caller holds oracle.Mutex at the call", "write to oracle."+f+" without oracle.Mutex (function and its callers do not all hold it)")
		}
	}
	// hasConflict / cleanupCommittedTransactions are "must hold" helpers
	for _, h := range []string{"oracle.hasConflict", "oracle.cleanupCommittedTransactions"} {
		hf := c.Fn("", h)
		if hf == nil {
			continue
		}
		n := 0
		for _, cs := range c.P.CallersOf(hf) {
			if cs.Site == nil {
				continue
			}
			n++
			cls := ComputeLockSets(cs.Caller)
			k := FuncName(cs.Caller) + "#calls:" + h + "@lock"
			c.Decide(cls.Holds(cs.Site.(ssa.Instruction), oracleLock, false), r2, k, cs.Site.Pos(), 1, "caller holds oracle.Mutex", h+" called without oracle.Mutex")
		}
		c.Floor(r2, n, 1, "callers of "+h)
	}

	const r3 = "K1.read-tracking"
	c.Rule(r3, "every storage lookup of an update transaction is preceded by addReadKey: Txn.Get (unless served from pendingWrites or txn.update is false), TxnIterator.advance on the emit path, TxnIterator.Seek for the sought key; addReadKey appends the fingerprint under readsLock; hasConflict compares every read fingerprint against every committed txn newer than readTs")
	if fn := c.Fn("", "Txn.Get"); fn != nil {
		beforeSkip(c, r3, fn, "addReadKey", Named("NoKV.(*Txn).addReadKey"), "loadBorrowedEntry", Named("NoKV.(*DB).loadBorrowedEntry"), 1,
			boolFieldEdges(fn, "NoKV.Txn", "update", false))
	}
	if fn := c.Fn("", "TxnIterator.advance"); fn != nil {
		// emit path: store it.valid = true
		valid := []ssa.Instruction{}
		for _, in := range fieldStoresIn(fn, false, "NoKV.TxnIterator", "valid") {
			if st, ok := in.(*ssa.Store); ok {
				if cst, ok := st.Val.(*ssa.Const); ok && cst.Value != nil && cst.Value.String() == "true" {
					valid = append(valid, in)
				}
			}
		}
		if len(valid) == 0 {
			c.Fail(r3, key(fn, "has:valid=true"), fn.Pos(), 1, "no emit site (it.valid = true) found")
		}
		ark := Calls(fn, false, Named("NoKV.(*Txn).addReadKey"))
		for i, v := range valid {
			// every path from the emit store to a return passes addReadKey unless it.txn == nil
			k := key(fn, fmt.Sprintf("emit[%d]->addReadKey", i+1))
			bad, n := false, 0
			for _, r := range Returns(fn) {
				reach, m := CutReach(fn, v, r, instrs(ark), map[[2]*ssa.BasicBlock]bool(nilFieldEdges(fn, "NoKV.TxnIterator", "txn")))
				n += m
				if reach {
					bad = true
				}
			}
			c.Decide(!bad, r3, k, v.Pos(), n, "the emitted key is recorded as read before advance returns", "advance can emit a key without recording it in the transaction's read set")
		}
	}
	if fn := c.Fn("", "TxnIterator.Seek"); fn != nil {
		need(c, r3, fn, false, "addReadKey", Named("NoKV.(*Txn).addReadKey"), 1)
	}
	if fn := c.Fn("", "Txn.addReadKey"); fn != nil {
		ls := ComputeLockSets(fn)
		st := fieldStoresIn(fn, false, "NoKV.Txn", "reads")
		if len(st) == 0 {
			c.Fail(r3, key(fn, "has:reads-append"), fn.Pos(), 1, "addReadKey does not append to txn.reads")
		}
		underLock(c, r3, fn, ls, "reads append", st, "NoKV.Txn.readsLock", false)
	}

	const r4 = "K3.commit-entry-points"
	c.Rule(r4, "newCommitTs is called only from Txn.commitAndSend, which is called only from Txn.Commit and Txn.CommitWith")
	onlyCallers(c, r4, c.Fn("", "oracle.newCommitTs"), map[string]string{"(*NoKV.Txn).commitAndSend": "single commit path"}, 1)
	onlyCallers(c, r4, c.Fn("", "Txn.commitAndSend"), map[string]string{"(*NoKV.Txn).Commit": "sync commit", "(*NoKV.Txn).CommitWith": "async commit"}, 2)

	conflictTestShapeGroup(c, "K2.conflict-test-shape")
}

// conflictTestShapeGroup: the oracle's conflict test, history pruning and write-fingerprint
// recording (shared by C03 and C30: the embedded Redis gateway's INCR / SET NX rely on it).
func conflictTestShapeGroup(c *Ctx, r5 string) {
	c.Rule(r5, "oracle.hasConflict: a committed transaction is skipped only when ts <= readTs (strictly-newer commits are compared); a membership hit returns true; Txn.modify records the write fingerprint when DetectConflicts is on")
	if fn := c.Fn("", "oracle.hasConflict"); fn != nil {
		conflictShape(c, r5, fn)
	}
	if fn := c.Fn("", "oracle.cleanupCommittedTransactions"); fn != nil {
		// an intent entry is removed only when it still belongs to the pruned transaction
		n := 0
		AllInstrs(fn, false, func(in ssa.Instruction) {
			call, ok := in.(*ssa.Call)
			if !ok {
				return
			}
			bi, ok := call.Call.Value.(*ssa.Builtin)
			if !ok || bi.Name() != "delete" {
				return
			}
			if o, f, ok := FieldOf(call.Call.Args[0]); !ok || o != "NoKV.oracle" || f != "intentTable" {
				return
			}
			n++
			guarded := false
			for _, b := range fn.Blocks {
				if ifi := ifOf(b); ifi != nil {
					if bo, ok := ifi.Cond.(*ssa.BinOp); ok && bo.Op == token.EQL && fieldNameOf(bo.Y) == "ts" && EdgeDominates(b, b.Succs[0], call.Block()) {
						guarded = true
					}
				}
			}
			c.Decide(guarded, r5, key(fn, fmt.Sprintf("intentTable-delete[%d]<-ts==txn.ts", n)), in.Pos(), 2, "an intent entry is dropped only if it still carries the pruned transaction's ts", "pruning an old committed transaction deletes the intent entry of its keys unconditionally: a newer commit's intent on the same key is erased and a later reader of that key is not detected")
		})
		// pruning threshold, by order-sign evaluation: a committed transaction with ts > readMark.DoneUntil()
		// (some open reader's snapshot may be older than it) is kept — the append to the kept slice stays
		// reachable and no intent entry is deleted for it
		isDone := func(v ssa.Value) bool {
			call, ok := Unwrap(v).(*ssa.Call)
			return ok && Named("utils.(*WaterMark).DoneUntil")(call.Common())
		}
		isCts := func(v ssa.Value) bool {
			v = Unwrap(v)
			switch x := v.(type) {
			case *ssa.Field:
				o, f, _ := FieldOf(x)
				return o == "NoKV.committedTxn" && f == "ts"
			case *ssa.UnOp:
				if o, f, ok := FieldOf(x.X); ok {
					return o == "NoKV.committedTxn" && f == "ts"
				}
			}
			return false
		}
		env := &SignEnv{Depth: 2, Signs: map[string]int{"cts:max": 1, "lookup:cts": 0}, Role: func(v ssa.Value) string {
			switch {
			case isDone(v):
				return "max"
			case isCts(v):
				return "cts"
			}
			return ""
		}}
		thr := true
		var keep []ssa.Instruction
		AllInstrs(fn, false, func(in ssa.Instruction) {
			if call, ok := in.(*ssa.Call); ok {
				if bi, ok := call.Call.Value.(*ssa.Builtin); ok {
					if bi.Name() == "append" {
						keep = append(keep, in)
					}
					if bi.Name() == "delete" && env.Reaches(fn, in) {
						// the delete may still be reachable for OTHER transactions in the loop; only the
						// straight path from the threshold test matters, checked through keep below
						_ = in
					}
				}
			}
		})
		keptReach := false
		for _, k := range keep {
			if env.Reaches(fn, k) {
				keptReach = true
			}
		}
		thr = keptReach && pruneOnlyAtOrBelow(fn, isCts, isDone)
		c.Decide(thr, r5, key(fn, "prune:ts<=readMark.DoneUntil"), fn.Pos(), 1, "only transactions at or below the oldest active read timestamp are pruned", "the history pruning threshold is no longer `ts <= readMark.DoneUntil()`")
	}
	// the read watermark of a transaction is released exactly once: history pruning trusts
	// readMark.DoneUntil() to be below every open transaction's read timestamp
	nDone := 0
	for _, f := range c.P.ModFuncs {
		if FuncPkgPath(f) != Module {
			continue
		}
		for _, d := range Calls(f, false, Named("utils.(*WaterMark).Done", "utils.(*WaterMark).DoneMany")) {
			if o, fld, ok := FieldOf(d.Common().Args[0]); !ok || o != "NoKV.oracle" || fld != "readMark" {
				continue
			}
			nDone++
			inDoneRead := FuncName(Root(f)) == "(*NoKV.oracle).doneRead"
			c.Decide(inDoneRead, r5, "NoKV.oracle.readMark#Done-caller:"+FuncName(f), d.Pos(), 1, "the read mark is released only by oracle.doneRead (once-only flag)", "readMark.Done is called outside oracle.doneRead, bypassing the once-only flag: Discard releases the same read timestamp again, readMark.DoneUntil() overtakes a transaction that is still open at that timestamp and the conflict history it needs is pruned")
			if inDoneRead {
				flagEdge := false
				for e := range boolFieldEdges(f, "NoKV.Txn", "doneRead", false) {
					if EdgeDominates(e[0], e[1], d.Block()) {
						flagEdge = true
					}
				}
				set := false
				for _, st := range fieldStoresIn(f, false, "NoKV.Txn", "doneRead") {
					if sv, ok := st.(*ssa.Store); ok {
						if k, ok := sv.Val.(*ssa.Const); ok && k.Value != nil && k.Value.String() == "true" && (Dominates(st, d.(ssa.Instruction)) || st.Block() == d.Block()) {
							set = true
						}
					}
				}
				c.Decide(flagEdge && set, r5, key(f, "readMark.Done#once-only"), d.Pos(), 2, "released only when txn.doneRead was false, and the flag is set", "oracle.doneRead no longer tests and sets txn.doneRead around readMark.Done")
			}
		}
	}
	c.Decide(nDone >= 1, r5, "NoKV.oracle.readMark#has:Done", 0, 1, "read mark release site found", "no readMark.Done site found")
	if fn := c.Fn("", "Txn.modify"); fn != nil {
		ck := fieldStoresIn(fn, false, "NoKV.Txn", "conflictKeys")
		pw := fieldStoresIn(fn, false, "NoKV.Txn", "pendingWrites")
		c.Decide(len(ck) >= 1, r5, key(fn, "has:conflictKeys-insert"), fn.Pos(), 1, "write fingerprint recorded", "Txn.modify does not record the write fingerprint in conflictKeys")
		for i, p := range pw {
			// on the DetectConflicts==true path the conflictKeys insert precedes pendingWrites insert
			reach, n := CutReach(fn, nil, p, ck, map[[2]*ssa.BasicBlock]bool(boolFieldEdges(fn, "NoKV.Options", "DetectConflicts", false)))
			c.Decide(!reach, r5, key(fn, fmt.Sprintf("pendingWrites-insert[%d]<-conflictKeys|!DetectConflicts", i+1)), p.Pos(), n,
				"every buffered write has its fingerprint recorded when conflict detection is on", "a write can be buffered without its conflict fingerprint while DetectConflicts is on")
		}
	}
}

// beforeSkip is `before` with satisfying skip edges.
func beforeSkip(c *Ctx, rule string, fn *ssa.Function, aDesc string, A Matcher, bDesc string, B Matcher, minB int, skip edgeSet) {
	as := Calls(fn, false, A)
	bs := need(c, rule, fn, false, bDesc, B, minB)
	for i, b := range bs {
		k := key(fn, fmt.Sprintf("%s<-%s[%d]", bDesc, aDesc, i+1))
		reach, n := CutReach(fn, nil, b.(ssa.Instruction), instrs(as), map[[2]*ssa.BasicBlock]bool(skip))
		c.Decide(!reach, rule, k, b.Pos(), n, bDesc+" is preceded by "+aDesc+" on every path", "a path reaches "+bDesc+" without "+aDesc)
	}
}

// conflictShape checks the comparison operators in hasConflict.
func conflictShape(c *Ctx, rule string, fn *ssa.Function) {
	// 1. decided by order-sign evaluation over (committed ts, read ts): a committed transaction that is
	// strictly newer than the reader's snapshot is compared (the membership lookup is reachable), and the
	// intent-table fast path answers `conflict` only for a strictly newer commit.  The polarity and
	// shape of the branches do not matter.
	isCommittedTs := func(v ssa.Value) bool {
		v = Unwrap(v)
		switch x := v.(type) {
		case *ssa.Field:
			o, f, _ := FieldOf(x)
			return o == "NoKV.committedTxn" && f == "ts"
		case *ssa.UnOp:
			if o, f, ok := FieldOf(x.X); ok {
				return o == "NoKV.committedTxn" && f == "ts"
			}
		}
		return false
	}
	isReadTs := func(v ssa.Value) bool { return isFieldLoad(v, "NoKV.Txn", "readTs") }
	isIntentTs := func(v ssa.Value) bool {
		ex, ok := Unwrap(v).(*ssa.Extract)
		if !ok || ex.Index != 0 {
			return false
		}
		lk, ok := ex.Tuple.(*ssa.Lookup)
		if !ok {
			return false
		}
		o, f, ok2 := FieldOf(lk.X)
		return ok2 && o == "NoKV.oracle" && f == "intentTable"
	}
	var memb []ssa.Instruction
	AllInstrs(fn, false, func(in ssa.Instruction) {
		if l, ok := in.(*ssa.Lookup); ok {
			if o, f, ok := FieldOf(l.X); ok && o == "NoKV.committedTxn" && f == "conflictKeys" {
				memb = append(memb, in)
			}
		}
	})
	role := func(v ssa.Value) string {
		switch {
		case isCommittedTs(v):
			return "cts"
		case isIntentTs(v):
			return "its"
		case isReadTs(v):
			return "rts"
		}
		return ""
	}
	foundSkip := 0
	for i, m := range memb {
		foundSkip++
		newer := (&SignEnv{Depth: 1, Role: role, Signs: map[string]int{"cts:rts": 1}}).Reaches(fn, m)
		c.Decide(newer, rule, key(fn, fmt.Sprintf("skip-test[%d]", i+1)), m.Pos(), 3, "a committed transaction strictly newer than the reader's snapshot is compared with its read set", "a committed transaction with ts > readTs is skipped by hasConflict: a write committed after the reader's snapshot is not detected")
	}
	// intent fast path: `return true` directly behind the intent comparison only for its > rts
	for _, b := range fn.Blocks {
		ifi := ifOf(b)
		if ifi == nil {
			continue
		}
		bo, ok := ifi.Cond.(*ssa.BinOp)
		if !ok || !((isIntentTs(bo.X) && isReadTs(bo.Y)) || (isIntentTs(bo.Y) && isReadTs(bo.X))) {
			continue
		}
		k := key(fn, "intent-test[1]")
		// under its <= rts the true-return right behind this test must be unreachable from it
		bad := false
		for _, sgn := range []int{-1, 0} {
			env := &SignEnv{Depth: 1, Role: role, Signs: map[string]int{"its:rts": sgn}}
			res := env.Eval(ifi.Cond, b, Hist{}, 1)
			var taken *ssa.BasicBlock
			switch res {
			case True:
				taken = b.Succs[0]
			case False:
				taken = b.Succs[1]
			}
			if taken == nil || returnsTrueDirectly(taken) {
				bad = true
			}
		}
		c.Decide(!bad, rule, k, ifi.Cond.Pos(), 2, "intent table hit requires ts > readTs", "the intent-table fast path reports a conflict for a commit that is not newer than the reader's snapshot (or the comparison could not be evaluated)")
	}
	if foundSkip == 0 {
		c.Undec(rule, key(fn, "skip-test"), fn.Pos(), 1, "could not find the membership lookup in committedTxn.conflictKeys")
	}
	// a `true` return exists and is reachable from a map lookup on conflictKeys
	trueRet := 0
	for _, r := range Returns(fn) {
		if cst, ok := RetVal(r, 0).(*ssa.Const); ok && cst.Value != nil && cst.Value.String() == "true" {
			trueRet++
		}
	}
	c.Decide(trueRet >= 1, rule, key(fn, "returns-true"), fn.Pos(), 1, "a conflict hit returns true", "hasConflict never returns true")
	// early exit only when reads is empty
	lookups := 0
	AllInstrs(fn, false, func(in ssa.Instruction) {
		if l, ok := in.(*ssa.Lookup); ok {
			if o, f, ok := FieldOf(l.X); ok && o == "NoKV.committedTxn" && f == "conflictKeys" {
				lookups++
			}
		}
	})
	c.Decide(lookups >= 1, rule, key(fn, "membership-lookup"), fn.Pos(), 1, "read fingerprints are looked up in committedTxn.conflictKeys", "no membership lookup in committedTxn.conflictKeys")
	// the intent table is only a fast path: a "no conflict" answer is given either for an
	// empty read set or after the committed-transaction history was scanned
	var hist []ssa.Instruction
	AllInstrs(fn, false, func(in ssa.Instruction) {
		if u, ok := in.(*ssa.UnOp); ok && u.Op == token.MUL {
			if o, f, ok := FieldOf(u.X); ok && o == "NoKV.oracle" && f == "committedTxns" {
				hist = append(hist, in)
			}
		}
	})
	skip := map[[2]*ssa.BasicBlock]bool{}
	for _, b := range fn.Blocks {
		if ifi := ifOf(b); ifi != nil {
			if bo, ok := ifi.Cond.(*ssa.BinOp); ok && bo.Op == token.EQL && isLenOfField(bo.X, "NoKV.Txn", "reads") {
				skip[[2]*ssa.BasicBlock{b, b.Succs[0]}] = true
			}
		}
	}
	nf := 0
	for i, r := range Returns(fn) {
		k, ok := RetVal(r, 0).(*ssa.Const)
		if !ok || k.Value == nil || k.Value.String() != "false" {
			continue
		}
		nf++
		reach, n := CutReach(fn, nil, r, hist, skip)
		c.Decide(!reach && len(hist) > 0, rule, key(fn, fmt.Sprintf("return-false[%d]<-history-scan|empty-reads", i+1)), r.Pos(), n, "`no conflict` is answered only for an empty read set or after scanning committedTxns", "hasConflict can answer `no conflict` without scanning the committed-transaction history (the intent table is pruned independently, so a miss there proves nothing)")
	}
	c.Decide(nf >= 1, rule, key(fn, "returns-false"), fn.Pos(), 1, "has a no-conflict exit", "hasConflict never returns false")
}

func C04(c *Ctx) {
	c.Note("that all writes become visible together for concurrent readers (C05); that a failed WAL append leaves no trace inside LSM.SetBatch; value equality")
	oracleSeedNoWrapGroup(c, "K5.oracle-seed-does-not-wrap")
	const r1 = "K4.single-increasing-version"
	c.Rule(r1, "the commit version is the result of exactly one atomic Add(1) on oracle.nextTxnTs executed under oracle.Mutex; nextTxnTs is otherwise only stored by newOracle/initCommitState")
	oracleCritical(c, r1, []string{"alloc"})
	// other mutators of nextTxnTs: Store/Swap/CompareAndSwap calls whose receiver is oracle.nextTxnTs
	allowed := map[string]bool{"NoKV.newOracle": true, "(*NoKV.oracle).initCommitState": true, "(*NoKV.oracle).newCommitTs": true}
	n := 0
	for _, f := range c.P.ModFuncs {
		for _, ci := range Calls(f, false, Named("(*sync/atomic.Uint64).Store", "(*sync/atomic.Uint64).Add", "(*sync/atomic.Uint64).Swap", "(*sync/atomic.Uint64).CompareAndSwap")) {
			if o, fl, ok := FieldOf(ci.Common().Args[0]); ok && o == "NoKV.oracle" && fl == "nextTxnTs" {
				n++
				name := FuncName(Root(f))
				c.Decide(allowed[name], r1, "NoKV.oracle.nextTxnTs#mutator:"+name, ci.Pos(), 1, "allowed mutator", "oracle.nextTxnTs is mutated in "+name)
			}
		}
	}
	c.Floor(r1, n, 3, "mutators of oracle.nextTxnTs")

	const r2 = "K1.one-request-one-version"
	c.Rule(r2, "Txn.commitAndSend: every pending write receives the commit version (range over pendingWrites calling the version setter), all entries go into a single sendToWriteCh call, and the internal key is built with the entry's version")
	if fn := c.Fn("", "Txn.commitAndSend"); fn != nil {
		sends := Calls(fn, true, Named("NoKV.(*DB).sendToWriteCh"))
		c.Decide(len(sends) == 1, r2, key(fn, "single:sendToWriteCh"), fn.Pos(), len(sends)+1, "exactly one sendToWriteCh call", fmt.Sprintf("%d sendToWriteCh calls (a transaction must be one write request)", len(sends)))
		// ranges over pendingWrites: at least two (set version, build entries); each loop body calls a closure / does the work for every element (no conditional skip)
		ranges := 0
		AllInstrs(fn, false, func(in ssa.Instruction) {
			if r, ok := in.(*ssa.Range); ok {
				if o, f, ok := FieldOf(r.X); ok && o == "NoKV.Txn" && f == "pendingWrites" {
					ranges++
				}
			}
		})
		c.Decide(ranges >= 1, r2, key(fn, "ranges:pendingWrites"), fn.Pos(), ranges+1, "pendingWrites is ranged for versioning and batching", "commitAndSend no longer ranges over all pendingWrites (version + batch)")
		// the version store: Entry.Version = commitTs somewhere in fn or closures, guarded only by Version==0
		vs := 0
		AllInstrs(fn, true, func(in ssa.Instruction) {
			if st, ok := in.(*ssa.Store); ok {
				if o, f, ok := FieldOf(st.Addr); ok && o == "kv.Entry" && f == "Version" {
					vs++
				}
			}
		})
		c.Decide(vs >= 1, r2, key(fn, "has:Version=commitTs"), fn.Pos(), 1, "entries receive the commit version", "no store to Entry.Version in commitAndSend")
		// InternalKey third arg is e.Version
		for i, ik := range Calls(fn, true, Named("kv.InternalKey")) {
			arg := ik.Common().Args[2]
			o, f, ok := FieldOf(arg)
			c.Decide(ok && o == "kv.Entry" && f == "Version", r2, key(fn, fmt.Sprintf("InternalKey[%d]#version-arg", i+1)), ik.Pos(), 1, "internal key carries the entry's version", "internal key is not built from Entry.Version")
		}
		// entries slice passed to sendToWriteCh is the one appended in the loop: append count >= 1
	}

	const r3 = "K1.reject-before-enqueue"
	c.Rule(r3, "DB.sendToWriteCh: the ErrTxnTooBig and ErrBlockedWrites rejections lie on every path to enqueueCommitRequest, and a failed enqueue returns the error; Txn.modify: checkSize()==nil precedes the insertion into pendingWrites")
	if fn := c.Fn("", "DB.sendToWriteCh"); fn != nil {
		enq := need(c, r3, fn, false, "enqueueCommitRequest", Named("NoKV.(*DB).enqueueCommitRequest"), 1)
		for _, e := range enq {
			sentinelGuards(c, r3, fn, "ErrTxnTooBig", e.(ssa.Instruction), "enqueueCommitRequest", 2)
			errPropagated(c, r3, key(fn, "enqueueCommitRequest#error-propagated"), fn, e)
		}
	}
	if fn := c.Fn("", "Txn.modify"); fn != nil {
		cs := Calls(fn, false, Named("NoKV.(*Txn).checkSize"))
		for i, p := range fieldStoresIn(fn, false, "NoKV.Txn", "pendingWrites") {
			succOK(c, r3, key(fn, fmt.Sprintf("pendingWrites-insert[%d]<-ok(checkSize)", i+1)), fn, cs, "checkSize", p, "pendingWrites insert")
		}
	}
	if fn := c.Fn("", "Txn.checkSize"); fn != nil {
		// the counters are updated only on the accept path
		for i, st := range append(fieldStoresIn(fn, false, "NoKV.Txn", "count"), fieldStoresIn(fn, false, "NoKV.Txn", "size")...) {
			sentinelGuards(c, r3, fn, "ErrTxnTooBig", st, fmt.Sprintf("counter-update[%d]", i+1), 1)
		}
	}

	const r4 = "K1.err-before-done"
	c.Rule(r4, "DB.finishCommitRequests stores request.Err before wg.Done on every path; commitWorker acknowledges a non-empty batch only after applyRequests ran, and a vlog.write failure is acknowledged with that error without applyRequests")
	if fn := c.Fn("", "DB.finishCommitRequests"); fn != nil {
		stores := fieldStoresIn(fn, false, "NoKV.request", "Err")
		dones := need(c, r4, fn, false, "wg.Done", Named("(*sync.WaitGroup).Done"), 1)
		for i, d := range dones {
			ok, n := MustPrecede(fn, d.(ssa.Instruction), stores)
			c.Decide(ok && len(stores) > 0, r4, key(fn, fmt.Sprintf("wg.Done[%d]<-Err-store", i+1)), d.Pos(), n, "Err is stored before the waiter is released", "wg.Done can run before request.Err is stored")
		}
	}
	ackAfterApply(c, r4)

	const r6 = "K2.window-rebuild-keeps-pending"
	watermarkWindowGroup(c, r6)
	const r7 = "K1.watermark-publish-order"
	c.Rule(r7, "WaterMark.Begin/BeginMany increment the pending counter of an index before publishing it as lastIndex")
	watermarkPublishOrder(c, r7)
	const r5 = "K13.commit-ts-done-once"
	c.Rule(r5, "after a successful newCommitTs every continuation of commitAndSend reaches doneCommit(commitTs): the sendToWriteCh error return calls it, and the returned callback calls it after request.Wait on every path")
	doneCommitPairing(c, r5)
}

// ackAfterApply: shared by C04/C34/C08.
func ackAfterApply(c *Ctx, rule string) {
	fn, sites := ackSites(c)
	if fn == nil {
		return
	}
	apply := Calls(fn, false, Named("NoKV.(*DB).applyRequests"))
	vw := Calls(fn, false, Named("NoKV.(*valueLog).write"))
	if len(apply) == 0 {
		c.Fail(rule, key(fn, "has:applyRequests"), fn.Pos(), 1, "commitWorker never calls applyRequests")
	}
	if len(vw) == 0 {
		c.Fail(rule, key(fn, "has:vlog.write"), fn.Pos(), 1, "commitWorker never calls valueLog.write")
	}
	for _, s := range sites {
		in := s.call.(ssa.Instruction)
		k := key(fn, fmt.Sprintf("ack[%d]<-applyRequests", s.ord))
		if IsNilConst(s.def) && IsNilConst(s.per) && lenZeroGuard(fn, in) {
			c.Pass(rule, k, in.Pos(), 1, "empty batch")
			continue
		}
		// error-only acknowledgement of a vlog.write failure
		if len(vw) > 0 {
			ev := ErrResult(vw[0])
			if ev != nil && FlowSet(ev)[s.def] {
				nonNil := false
				for _, ce := range NilEdges(fn, FlowSet(ev)) {
					if EdgeDominates(ce.NonNil[0], ce.NonNil[1], in.Block()) {
						nonNil = true
					}
				}
				reach, _ := CutReach(fn, vw[0].(ssa.Instruction), in, instrs(apply), nil)
				if nonNil && reach {
					c.Pass(rule, k, in.Pos(), 2, "acknowledges the value-log write error (non-nil edge), applyRequests not run")
					continue
				}
			}
		}
		ok, n := MustPrecede(fn, in, instrs(apply))
		c.Decide(ok, rule, k, in.Pos(), n, "acknowledgement follows applyRequests", "an acknowledgement that can carry nil is reachable without applyRequests")
	}
	// vlog.write success precedes applyRequests
	for i, a := range apply {
		succOK(c, rule, key(fn, fmt.Sprintf("applyRequests[%d]<-ok(vlog.write)", i+1)), fn, vw, "valueLog.write", a.(ssa.Instruction), "applyRequests")
	}
}

func doneCommitPairing(c *Ctx, rule string) {
	fn := c.Fn("", "Txn.commitAndSend")
	if fn == nil {
		return
	}
	dc := Named("NoKV.(*oracle).doneCommit")
	nct := Calls(fn, false, Named("NoKV.(*oracle).newCommitTs"))
	if len(nct) != 1 {
		c.Fail(rule, key(fn, "single:newCommitTs"), fn.Pos(), 1, "expected exactly one newCommitTs call, found %d", len(nct))
		return
	}
	dones := Calls(fn, false, dc)
	ei := ErrorResultIndex(fn)
	// the timestamp handed to doneCommit is the one newCommitTs returned (release what was acquired)
	var tsVal ssa.Value
	var tsSlot ssa.Value
	for _, ref := range *nct[0].Value().Referrers() {
		if ex, ok := ref.(*ssa.Extract); ok && ex.Index == 0 {
			tsVal = ex
			for _, r2 := range *ex.Referrers() {
				if st, ok := r2.(*ssa.Store); ok && st.Val == ex {
					tsSlot = st.Addr
				}
			}
		}
	}
	isTs := func(f *ssa.Function, v ssa.Value) bool {
		if v == tsVal && tsVal != nil {
			return true
		}
		u, ok := v.(*ssa.UnOp)
		if !ok || u.Op != token.MUL || tsSlot == nil {
			return false
		}
		if u.X == tsSlot {
			return true
		}
		if fv, ok := u.X.(*ssa.FreeVar); ok {
			// bound to the slot by the MakeClosure in commitAndSend
			for _, b := range fn.Blocks {
				for _, in := range b.Instrs {
					if mc, ok := in.(*ssa.MakeClosure); ok && mc.Fn == f {
						for i, bv := range mc.Bindings {
							if bv == tsSlot && i < len(f.FreeVars) && f.FreeVars[i] == fv {
								return true
							}
						}
					}
				}
			}
		}
		return false
	}
	nd := 0
	check := func(f *ssa.Function) {
		for _, d := range Calls(f, false, dc) {
			nd++
			args := d.Common().Args
			c.Decide(isTs(f, args[len(args)-1]), rule, key(f, fmt.Sprintf("doneCommit[%d]#arg=newCommitTs-result", ordinalIn(f, d))), d.Pos(), 2, "marks done exactly the timestamp that was begun", "doneCommit is not given the timestamp returned by newCommitTs: the begun commit timestamp is never marked done, txnMark stops advancing and every later readTs()/Close blocks forever")
		}
	}
	check(fn)
	for _, a := range fn.AnonFuncs {
		check(a)
	}
	c.Decide(nd >= 2, rule, key(fn, "doneCommit-sites"), fn.Pos(), nd+1, "error path and completion callback both mark done", fmt.Sprintf("%d doneCommit sites in commitAndSend (expected the send-error path and the completion callback)", nd))
	for i, r := range Returns(fn) {
		if fn.Recover != nil && r.Block() == fn.Recover {
			continue
		}
		k := key(fn, fmt.Sprintf("return[%d]->doneCommit", i+1))
		// conflict return: dominated by conflict==true edge (second result of newCommitTs)
		if !Dominates(nct[0].(ssa.Instruction), r) {
			c.Pass(rule, k, r.Pos(), 1, "return before a timestamp was allocated")
			continue
		}
		if conflictEdge(fn, nct[0], r) {
			c.Pass(rule, k, r.Pos(), 1, "conflict return: no timestamp was registered")
			continue
		}
		ok, n := MustPrecede(fn, r, instrs(dones))
		if ok {
			c.Pass(rule, k, r.Pos(), n, "doneCommit runs before this return")
			continue
		}
		// success return: returns a closure that calls doneCommit after Wait on all paths
		if mc, isMC := RetVal(r, 0).(*ssa.MakeClosure); isMC && ei == 1 {
			cf := mc.Fn.(*ssa.Function)
			c.Touch(cf)
			cd := Calls(cf, false, dc)
			cw := Calls(cf, false, Named("NoKV.(*request).Wait"))
			good := len(cd) > 0 && len(cw) > 0
			m := 0
			for _, cr := range Returns(cf) {
				ok1, n1 := MustPrecede(cf, cr, instrs(cd))
				m += n1
				if !ok1 {
					good = false
				}
			}
			for _, d := range cd {
				ok2, n2 := MustPrecede(cf, d.(ssa.Instruction), instrs(cw))
				m += n2
				if !ok2 {
					good = false
				}
			}
			// argument of doneCommit is the commitTs captured
			c.Decide(good, rule, k, r.Pos(), n+m, "returned callback waits for the request and then marks the commit timestamp done on every path", "the returned callback can finish without doneCommit, or calls it before request.Wait")
			continue
		}
		c.Fail(rule, k, r.Pos(), n, "a return after timestamp allocation neither calls doneCommit nor returns the completion callback")
	}
}

// conflictEdge: r is dominated by the true edge of the bool result (#1) of call.
func conflictEdge(fn *ssa.Function, call ssa.CallInstruction, r ssa.Instruction) bool {
	v := call.Value()
	if v == nil {
		return false
	}
	for _, ref := range *v.Referrers() {
		ex, ok := ref.(*ssa.Extract)
		if !ok || ex.Index != 1 {
			continue
		}
		for _, b := range fn.Blocks {
			if ifi := ifOf(b); ifi != nil && ifi.Cond == ex {
				if EdgeDominates(b, b.Succs[0], r.Block()) {
					return true
				}
			}
		}
	}
	return false
}

func C05(c *Ctx) {
	c.Note("all interleavings; repeatable reads as a history property; iterator vs point-read agreement (C06)")
	watermarkSlotExclusionGroup(c, "K2.watermark-slot-updates-exclude-rebuild")
	const r1 = "K4.begin-in-allocation-critical-section"
	c.Rule(r1, "txnMark.Begin(ts) executes under oracle.Mutex in the same critical section as nextTxnTs.Add (no unlock between), with the allocated ts as argument, on every non-conflict path")
	oracleCritical(c, r1, []string{"begin", "alloc"})

	const r2 = "K13.done-after-apply"
	c.Rule(r2, "doneCommit(commitTs) is called only after request.Wait returned (commit callback) or when nothing was enqueued (send error); oracle.doneCommit forwards to txnMark.Done; callers of doneCommit are within commitAndSend")
	doneCommitPairing(c, r2)
	onlyCallers(c, r2, c.Fn("", "oracle.doneCommit"), map[string]string{"(*NoKV.Txn).commitAndSend": "commit path (incl. returned callback)"}, 1)
	if fn := c.Fn("", "oracle.doneCommit"); fn != nil {
		need(c, r2, fn, false, "txnMark.Done", mMarkDone, 1)
	}

	const r3 = "K1.reader-waits-for-mark"
	c.Rule(r3, "oracle.readTs: readMark.Begin(readTs) and txnMark.WaitForMark(readTs) precede the return, the waited index is the returned timestamp, which is nextTxnTs-1 bounded by txnMark.LastIndex; DB.newTransaction assigns txn.readTs from oracle.readTs")
	if fn := c.Fn("", "oracle.readTs"); fn != nil {
		wm := need(c, r3, fn, false, "WaitForMark", Named("utils.(*WaterMark).WaitForMark"), 1)
		bg := need(c, r3, fn, false, "readMark.Begin", mMarkBegin, 1)
		for i, r := range Returns(fn) {
			ok, n := MustPrecede(fn, r, instrs(wm))
			c.Decide(ok, r3, key(fn, fmt.Sprintf("return[%d]<-WaitForMark", i+1)), r.Pos(), n, "return follows WaitForMark", "readTs can return without waiting for pending commits")
			if len(wm) > 0 {
				arg := wm[0].Common().Args[len(wm[0].Common().Args)-1]
				c.Decide(RetVal(r, 0) == arg, r3, key(fn, fmt.Sprintf("return[%d]#waited==returned", i+1)), r.Pos(), 1, "the waited index is the returned read timestamp", "WaitForMark waits for a different index than the returned read timestamp")
			}
		}
		for i, w := range wm {
			ok, n := MustPrecede(fn, w.(ssa.Instruction), instrs(bg))
			c.Decide(ok, r3, key(fn, fmt.Sprintf("WaitForMark[%d]<-readMark.Begin", i+1)), w.Pos(), n, "readMark.Begin precedes the wait", "readMark.Begin does not precede WaitForMark")
			// WaitForMark error is checked (utils.Check) — result used
			ev := ErrResult(w)
			c.Decide(ev != nil && ev.Referrers() != nil && len(*ev.Referrers()) > 0, r3, key(fn, fmt.Sprintf("WaitForMark[%d]#result-used", i+1)), w.Pos(), 1, "wait result is checked", "WaitForMark's error is dropped")
		}
		// readTs derives from nextTxnTs.Load()-1
		loads := Calls(fn, false, Named("(*sync/atomic.Uint64).Load"))
		okd := false
		for _, r := range Returns(fn) {
			if derivedFrom(RetVal(r, 0), valuesOf(loads), 5) {
				okd = true
			}
		}
		c.Decide(okd, r3, key(fn, "readTs=nextTxnTs-1"), fn.Pos(), 1, "read timestamp derives from nextTxnTs", "read timestamp is not derived from nextTxnTs")
	}
	if fn := c.Fn("", "DB.newTransaction"); fn != nil {
		rt := need(c, r3, fn, false, "oracle.readTs", Named("NoKV.(*oracle).readTs"), 1)
		st := fieldStoresIn(fn, false, "NoKV.Txn", "readTs")
		good := false
		for _, s := range st {
			if x, ok := s.(*ssa.Store); ok && len(rt) > 0 && x.Val == rt[0].Value() {
				good = true
			}
		}
		c.Decide(good, r3, key(fn, "txn.readTs=oracle.readTs()"), fn.Pos(), 1, "the transaction's snapshot is the oracle's read timestamp", "txn.readTs is not assigned from oracle.readTs()")
	}
	// every read path of a transaction uses txn.readTs as version
	if fn := c.Fn("", "Txn.Get"); fn != nil {
		for i, ik := range Calls(fn, false, Named("kv.InternalKey")) {
			o, f, ok := FieldOf(ik.Common().Args[2])
			c.Decide(ok && o == "NoKV.Txn" && f == "readTs", r3, key(fn, fmt.Sprintf("InternalKey[%d]#version=readTs", i+1)), ik.Pos(), 1, "point read seeks at txn.readTs", "Txn.Get does not seek at txn.readTs")
		}
	}
	if fn := c.Fn("", "TxnIterator.advance"); fn != nil {
		versionFilter(c, r3, fn)
	}

	const r4 = "K1.watermark-publish-order"
	c.Rule(r4, "WaterMark.Begin/BeginMany increment the pending counter of an index before publishing it as lastIndex (shared with C32)")
	watermarkPublishOrder(c, r4)
	const r5 = "K2.window-rebuild-keeps-pending"
	watermarkWindowGroup(c, r5)
}

// versionFilter: advance skips entries with version > readTs (operator check).
func versionFilter(c *Ctx, rule string, fn *ssa.Function) {
	// decided by order-sign evaluation: an entry whose version is above it.readTs never makes
	// the iterator valid; one at or below it can (however the version is obtained or the test
	// is spelled)
	var emits []ssa.Instruction
	for _, st := range fieldStoresIn(fn, false, "NoKV.TxnIterator", "valid") {
		if sv, ok := st.(*ssa.Store); ok {
			if k, isC := sv.Val.(*ssa.Const); isC && k.Value != nil && k.Value.String() == "true" {
				emits = append(emits, st)
			}
		}
	}
	role := func(v ssa.Value) string {
		v = Unwrap(v)
		if isFieldLoad(v, "NoKV.TxnIterator", "readTs") {
			return "readTs"
		}
		if call, ok := v.(*ssa.Call); ok && Named("kv.ParseTs")(call.Common()) {
			return "ver"
		}
		if ex, ok := v.(*ssa.Extract); ok && ex.Index == 2 {
			if call, ok := ex.Tuple.(*ssa.Call); ok && Named("kv.SplitInternalKey")(call.Common()) {
				return "ver"
			}
		}
		return ""
	}
	reach := func(s int) (bool, int) {
		signs := map[string]int{}
		SetSign(signs, "ver", "readTs", s)
		env := &SignEnv{Role: role, Signs: signs, Depth: 2}
		hit := false
		for _, e := range emits {
			if env.Reaches(fn, e) {
				hit = true
			}
		}
		return hit, env.Visited
	}
	if len(emits) == 0 {
		c.Fail(rule, key(fn, "has:version-filter"), fn.Pos(), 1, "advance never marks the iterator valid: the snapshot filter cannot be evaluated")
		return
	}
	newer, n1 := reach(1)
	same, n2 := reach(0)
	older, n3 := reach(-1)
	if newer && same && older {
		c.Fail(rule, key(fn, "has:version-filter"), fn.Pos(), n1+n2+n3, "no comparison of the entry version with it.readTs found in advance")
		return
	}
	c.Decide(!newer && same && older, rule, key(fn, "version-filter[1]"), fn.Pos(), n1+n2+n3, "entries newer than readTs are skipped, entries at or below it are visible",
		fmt.Sprintf("snapshot filter: version>readTs yielded=%v (want false), version==readTs yielded=%v (want true), version<readTs yielded=%v (want true)", newer, same, older))
}

func watermarkPublishOrder(c *Ctx, rule string) {
	for _, name := range []string{"WaterMark.Begin", "WaterMark.BeginMany"} {
		fn := c.Fn("utils", name)
		if fn == nil {
			continue
		}
		inc := Calls(fn, false, Named("utils.(*WaterMark).addIndex"))
		pub := need(c, rule, fn, false, "setLastIndex", Named("utils.(*WaterMark).setLastIndex"), 1)
		if len(inc) == 0 {
			c.Fail(rule, key(fn, "has:addIndex"), fn.Pos(), 1, "no pending-counter increment found")
		}
		for i, p := range pub {
			ok, n := MustPrecedeLA(fn, p.(ssa.Instruction), instrs(inc))
			c.Decide(ok, rule, key(fn, fmt.Sprintf("setLastIndex[%d]<-addIndex", i+1)), p.Pos(), n,
				"the pending count is incremented before the index is published", "lastIndex is published before the pending count of the index is incremented (a concurrent advance can pass the index)")
		}
	}
}

func C34(c *Ctx) {
	c.Note("linearizability itself; exactly-once effect under retries; read path ordering with concurrent rotation")
	partialAckCoverageGroup(c, "K1.failed-request-gets-error")
	const r1 = "K1.rejected-before-enqueue"
	c.Rule(r1, "setEntry / SetVersionedEntry: maybeThrottleWrite()==nil precedes batchSet; sendToWriteCh rejections precede enqueue (as C04); batchSet returns the send error without waiting")
	for _, n := range []string{"DB.setEntry", "DB.SetVersionedEntry"} {
		fn := c.Fn("", n)
		beforeOK(c, r1, fn, "maybeThrottleWrite", Named("NoKV.(*DB).maybeThrottleWrite"), "batchSet|sendToWriteCh", Named("NoKV.(*DB).batchSet", "NoKV.(*DB).sendToWriteCh"), 1)
	}
	entryRefOwnershipGroup(c, "K13.entry-ref-ownership")
	gcReinsertAtomicGroup(c, "K4.gc-reinsert-atomic-with-check")
	failedWriteNoEffect(c, "K1.failed-write-has-no-effect")
	if fn := c.Fn("", "DB.sendToWriteCh"); fn != nil {
		for _, e := range need(c, r1, fn, false, "enqueueCommitRequest", Named("NoKV.(*DB).enqueueCommitRequest"), 1) {
			sentinelGuards(c, r1, fn, "ErrTxnTooBig", e.(ssa.Instruction), "enqueueCommitRequest", 2)
			oversizeGuard(c, r1, fn, e.(ssa.Instruction))
			// the throttle loop: enqueue lies behind the exit edge of `blockWrites == 1`; the loop may
			// live in a helper whose error is checked before the enqueue
			found := false
			scanThrottle := func(g *ssa.Function, targets []ssa.Instruction) {
				for _, b := range g.Blocks {
					ifi := ifOf(b)
					if ifi == nil {
						continue
					}
					bo, ok := ifi.Cond.(*ssa.BinOp)
					if !ok || (bo.Op != token.EQL && bo.Op != token.NEQ) {
						continue
					}
					call, ok := bo.X.(*ssa.Call)
					if !ok || !Named("sync/atomic.LoadInt32")(call.Common()) {
						continue
					}
					if o, f, ok := FieldOf(call.Call.Args[0]); ok && o == "NoKV.DB" && f == "blockWrites" {
						found = true
						exit := b.Succs[1]
						if bo.Op == token.NEQ {
							exit = b.Succs[0]
						}
						good := len(targets) > 0
						for _, t := range targets {
							if !EdgeDominates(b, exit, t.Block()) {
								good = false
							}
						}
						c.Decide(good, r1, key(fn, "enqueueCommitRequest<-!blockWrites"), ifi.Pos(), 2,
							"enqueue lies behind the exit edge of the blockWrites throttle test", "enqueue is reachable while blockWrites is set")
					}
				}
			}
			scanThrottle(fn, []ssa.Instruction{e.(ssa.Instruction)})
			if !found {
				for _, h := range rejectionHelpers(c, fn, e.(ssa.Instruction)) {
					var okRets []ssa.Instruction
					hei := ErrorResultIndex(h)
					for _, r := range Returns(h) {
						if !ProvablyNonNil(RetVal(r, hei), r, 0) {
							okRets = append(okRets, r)
						}
					}
					scanThrottle(h, okRets)
				}
			}
			c.Decide(found, r1, key(fn, "has:blockWrites-test"), fn.Pos(), 1, "throttle test present", "sendToWriteCh no longer tests DB.blockWrites before enqueueing")
		}
	}
	if fn := c.Fn("", "DB.batchSet"); fn != nil {
		beforeOK(c, r1, fn, "sendToWriteCh", Named("NoKV.(*DB).sendToWriteCh"), "request.Wait", Named("NoKV.(*request).Wait"), 1)
	}
	if fn := c.Fn("", "DB.enqueueCommitRequest"); fn != nil {
		// Push is preceded by the closed test; a failed push returns an error
		push := need(c, r1, fn, false, "ring.Push", MethodNamed("utils.Ring", "Push"), 1)
		_ = push
		sentinelGuardsAny(c, r1, fn, "ErrBlockedWrites", 3)
	}

	const r2 = "K3.single-applier"
	c.Rule(r2, "exactly one `go db.commitWorker()` site exists, in Open, outside any loop; commitQueue.pop is called only from nextCommitBatch; nextCommitBatch only from commitWorker; LSM.SetBatch only from writeToLSM; writeToLSM only from applyRequests; applyRequests only from commitWorker")
	cw := c.Fn("", "DB.commitWorker")
	if cw != nil {
		n := 0
		for _, f := range c.P.ModFuncs {
			for _, b := range f.Blocks {
				for _, in := range b.Instrs {
					g, ok := in.(*ssa.Go)
					if !ok || !Fnm(cw)(g.Common()) {
						continue
					}
					n++
					k := FuncName(f) + "#go-commitWorker"
					inLoop := blockInLoop(b)
					c.Decide(FuncName(Root(f)) == "NoKV.Open" && !inLoop, r2, k, g.Pos(), 2, "single worker started in Open outside any loop", "commitWorker is started in "+FuncName(f)+" (in loop: "+fmt.Sprint(inLoop)+")")
				}
			}
		}
		c.Decide(n == 1, r2, "NoKV.(*DB).commitWorker#go-sites", cw.Pos(), n+1, "exactly one goroutine start", fmt.Sprintf("%d goroutine start sites for commitWorker", n))
	}
	onlyCallers(c, r2, c.Fn("", "commitQueue.pop"), map[string]string{"(*NoKV.DB).nextCommitBatch": "batch builder"}, 1)
	onlyCallers(c, r2, c.Fn("", "DB.nextCommitBatch"), map[string]string{"(*NoKV.DB).commitWorker": "worker"}, 1)
	onlyCallers(c, r2, c.Fn("lsm", "LSM.SetBatch"), map[string]string{"(*NoKV.DB).writeToLSM": "write path"}, 1)
	onlyCallers(c, r2, c.Fn("", "DB.writeToLSM"), map[string]string{"(*NoKV.DB).applyRequests": "apply"}, 1)
	onlyCallers(c, r2, c.Fn("", "DB.applyRequests"), map[string]string{"(*NoKV.DB).commitWorker": "worker"}, 1)

	const r3 = "K1.ack-after-apply"
	c.Rule(r3, "commitWorker acknowledges after applyRequests; memTable.setBatch inserts into the index only after wal.Append succeeded; finishCommitRequests stores Err before Done")
	ackAfterApply(c, r3)
	if fn := c.Fn("lsm", "memTable.setBatch"); fn != nil {
		beforeOK(c, r3, fn, "wal.Append", Named("wal.(*Manager).Append"), "index.Add", MethodNamed("lsm.memIndex", "Add"), 1)
	}
	if fn := c.Fn("", "DB.finishCommitRequests"); fn != nil {
		stores := fieldStoresIn(fn, false, "NoKV.request", "Err")
		for i, d := range need(c, r3, fn, false, "wg.Done", Named("(*sync.WaitGroup).Done"), 1) {
			ok, n := MustPrecede(fn, d.(ssa.Instruction), stores)
			c.Decide(ok && len(stores) > 0, r3, key(fn, fmt.Sprintf("wg.Done[%d]<-Err-store", i+1)), d.Pos(), n, "Err stored before Done", "wg.Done before Err store")
		}
	}
	if fn := c.Fn("", "request.Wait"); fn != nil {
		// Err is read after wg.Wait
		w := need(c, r3, fn, false, "wg.Wait", Named("(*sync.WaitGroup).Wait"), 1)
		for i, r := range Returns(fn) {
			ok, n := MustPrecede(fn, r, instrs(w))
			c.Decide(ok, r3, key(fn, fmt.Sprintf("return[%d]<-wg.Wait", i+1)), r.Pos(), n, "Wait returns after the group is done", "request.Wait can return before wg.Wait")
		}
	}
}

// sentinelGuardsAny: fn has at least min returns of the sentinel.
func sentinelGuardsAny(c *Ctx, rule string, fn *ssa.Function, sentinel string, min int) {
	n := 0
	ei := ErrorResultIndex(fn)
	for _, r := range Returns(fn) {
		if u, ok := RetVal(r, ei).(*ssa.UnOp); ok {
			if g, ok := u.X.(*ssa.Global); ok && g.Name() == sentinel {
				n++
			}
		}
	}
	c.Decide(n >= min, rule, key(fn, "returns:"+sentinel), fn.Pos(), n+1, fmt.Sprintf("%d rejection returns of %s", n, sentinel), fmt.Sprintf("expected at least %d %s rejection returns, found %d", min, sentinel, n))
}

// blockInLoop: b can reach itself.
func blockInLoop(b *ssa.BasicBlock) bool {
	for _, s := range b.Succs {
		if blockReaches(s, b) {
			return true
		}
	}
	return false
}

// returnsTrueDirectly: b (following jumps) returns the constant true.
func returnsTrueDirectly(b *ssa.BasicBlock) bool {
	seen := map[*ssa.BasicBlock]bool{}
	for b != nil && !seen[b] {
		seen[b] = true
		if len(b.Instrs) == 0 {
			return false
		}
		switch t := b.Instrs[len(b.Instrs)-1].(type) {
		case *ssa.Return:
			if k, ok := RetVal(t, 0).(*ssa.Const); ok && k.Value != nil && k.Value.String() == "true" {
				return true
			}
			return false
		case *ssa.Jump:
			b = b.Succs[0]
		default:
			return false
		}
	}
	return false
}

// pruneOnlyAtOrBelow: there is a comparison of a committed ts with DoneUntil() whose
// "ts is greater" edge cannot reach a delete on the intent table before the next loop
// iteration, i.e. only transactions at or below the threshold lose their intents.
func pruneOnlyAtOrBelow(fn *ssa.Function, isCts, isDone func(ssa.Value) bool) bool {
	for _, b := range fn.Blocks {
		ifi := ifOf(b)
		if ifi == nil {
			continue
		}
		bo, ok := ifi.Cond.(*ssa.BinOp)
		if !ok {
			continue
		}
		var greater *ssa.BasicBlock
		switch {
		case isCts(bo.X) && isDone(bo.Y):
			switch bo.Op {
			case token.LEQ:
				greater = b.Succs[1]
			case token.GTR:
				greater = b.Succs[0]
			}
		case isDone(bo.X) && isCts(bo.Y):
			switch bo.Op {
			case token.GEQ:
				greater = b.Succs[1]
			case token.LSS:
				greater = b.Succs[0]
			}
		}
		if greater == nil {
			continue
		}
		// walk forward from the greater edge until the loop header (a block dominating b that b can reach)
		seen := map[*ssa.BasicBlock]bool{}
		bad := false
		var walk func(x *ssa.BasicBlock)
		walk = func(x *ssa.BasicBlock) {
			if seen[x] || x.Dominates(b) {
				return
			}
			seen[x] = true
			for _, in := range x.Instrs {
				if call, ok := in.(*ssa.Call); ok {
					if bi, ok := call.Call.Value.(*ssa.Builtin); ok && bi.Name() == "delete" {
						bad = true
					}
				}
			}
			for _, s := range x.Succs {
				walk(s)
			}
		}
		walk(greater)
		return !bad
	}
	return false
}

// oversizeGuard: LSM.Set/SetBatch rotate memtables until an entry fits, so an entry that
// cannot fit an empty memtable must never reach the commit worker: before the enqueue,
// sendToWriteCh rejects with ErrTxnTooBig on a test that reads Options.MemTableSize
// (directly or in a same-package predicate it calls).
func oversizeGuard(c *Ctx, rule string, fn *ssa.Function, enqueue ssa.Instruction) {
	readsMemTableSize := func(f *ssa.Function) bool {
		found := false
		AllInstrs(f, false, func(in ssa.Instruction) {
			if v, ok := in.(ssa.Value); ok && isFieldLoad(v, "NoKV.Options", "MemTableSize") {
				found = true
			}
		})
		return found
	}
	var mentions func(v ssa.Value, depth int) bool
	mentions = func(v ssa.Value, depth int) bool {
		if depth <= 0 || v == nil {
			return false
		}
		if isFieldLoad(v, "NoKV.Options", "MemTableSize") {
			return true
		}
		switch x := v.(type) {
		case *ssa.UnOp:
			return mentions(x.X, depth-1)
		case *ssa.BinOp:
			return mentions(x.X, depth-1) || mentions(x.Y, depth-1)
		case *ssa.Convert:
			return mentions(x.X, depth-1)
		case *ssa.Call:
			if h := StaticFn(x.Common()); h != nil && h.Blocks != nil && FuncPkgPath(h) == FuncPkgPath(fn) && readsMemTableSize(h) {
				c.Touch(h)
				return true
			}
		}
		return false
	}
	ok := false
	scan := func(g *ssa.Function, inHelper bool) {
		ei := ErrorResultIndex(g)
		for _, r := range Returns(g) {
			u, isU := RetVal(r, ei).(*ssa.UnOp)
			if !isU {
				continue
			}
			if gl, isG := u.X.(*ssa.Global); !isG || gl.Name() != "ErrTxnTooBig" {
				continue
			}
			for _, p := range r.Block().Preds {
				ifi := ifOf(p)
				if ifi == nil || !mentions(ifi.Cond, 4) {
					continue
				}
				if inHelper || (blockReaches(p, enqueue.Block()) && !blockReaches(enqueue.Block(), p)) {
					ok = true
				}
			}
		}
	}
	scan(fn, false)
	for _, h := range rejectionHelpers(c, fn, enqueue) {
		scan(h, true)
	}
	c.Decide(ok, rule, key(fn, "enqueueCommitRequest<-reject(entry-larger-than-memtable)"), fn.Pos(), 2,
		"an entry that cannot fit an empty memtable is rejected with ErrTxnTooBig before the enqueue",
		"no ErrTxnTooBig rejection on Options.MemTableSize precedes the enqueue: an inline entry larger than one memtable (MemTableSize < size < MaxBatchSize) reaches LSM.SetBatch, which rotates memtables forever – that write never returns and every later write queues behind it")
}

// failedWriteNoEffect: once applyRequests has inserted a batch into the memtable, nothing that
// fails afterwards may be reported to the writers as the outcome of their write – the write
// has taken effect (readers see it, it survives a clean reopen).  In commitWorker, the failure
// edge of every fallible step that FOLLOWS applyRequests in the same iteration must not reach
// finishCommitRequests before the next batch is fetched.
func failedWriteNoEffect(c *Ctx, rule string) {
	c.Rule(rule, "DB.commitWorker: the failure edge of a wal.Sync that follows applyRequests in the same iteration does not reach finishCommitRequests (the entries are already visible in the memtable; reporting the sync failure as the write's error makes a failed write take effect)")
	fn := commitWorkerBody(c)
	if fn == nil {
		return
	}
	apply := need(c, rule, fn, false, "applyRequests", Named("NoKV.(*DB).applyRequests"), 1)
	next := Calls(fn, false, Named("NoKV.(*DB).nextCommitBatch"))
	finish := Calls(fn, false, Named("NoKV.(*DB).finishCommitRequests"))
	syncs := Calls(fn, false, Named("wal.(*Manager).Sync"))
	n := 0
	for i, sy := range syncs {
		after := false
		for _, a := range apply {
			if r, _ := CutReach(fn, a.(ssa.Instruction), sy.(ssa.Instruction), instrs(next), nil); r {
				after = true
			}
		}
		if !after {
			continue
		}
		n++
		ev := ErrResult(sy)
		// (keyed by the worker, wherever its loop body lives: the finding is about the write path)
		k := key(c.Fn("", "DB.commitWorker"), fmt.Sprintf("wal.Sync[%d]#failure-after-apply-not-reported-as-write-error", i+1))
		if ev == nil {
			c.Fail(rule, k, sy.Pos(), 1, "the result of a wal.Sync after applyRequests is discarded")
			continue
		}
		reported := false
		for _, e := range NilEdges(fn, FlowSet(ev)) {
			blk := e.NonNil[1]
			if len(blk.Instrs) == 0 {
				continue
			}
			for _, f := range finish {
				// a path that fetches the next batch, or retries the sync, is not a report of this failure
				if r, _ := reachFromBlock(fn, blk, f.(ssa.Instruction), append(instrs(next), instrs(syncs)...)); r {
					reported = true
				}
			}
		}
		c.Decide(!reported, rule, k, sy.Pos(), len(finish)+2, "a sync failure after the memtable insert is not handed to the writers as their write's error",
			"the failure edge of this wal.Sync reaches finishCommitRequests although applyRequests has already inserted the batch: the writers get an error for a write that readers see and that survives a clean reopen")
	}
	if n == 0 {
		c.Pass(rule, key(fn, "no-fallible-step-after-apply"), fn.Pos(), len(syncs)+1, "no wal.Sync follows applyRequests in the same iteration")
	}
}
