package props

import (
	"fmt"
	"go/constant"
	"go/token"
	"go/types"
	"strings"

	"golang.org/x/tools/go/ssa"

	. "nokvsa/core"
)

func init() { register("C16", C16) }

var decoderPkgs = map[string]bool{Module + "/kv": true, Module + "/manifest": true, Module + "/percolator": true,
	Module + "/raftstore/engine": true, Module + "/raftstore/command": true, Module + "/wal": true, Module + "/raftstore/store": true, Module: true}

func C16(c *Ctx) {
	c.Note("round-trip equality of every encoding; key ordering on all byte strings (C06/C07 decide the comparator discipline); allocation proportional to input for streaming decoders that must read a declared length (see known findings)")
	const r1 = "K7.decoded-length-discipline"
	c.Rule(r1, "in packages kv, manifest, percolator, raftstore/engine, raftstore/command, raftstore/store, wal and the root package: a length decoded from input bytes (Uvarint, fixed-width big/little-endian, binary.Read) reaches a make() size or – after conversion to a signed/narrower integer – a slice bound / index only behind a relational comparison on the unconverted value")
	const r2 = "K7u.uvarint-count-checked"
	c.Rule(r2, "the byte count returned by binary.Uvarint is compared with a constant in the calling function before it is used, by a test that separates n == 0 (truncated varint) from n > 0 (n <= 0, n == 0, n > 0, n < 1 …; `n < 0` alone accepts a varint cut in the middle as value 0)")
	fs := taintScan(c.P, decoderPkgs)
	nA, nU := 0, 0
	ord := map[string]int{}
	for _, f := range fs {
		c.Touch(Root(f.Fn))
		name := FuncName(f.Fn)
		ord[name+f.Kind]++
		k := fmt.Sprintf("%s#%s[%d]", name, f.Kind, ord[name+f.Kind])
		rule := r1
		if f.Kind == "uvarint-n" {
			rule = r2
			nU++
		} else {
			nA++
		}
		if why, ok := taintExceptions[k]; ok {
			c.Pass(rule, k, f.In.Pos(), 1, "frozen exception: %s", why)
			continue
		}
		if f.OK {
			c.Pass(rule, k, f.In.Pos(), 2, "%s: guarded", f.Detail)
		} else {
			if f.Kind == "uvarint-n" {
				c.Fail(rule, k, f.In.Pos(), 2, "%s: no test separates n == 0 from n > 0 – a varint cut in the middle (truncated input) decodes as value 0 with nothing consumed instead of an error", f.Detail)
			} else {
				c.Fail(rule, k, f.In.Pos(), 2, "%s: not guarded – a corrupt or hostile input can make this panic or allocate without bound", f.Detail)
			}
		}
	}
	// manifest.readBytes: a length prefix that cannot be read or points past the record must
	// trip the callers' `pos > len(data)` truncation check, not read as an empty key
	if fn := c.FnOpt("manifest", "readBytes"); fn != nil && len(fn.Params) == 1 {
		const r3 = "K7u.unreadable-length-is-an-error"
		c.Rule(r3, "every return of manifest.readBytes that hands back no bytes (nil) reports either 0 consumed behind the `len(data) == 0` edge (an absent optional field) or more than len(data) consumed (len(data)+k, k > 0), which trips decodeEdit's truncation check; `len(data)` consumed would turn an oversized or truncated length prefix into an empty key")
		isLenData := func(v ssa.Value) bool {
			call, ok := Unwrap(v).(*ssa.Call)
			if !ok {
				return false
			}
			bi, ok := call.Call.Value.(*ssa.Builtin)
			return ok && bi.Name() == "len" && len(call.Call.Args) == 1 && Unwrap(call.Call.Args[0]) == fn.Params[0]
		}
		n, bad := 0, 0
		for _, r := range Returns(fn) {
			if len(r.Results) != 2 || !IsNilConst(r.Results[0]) {
				continue
			}
			n++
			cnt := Unwrap(r.Results[1])
			if k, ok := ConstInt(cnt); ok && k == 0 {
				// only behind len(data) == 0
				okEdge := false
				for _, b := range fn.Blocks {
					if ifi := ifOf(b); ifi != nil {
						if bo, ok := ifi.Cond.(*ssa.BinOp); ok && bo.Op == token.EQL && isLenData(bo.X) {
							if k0, isC := ConstInt(bo.Y); isC && k0 == 0 && EdgeDominates(b, b.Succs[0], r.Block()) {
								okEdge = true
							}
						}
					}
				}
				if !okEdge {
					bad++
				}
				continue
			}
			if bo, ok := cnt.(*ssa.BinOp); ok && bo.Op == token.ADD && isLenData(bo.X) {
				if k, isC := ConstInt(bo.Y); isC && k > 0 {
					continue
				}
			}
			bad++
		}
		c.Decide(n > 0 && bad == 0, r3, key(fn, "failure-consumes-more-than-the-record"), fn.Pos(), n+1, "an unreadable or oversized length prefix trips the truncation check", "manifest.readBytes answers an unreadable or oversized length prefix with `nothing read, len(data) consumed`: decodeEdit takes it for an empty key, drops the rest of the record and returns a nil error (manifest records carry no checksum, so Verify and Open accept the damaged manifest)")
	}
	c.Floor(r1, nA, 8, "decoded-length sinks")
	c.Floor(r2, nU, 5, "binary.Uvarint call sites")

	const r3 = "K12.internal-key-layout"
	c.Rule(r3, "kv.InternalKey / KeyWithTs append an 8-byte big-endian suffix holding MaxUint64-ts; ParseTs / SplitInternalKey / ParseKey read the same 8 bytes with the same inversion; utils.CompareKeys compares the user part bytewise then the 8-byte suffix bytewise")
	internalKeyLayout(c, r3)
}

// taintExceptions: sites outside the property's list of persisted/wire decoders.
var taintExceptions = map[string]string{
	"(*kv.ValueStruct).DecodeValue#uvarint-n[1]": "SST-internal value struct decoded from a CRC-verified block; the method has no error result and is not one of the persisted/wire decoder entry points named by C16",
}

func internalKeyLayout(c *Ctx, rule string) {
	hdr := int64(0)
	if k, ok := c.P.LookupObj("kv", "cfHeaderSize").(*types.Const); ok {
		hdr, _ = constant.Int64Val(constant.ToInt(k.Val()))
	}
	// builders: make(len(key)+K) and PutUint64(out[len-8:], MaxUint64-ts)
	for name, extra := range map[string]int64{"InternalKey": hdr, "KeyWithTs": 0} {
		fn := c.Fn("kv", name)
		if fn == nil {
			continue
		}
		sz := int64(-1)
		AllInstrs(fn, false, func(in ssa.Instruction) {
			if ms, ok := in.(*ssa.MakeSlice); ok {
				_, k := flattenAdd(ms.Len)
				sz = k
			}
		})
		c.Decide(sz == extra+8, rule, key(fn, "make(len+suffix)"), fn.Pos(), 1, fmt.Sprintf("allocates len(key)+%d", sz), fmt.Sprintf("allocates len(key)+%d, expected +%d (8-byte version suffix)", sz, extra+8))
		inv := false
		for _, pu := range Calls(fn, false, Named("(encoding/binary.bigEndian).PutUint64")) {
			if x, ok := invertedUint64(pu.Common().Args[len(pu.Common().Args)-1]); ok {
				if _, isP := x.(*ssa.Parameter); isP {
					inv = true
				}
			}
		}
		c.Decide(inv, rule, key(fn, "suffix=BE(MaxUint64-ts)"), fn.Pos(), 1, "version suffix is big-endian MaxUint64-ts (newer sorts first)", "version suffix is not the big-endian encoding of MaxUint64-ts")
	}
	if fn := c.Fn("kv", "ParseTs"); fn != nil {
		inv, w := false, suffixWidths(fn)
		for _, r := range Returns(fn) {
			if x, ok := invertedUint64(RetVal(r, 0)); ok {
				if call, ok := x.(*ssa.Call); ok && Named("(encoding/binary.bigEndian).Uint64")(call.Common()) {
					inv = true
				}
			}
		}
		c.Decide(inv && len(w) == 1 && w[8], rule, key(fn, "ts=MaxUint64-BE(last8)"), fn.Pos(), 2, "reads the same 8-byte inverted big-endian suffix", fmt.Sprintf("ParseTs does not decode MaxUint64-BE(key[len-8:]) (suffix widths %v)", w))
	}
	if fn := c.Fn("kv", "ParseKey"); fn != nil {
		w := suffixWidths(fn)
		c.Decide(len(w) == 1 && w[8], rule, key(fn, "strips-8"), fn.Pos(), 1, "strips exactly the 8-byte suffix", fmt.Sprintf("ParseKey strips widths %v, expected {8}", w))
	}
	if fn := c.Fn("utils", "CompareKeys"); fn != nil {
		w := suffixWidths(fn)
		cmp := Calls(fn, false, Named("bytes.Compare"))
		c.Decide(len(w) == 1 && w[8] && len(cmp) == 2, rule, key(fn, "compare(user)-then-compare(suffix8)"), fn.Pos(), 3, "user part then 8-byte suffix, both bytewise", fmt.Sprintf("CompareKeys uses suffix widths %v and %d bytes.Compare calls (expected {8} and 2)", w, len(cmp)))
		if len(cmp) == 2 {
			// first compare's operands are prefixes (slice with High), second's are suffixes (slice with Low)
			pre := isSliceHigh(cmp[0].Common().Args[0]) && isSliceHigh(cmp[0].Common().Args[1])
			suf := isSliceLow(cmp[1].Common().Args[0]) && isSliceLow(cmp[1].Common().Args[1])
			c.Decide(pre && suf && Dominates(cmp[0].(ssa.Instruction), cmp[1].(ssa.Instruction)), rule, key(fn, "order:user-first"), fn.Pos(), 2, "user key decides first, version suffix breaks ties", "CompareKeys does not compare the user part before the version suffix")
		}
	}
	if fn := c.Fn("kv", "SameKey"); fn != nil {
		pk := Calls(fn, false, Named("kv.ParseKey"))
		c.Decide(len(pk) == 2, rule, key(fn, "equal(ParseKey,ParseKey)"), fn.Pos(), 1, "compares the user parts", "SameKey does not compare ParseKey of both operands")
	}
}

func isSliceHigh(v ssa.Value) bool {
	s, ok := v.(*ssa.Slice)
	return ok && s.High != nil && s.Low == nil
}
func isSliceLow(v ssa.Value) bool {
	s, ok := v.(*ssa.Slice)
	return ok && s.Low != nil && s.High == nil
}

// suffixWidths: constants K in `len(x) - K` expressions used as slice bounds in fn.
func suffixWidths(fn *ssa.Function) map[int64]bool {
	out := map[int64]bool{}
	AllInstrs(fn, false, func(in ssa.Instruction) {
		sl, ok := in.(*ssa.Slice)
		if !ok {
			return
		}
		for _, b := range []ssa.Value{sl.Low, sl.High} {
			if bo, ok := b.(*ssa.BinOp); ok && bo.Op == token.SUB {
				if k, ok := ConstInt(bo.Y); ok {
					out[k] = true
				}
			}
		}
	})
	return out
}

// invertedUint64: v is MaxUint64 - x, or the bitwise complement ^x (the same value in uint64);
// returns x.
func invertedUint64(v ssa.Value) (ssa.Value, bool) {
	switch b := v.(type) {
	case *ssa.BinOp:
		if b.Op == token.SUB {
			if k, ok := b.X.(*ssa.Const); ok && k.Value != nil && k.Value.ExactString() == "18446744073709551615" {
				return b.Y, true
			}
		}
		if b.Op == token.XOR {
			if k, ok := b.Y.(*ssa.Const); ok && k.Value != nil && k.Value.ExactString() == "18446744073709551615" {
				return b.X, true
			}
			if k, ok := b.X.(*ssa.Const); ok && k.Value != nil && k.Value.ExactString() == "18446744073709551615" {
				return b.Y, true
			}
		}
	case *ssa.UnOp:
		if b.Op == token.XOR && strings.HasPrefix(b.X.Type().Underlying().String(), "uint64") {
			return b.X, true
		}
	}
	return nil, false
}
