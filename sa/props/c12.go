package props

import (
	"fmt"
	"go/token"
	"strings"

	"golang.org/x/tools/go/ssa"

	. "nokvsa/core"
)

func init() {
	register("C12", C12)
	register("C32", C32)
	register("C33", C33)
	register("C36", C36)
	register("C37", C37)
}

// orderedCalls checks that in fn the first call matching each successive matcher is
// preceded on all paths (to it) by a call matching the previous one.
func orderedCalls(c *Ctx, rule string, fn *ssa.Function, names []string, ms []Matcher, skip ...edgeSet) {
	top := fn
	orderedCallsDeep(c, rule, fn, names, ms, func(f *ssa.Function) edgeSet {
		out := edgeSet{}
		if f == top {
			for _, s := range skip {
				for e := range s {
					out[e] = true
				}
			}
		}
		return out
	}, 2)
}

// orderedCallsDeep: the effects ms[0], ms[1], ... run in that order on every path of fn.  An
// effect's site is the matching call itself or the call of a same-package helper that
// (transitively, to the given depth) contains it, so splitting fn into helpers keeps the
// obligations: two consecutive effects inside one helper are ordered inside that helper.
func orderedCallsDeep(c *Ctx, rule string, fn *ssa.Function, names []string, ms []Matcher, skipFn func(*ssa.Function) edgeSet, depth int) {
	if fn == nil {
		return
	}
	sitesOf := func(m Matcher) []ssa.CallInstruction {
		return effectSites(c, fn, func(ci ssa.CallInstruction) bool { return m(ci.Common()) }, depth)
	}
	se := map[[2]*ssa.BasicBlock]bool{}
	if skipFn != nil {
		for e := range skipFn(fn) {
			se[e] = true
		}
	}
	for i := 1; i < len(ms); i++ {
		prev := sitesOf(ms[i-1])
		cur := sitesOf(ms[i])
		if len(cur) == 0 {
			c.Fail(rule, key(fn, "has:"+names[i]), fn.Pos(), 1, "expected at least 1 call(s) to %s in %s, found 0", names[i], FuncName(fn))
			continue
		}
		c.Pass(rule, key(fn, "has:"+names[i]), fn.Pos(), len(cur), "%d site(s) of %s", len(cur), names[i])
		for j, b := range cur {
			k := key(fn, fmt.Sprintf("%s[%d]<-%s", names[i], j+1, names[i-1]))
			var others []ssa.Instruction
			inSame := false
			for _, p := range prev {
				if p == b {
					inSame = true
					continue
				}
				others = append(others, p.(ssa.Instruction))
			}
			if inSame && depth > 0 {
				// both effects live in the helper called here: ordered inside it
				if h := StaticFn(b.Common()); h != nil && h.Blocks != nil {
					c.Touch(h)
					orderedCallsDeep(c, rule, h, []string{names[i-1], names[i]}, []Matcher{ms[i-1], ms[i]}, skipFn, depth-1)
					continue
				}
			}
			reach, n := CutReach(fn, nil, b.(ssa.Instruction), others, se)
			c.Decide(!reach && len(others) > 0, rule, k, b.Pos(), n, names[i]+" runs after "+names[i-1]+" on every path", "a path reaches "+names[i]+" without "+names[i-1]+" having run")
		}
	}
}

func C12(c *Ctx) {
	c.Note("equality of contents after reopen; expiry metadata; that replayed memtables equal the closed ones")
	oracleSeedNoWrapGroup(c, "K5.oracle-seed-does-not-wrap")
	flushNeverSkippedGroup(c, "K11.failed-flush-never-skipped")
	vlogRewindGroup(c, "K2.vlog-append-failure-rewound")
	internalKeysHiddenGroup(c, "K2.internal-keys-hidden")
	const r1 = "K1.close-order"
	c.Rule(r1, "DB.closeInternal stops the commit workers, then closes the LSM, the value log, the WAL and finally releases the directory lock, and only then marks the DB closed; wal.Manager.Close flushes, fsyncs and closes in that order; stopCommitWorkers closes the queue before waiting for the worker")
	if fn := c.Fn("", "DB.closeInternal"); fn != nil {
		orderedCallsDeep(c, r1, fn,
			[]string{"stopCommitWorkers", "lsm.Close", "vlog.close", "wal.Close", "dirLock.Release"},
			[]Matcher{commitWGWait, Named("lsm.(*LSM).Close"), Named("NoKV.(*valueLog).close"), Named("wal.(*Manager).Close"), Named("utils.(*DirLock).Release")},
			func(f *ssa.Function) edgeSet { return nilFieldEdges(f, "NoKV.DB", "dirLock") }, 2)
		// errors of the three closes are collected (used), wherever the close is performed
		holders := []*ssa.Function{fn}
		AllInstrs(fn, false, func(in ssa.Instruction) {
			if ci, ok := in.(ssa.CallInstruction); ok {
				if h := StaticFn(ci.Common()); h != nil && h.Blocks != nil && h != fn && FuncPkgPath(h) == FuncPkgPath(fn) {
					holders = append(holders, h)
				}
			}
		})
		for _, m := range []string{"lsm.(*LSM).Close", "NoKV.(*valueLog).close", "wal.(*Manager).Close", "utils.(*DirLock).Release"} {
			n := 0
			for _, g := range holders {
				for _, ci := range Calls(g, false, Named(m)) {
					n++
					ev := ErrResult(ci)
					c.Decide(ev != nil && ev.Referrers() != nil && len(*ev.Referrers()) > 0, r1, key(fn, fmt.Sprintf("%s[%d]#error-used", m, n)), ci.Pos(), 1, "close error is collected", "the error of "+m+" is dropped by closeInternal")
				}
			}
		}
	}
	scw := c.FnOpt("", "DB.stopCommitWorkers")
	if scw == nil {
		scw = c.Fn("", "DB.closeInternal") // inlined
	}
	if fn := scw; fn != nil {
		orderedCallsDeep(c, r1, fn, []string{"commitQueue.close", "commitWG.Wait"}, []Matcher{Named("NoKV.(*commitQueue).close"), Named("(*sync.WaitGroup).Wait")}, nil, 1)
	}
	if fn := c.Fn("wal", "Manager.Close"); fn != nil {
		flush := Named("(*bufio.Writer).Flush")
		fsync := Named("(vfs.File).Sync")
		fclose := Named("(vfs.File).Close", "(io.Closer).Close")
		beforeOK(c, r1, fn, "writer.Flush", flush, "active.Sync", fsync, 1, nilFieldEdges(fn, "wal.Manager", "writer"))
		// the success-path Close follows Sync()==nil: take Close calls not dominated by a non-nil error edge
		syncs := Calls(fn, false, fsync)
		for i, cl := range Calls(fn, false, fclose) {
			errPath := false
			for _, s := range append(Calls(fn, false, flush), syncs...) {
				if ev := ErrResult(s); ev != nil {
					for _, e := range NilEdges(fn, map[ssa.Value]bool{ev: true}) {
						if EdgeDominates(e.NonNil[0], e.NonNil[1], cl.Block()) {
							errPath = true
						}
					}
				}
			}
			if errPath {
				continue
			}
			succOK(c, r1, key(fn, fmt.Sprintf("active.Close[%d]<-ok(active.Sync)", i+1)), fn, syncs, "active.Sync", cl.(ssa.Instruction), "active.Close")
		}
	}
	if fn := c.Fn("lsm", "LSM.Close"); fn != nil {
		orderedCalls(c, r1, fn, []string{"flushMgr.Close", "flushWG.Wait", "levels.close"},
			[]Matcher{Named("lsm/flush.(*Manager).Close"), Named("(*sync.WaitGroup).Wait"), Named("lsm.(*levelManager).close")})
	}

	const r2 = "K1.oracle-seeded-from-recovered-max"
	c.Rule(r2, "NoKV.Open: orc.initCommitState receives the result of lsm.MaxVersion() evaluated after lsm.NewLSM, before the commit worker starts and before Open returns; initCommitState raises nextTxnTs above it and moves both watermarks and lastIndex to it")
	if fn := c.Fn("", "Open"); fn != nil {
		mv := need(c, r2, fn, false, "lsm.MaxVersion", Named("lsm.(*LSM).MaxVersion"), 1)
		ic := need(c, r2, fn, false, "initCommitState", Named("NoKV.(*oracle).initCommitState"), 1)
		if len(mv) > 0 && len(ic) > 0 {
			arg := ic[0].Common().Args[len(ic[0].Common().Args)-1]
			c.Decide(arg == mv[0].Value(), r2, key(fn, "initCommitState#arg=MaxVersion()"), ic[0].Pos(), 1, "oracle seeded with the recovered maximum", "initCommitState is not given lsm.MaxVersion()")
			before(c, r2, fn, "lsm.NewLSM", Named("lsm.NewLSM"), "lsm.MaxVersion", Named("lsm.(*LSM).MaxVersion"), 1)
			// commit worker goroutine starts after seeding
			for _, b := range fn.Blocks {
				for _, in := range b.Instrs {
					if g, ok := in.(*ssa.Go); ok && Named("NoKV.(*DB).commitWorker")(g.Common()) {
						ok2, n := MustPrecede(fn, g, instrs(ic))
						c.Decide(ok2, r2, key(fn, "go-commitWorker<-initCommitState"), g.Pos(), n, "writes are accepted only after the oracle is seeded", "the commit worker starts before the oracle is seeded")
					}
				}
			}
			for i, r := range Returns(fn) {
				ok2, n := MustPrecede(fn, r, instrs(ic))
				c.Decide(ok2, r2, key(fn, fmt.Sprintf("return[%d]<-initCommitState", i+1)), r.Pos(), n, "Open returns after seeding", "Open can return before seeding the oracle")
			}
		}
	}
	if fn := c.Fn("", "oracle.initCommitState"); fn != nil {
		need(c, r2, fn, false, "nextTxnTs.Store", Named("(*sync/atomic.Uint64).Store"), 1)
		sd := need(c, r2, fn, false, "SetDoneUntil", Named("utils.(*WaterMark).SetDoneUntil"), 2)
		need(c, r2, fn, false, "SetLastIndex", Named("utils.(*WaterMark).SetLastIndex"), 1)
		_ = sd
		// Store argument = committed + 1
		for i, st := range Calls(fn, false, Named("(*sync/atomic.Uint64).Store")) {
			arg := st.Common().Args[len(st.Common().Args)-1]
			good := false
			if bo, ok := arg.(*ssa.BinOp); ok && bo.Op == token.ADD {
				if k, ok := ConstInt(bo.Y); ok && k == 1 {
					if _, isP := bo.X.(*ssa.Parameter); isP {
						good = true
					}
				}
			}
			c.Decide(good, r2, key(fn, fmt.Sprintf("nextTxnTs.Store[%d]#arg=committed+1", i+1)), st.Pos(), 1, "next timestamp = recovered max + 1", "nextTxnTs is not stored as committed+1")
			// guard: only when committed >= current (never lowers); decided by order-sign
			// evaluation over (recovered vs current counter)
			role := func(v ssa.Value) string {
				v = Unwrap(v)
				if len(fn.Params) > 1 && v == fn.Params[1] {
					return "rec"
				}
				if call, ok := v.(*ssa.Call); ok && Named("(*sync/atomic.Uint64).Load")(call.Common()) {
					if _, f, ok := FieldOf(call.Call.Args[0]); ok && f == "nextTxnTs" {
						return "cur"
					}
				}
				return ""
			}
			reach := func(sg int) bool {
				signs := map[string]int{}
				SetSign(signs, "rec", "cur", sg)
				return (&SignEnv{Role: role, Signs: signs, Depth: 1}).Reaches(fn, st.(ssa.Instruction))
			}
			gd := !reach(-1) && reach(0) && reach(1)
			c.Decide(gd, r2, key(fn, fmt.Sprintf("nextTxnTs.Store[%d]#never-lowers", i+1)), st.Pos(), 1, "store is guarded by committed >= current", "nextTxnTs store is not guarded against lowering the counter")
		}
	}

	const r3 = "K6.max-version-covers-every-container"
	c.Rule(r3, "LSM.MaxVersion reads the active memtable, every immutable memtable and the level manager; levelManager.maxVersion visits, for every level, both levelHandler.tables and levelHandler.ingest (as the sibling aggregates close/iterators/Get do); openMemTable raises memTable.maxVersion for every replayed entry; the table builder records the max version of every added key")
	if fn := c.Fn("lsm", "LSM.MaxVersion"); fn != nil {
		reads := fieldReads(fn)
		for _, f := range []string{"lsm.LSM.memTable", "lsm.LSM.immutables", "lsm.LSM.levels"} {
			c.Decide(reads[f], r3, key(fn, "reads:"+f), fn.Pos(), 1, "container consulted", "LSM.MaxVersion does not consult "+f)
		}
		need(c, r3, fn, false, "levelManager.maxVersion", Named("lsm.(*levelManager).maxVersion"), 1)
	}
	if fn := c.Fn("lsm", "levelManager.maxVersion"); fn != nil {
		reads := fieldReadsDeep(c, fn, 2)
		for _, f := range []string{"lsm.levelHandler.tables", "lsm.levelHandler.ingest"} {
			c.Decide(reads[f], r3, key(fn, "reads:"+f), fn.Pos(), len(reads), "container visited", "levelManager.maxVersion does not visit "+f+" (tables held there are ignored when seeding the oracle)")
		}
		mv := Calls(fn, false, Named("lsm.(*table).MaxVersionVal"))
		// (both containers are read – above – and folded by at least one MaxVersionVal loop; one
		// loop over an array of the two containers is the same fold)
		c.Decide(len(mv) >= 1, r3, key(fn, "MaxVersionVal-per-container"), fn.Pos(), len(mv)+1, "max version folded over the containers", "levelManager.maxVersion no longer folds table.MaxVersionVal over the tables it visits")
	}
	if fn := c.Fn("lsm", "LSM.openMemTable"); fn != nil {
		st := fieldStoresIn(fn, true, "lsm.memTable", "maxVersion")
		c.Decide(len(st) >= 1, r3, key(fn, "raises:memTable.maxVersion"), fn.Pos(), 1, "replay raises the memtable's max version", "openMemTable no longer tracks the max version of replayed entries")
	}
	// every builder entry point that adds an entry (fresh or stale) raises tableBuilder.maxVersion,
	// directly or through the shared add helper
	for _, ep := range []string{"tableBuilder.AddKey", "tableBuilder.AddKeyWithLen", "tableBuilder.AddStaleKey", "tableBuilder.AddStaleEntryWithLen"} {
		fn := c.Fn("lsm", ep)
		if fn == nil {
			continue
		}
		c.Decide(storesFieldDeep(c, fn, "lsm.tableBuilder", "maxVersion", 3), r3, key(fn, "raises:tableBuilder.maxVersion"), fn.Pos(), 1, "builder tracks max version on this entry point", ep+" adds an entry without raising tableBuilder.maxVersion: the table's recorded MaxVersion (oracle seed after restart) can be lower than a version it holds")
	}
}

// storesFieldDeep: fn or a module function it statically calls (to the given depth)
// stores to owner.field.
func storesFieldDeep(c *Ctx, fn *ssa.Function, owner, field string, depth int) bool {
	if len(fieldStoresIn(fn, true, owner, field)) > 0 {
		return true
	}
	if depth <= 0 {
		return false
	}
	found := false
	AllInstrs(fn, true, func(in ssa.Instruction) {
		if found {
			return
		}
		if ci, ok := in.(ssa.CallInstruction); ok {
			if f := StaticFn(ci.Common()); f != nil && f.Blocks != nil && InModule(f) && f != fn {
				c.Touch(f)
				if storesFieldDeep(c, f, owner, field, depth-1) {
					found = true
				}
			}
		}
	})
	return found
}

// fieldReads returns "owner.field" for every field address/field value taken in fn.
func fieldReads(fn *ssa.Function) map[string]bool {
	out := map[string]bool{}
	AllInstrs(fn, true, func(in ssa.Instruction) {
		switch x := in.(type) {
		case *ssa.FieldAddr:
			o, f, _ := FieldOf(x)
			out[o+"."+f] = true
		case *ssa.Field:
			o, f, _ := FieldOf(x)
			out[o+"."+f] = true
		}
	})
	return out
}

// fieldReadsDeep also follows static module callees up to depth.
func fieldReadsDeep(c *Ctx, fn *ssa.Function, depth int) map[string]bool {
	out := fieldReads(fn)
	if depth <= 0 {
		return out
	}
	AllInstrs(fn, true, func(in ssa.Instruction) {
		if ci, ok := in.(ssa.CallInstruction); ok {
			if f := StaticFn(ci.Common()); f != nil && f.Blocks != nil && InModule(f) {
				c.Touch(f)
				for k := range fieldReadsDeep(c, f, depth-1) {
					out[k] = true
				}
			}
		}
	})
	return out
}

func C32(c *Ctx) {
	c.Note("all interleavings; tryAdvance reading a window that is replaced before its CAS; waiter wake-up liveness")
	watermarkSlotExclusionGroup(c, "K2.watermark-slot-updates-exclude-rebuild")
	const r1 = "K1.watermark-publish-order"
	c.Rule(r1, "WaterMark.Begin/BeginMany increment the pending counter of an index before publishing it as lastIndex")
	watermarkPublishOrder(c, r1)

	const r2 = "K3.doneUntil-writers"
	c.Rule(r2, "WaterMark.doneUntil is written only by tryAdvance (CompareAndSwap from d to d+1) and SetDoneUntil; SetDoneUntil is called only from oracle.initCommitState and the raft peer's snapshot install; lastIndex only moves forward (setLastIndex CAS guarded by index <= cur return)")
	n := 0
	for _, f := range c.P.ModFuncs {
		AllInstrs(f, false, func(in ssa.Instruction) {
			ci, ok := in.(ssa.CallInstruction)
			if !ok {
				return
			}
			o := CalleeObj(ci.Common())
			if o == nil || o.Pkg() == nil || o.Pkg().Path() != "sync/atomic" || len(ci.Common().Args) == 0 {
				return
			}
			ow, fl, ok := FieldOf(ci.Common().Args[0])
			if !ok || ow != "utils.WaterMark" || fl != "doneUntil" {
				return
			}
			if strings.HasPrefix(o.Name(), "Load") {
				return
			}
			n++
			name := FuncName(Root(f))
			allowed := map[string]string{"(*utils.WaterMark).tryAdvance": "CompareAndSwapUint64", "(*utils.WaterMark).SetDoneUntil": "SwapUint64"}
			want, okA := allowed[name]
			c.Decide(okA && want == o.Name(), r2, "utils.WaterMark.doneUntil#mutator:"+name+":"+o.Name(), in.Pos(), 1, "allowed mutator", "doneUntil is mutated by "+name+" via "+o.Name())
		})
	}
	c.Floor(r2, n, 2, "mutators of WaterMark.doneUntil")
	onlyCallers(c, r2, c.Fn("utils", "WaterMark.SetDoneUntil"), map[string]string{
		"(*NoKV.oracle).initCommitState":             "seeding at Open, before first use",
		"(*raftstore/peer.Peer).markSnapshotApplied": "raft snapshot install moves the applied mark to the snapshot index",
	}, 2)

	const r4 = "K2.window-rebuild-keeps-pending"
	watermarkWindowGroup(c, r4)
	const r3 = "K1.advance-guards"
	c.Rule(r3, "WaterMark.tryAdvance performs its CompareAndSwap(doneUntil, doneUntil+1) only behind the false edge of slot.Load() > 0 and behind doneUntil < lastIndex; WaitForMark re-checks DoneUntil under the mutex before registering a waiter; Done decrements (addIndex(-1)) and Begin increments (+1)")
	if fn := c.Fn("utils", "WaterMark.tryAdvance"); fn != nil {
		cas := need(c, r3, fn, false, "CompareAndSwapUint64", Named("sync/atomic.CompareAndSwapUint64"), 1)
		for i, cs := range cas {
			in := cs.(ssa.Instruction)
			pending, bound := false, false
			for _, b := range fn.Blocks {
				ifi := ifOf(b)
				if ifi == nil {
					continue
				}
				bo, ok := ifi.Cond.(*ssa.BinOp)
				if !ok {
					continue
				}
				if call, ok := bo.X.(*ssa.Call); ok && Named("(*sync/atomic.Int32).Load")(call.Common()) && bo.Op == token.GTR {
					if z, ok := ConstInt(bo.Y); ok && z == 0 && EdgeDominates(b, b.Succs[1], in.Block()) {
						pending = true
					}
				}
				if bo.Op == token.GEQ {
					if cx, ok := bo.X.(*ssa.Call); ok && Named("utils.(*WaterMark).DoneUntil")(cx.Common()) {
						if cy, ok := bo.Y.(*ssa.Call); ok && Named("utils.(*WaterMark).LastIndex")(cy.Common()) && EdgeDominates(b, b.Succs[1], in.Block()) {
							bound = true
						}
					}
				}
			}
			c.Decide(pending, r3, key(fn, fmt.Sprintf("CAS[%d]<-slot==0", i+1)), in.Pos(), 2, "advance only past an index whose pending count is not positive", "doneUntil can advance past an index whose pending count is positive")
			c.Decide(bound, r3, key(fn, fmt.Sprintf("CAS[%d]<-doneUntil<lastIndex", i+1)), in.Pos(), 2, "advance bounded by lastIndex", "doneUntil can advance beyond lastIndex")
			// new value = old + 1
			args := cs.Common().Args
			good := false
			if bo, ok := args[2].(*ssa.BinOp); ok && bo.Op == token.ADD && bo.X == args[1] {
				if k, ok := ConstInt(bo.Y); ok && k == 1 {
					good = true
				}
			}
			c.Decide(good, r3, key(fn, fmt.Sprintf("CAS[%d]#step=+1", i+1)), in.Pos(), 1, "doneUntil moves one index at a time (monotone)", "CAS does not step doneUntil by exactly +1")
		}
	}
	if fn := c.Fn("utils", "WaterMark.WaitForMark"); fn != nil {
		ls := ComputeLockSets(fn)
		reg := fieldStoresIn(fn, false, "utils.WaterMark", "waiters")
		c.Decide(len(reg) >= 1, r3, key(fn, "has:waiter-registration"), fn.Pos(), 1, "waiter registered", "no waiter registration found")
		underLock(c, r3, fn, ls, "waiter registration", reg, "utils.WaterMark.mu", false)
		du := Calls(fn, false, Named("utils.(*WaterMark).DoneUntil"))
		for i, r := range reg {
			held := false
			for _, d := range du {
				if ls.Holds(d.(ssa.Instruction), "utils.WaterMark.mu", false) && Dominates(d.(ssa.Instruction), r) {
					held = true
				}
			}
			c.Decide(held, r3, key(fn, fmt.Sprintf("waiter-registration[%d]<-recheck-under-lock", i+1)), r.Pos(), 2, "DoneUntil is re-checked under the mutex before registering", "a waiter is registered without re-checking DoneUntil under the mutex (lost wake-up)")
		}
	}
	for name, want := range map[string]int64{"WaterMark.Done": -1, "WaterMark.DoneMany": -1, "WaterMark.Begin": 1, "WaterMark.BeginMany": 1} {
		if fn := c.Fn("utils", name); fn != nil {
			for i, a := range need(c, r3, fn, false, "addIndex", Named("utils.(*WaterMark).addIndex"), 1) {
				d, ok := ConstInt(a.Common().Args[len(a.Common().Args)-1])
				c.Decide(ok && d == want, r3, key(fn, fmt.Sprintf("addIndex[%d]#delta", i+1)), a.Pos(), 1, fmt.Sprintf("delta %d", want), fmt.Sprintf("addIndex delta is not %d", want))
			}
		}
	}
	if fn := c.Fn("utils", "WaterMark.setLastIndex"); fn != nil {
		cas := need(c, r3, fn, false, "CompareAndSwapUint64", Named("sync/atomic.CompareAndSwapUint64"), 1)
		for i, cs := range cas {
			gd := false
			for _, b := range fn.Blocks {
				if ifi := ifOf(b); ifi != nil {
					if bo, ok := ifi.Cond.(*ssa.BinOp); ok && bo.Op == token.LEQ && EdgeDominates(b, b.Succs[1], cs.Block()) {
						gd = true
					}
				}
			}
			c.Decide(gd, r3, key(fn, fmt.Sprintf("CAS[%d]<-index>cur", i+1)), cs.Pos(), 1, "lastIndex only moves forward", "lastIndex CAS is not guarded by index > current")
		}
	}
}

func C33(c *Ctx) {
	c.Note("processes that do not use flock; NFS semantics; the lock held across fork")
	const r1 = "K1.unlink-under-lock"
	c.Rule(r1, "DirLock.Release never unlinks the lock file after the flock was dropped (LOCK_UN) or the descriptor closed; AcquireDirLock's success is dominated by Flock(LOCK_EX|LOCK_NB)==nil and by a re-validation that the locked descriptor is still the file linked at the path (os.SameFile of f.Stat and fs.Stat)")
	if fn := c.Fn("utils", "DirLock.Release"); fn != nil {
		rm := Calls(fn, false, Named("(vfs.FS).Remove"))
		var drops []ssa.Instruction
		for _, fl := range Calls(fn, false, Named("syscall.Flock")) {
			drops = append(drops, fl.(ssa.Instruction))
		}
		for _, cl := range Calls(fn, false, Named("(vfs.File).Close", "(io.Closer).Close")) {
			drops = append(drops, cl.(ssa.Instruction))
		}
		c.Decide(len(drops) >= 2, r1, key(fn, "has:unlock+close"), fn.Pos(), len(drops)+1, "unlock and close present", "Release no longer unlocks and closes the descriptor")
		revalidates := acquireRevalidates(c, r1)
		for i, r := range rm {
			bad := false
			n := 0
			for _, d := range drops {
				reach, m := CutReach(fn, d, r.(ssa.Instruction), nil, nil)
				n += m
				if reach {
					bad = true
				}
			}
			k := key(fn, fmt.Sprintf("Remove[%d]#not-after-unlock", i+1))
			if !bad {
				c.Pass(r1, k, r.Pos(), n, "the lock file is unlinked while the flock is still held")
			} else {
				c.Fail(r1, k, r.Pos(), n, "the lock file is unlinked after the flock was dropped / descriptor closed: a process that locked the old inode in between and a process that creates a new LOCK file both hold the directory (acquire re-validates: %v)", revalidates)
			}
		}
	}
	acquireRevalidates(c, r1)
	// acquire path: flock success dominates DirLock construction
	for _, name := range []string{"tryAcquireDirLock", "AcquireDirLock"} {
		fn := c.FnOpt("utils", name)
		if fn == nil {
			continue
		}
		fl := Calls(fn, false, Named("syscall.Flock"))
		if len(fl) == 0 {
			continue
		}
		// construction of &DirLock{...}
		var allocs []ssa.Instruction
		AllInstrs(fn, false, func(in ssa.Instruction) {
			if a, ok := in.(*ssa.Alloc); ok && a.Heap && TypeName(a.Type()) == "utils.DirLock" {
				allocs = append(allocs, in)
			}
		})
		c.Decide(len(allocs) >= 1, r1, key(fn, "has:DirLock-construction"), fn.Pos(), 1, "lock object constructed here", "no DirLock construction found next to Flock")
		for i, a := range allocs {
			succOK(c, r1, key(fn, fmt.Sprintf("DirLock[%d]<-ok(Flock)", i+1)), fn, fl, "Flock(LOCK_EX|LOCK_NB)", a, "DirLock construction")
		}
		// flags: LOCK_EX|LOCK_NB == 2|4 = 6
		for i, f := range fl {
			v, ok := ConstInt(f.Common().Args[1])
			c.Decide(ok && v == 6, r1, key(fn, fmt.Sprintf("Flock[%d]#flags", i+1)), f.Pos(), 1, "exclusive non-blocking lock", "Flock is not called with LOCK_EX|LOCK_NB")
		}
	}
	const r2 = "K1.lock-before-files"
	c.Rule(r2, "NoKV.Open acquires the directory lock (via utils.Panic on failure) before recovery checks, WAL, LSM and value log are opened; closeInternal releases it after all of them are closed (C12)")
	if fn := c.Fn("", "Open"); fn != nil {
		acq := Named("utils.AcquireDirLock")
		for _, t := range []string{"NoKV.(*DB).runRecoveryChecks", "wal.Open", "lsm.NewLSM", "NoKV.(*DB).initVLog"} {
			beforeOK(c, r2, fn, "AcquireDirLock", acq, t, Named(t), 1)
		}
	}
}

// acquireRevalidates: some function in utils that calls Flock also calls os.SameFile
// (directly or via a helper) on a path that dominates its success.
func acquireRevalidates(c *Ctx, rule string) bool {
	for _, name := range []string{"tryAcquireDirLock", "AcquireDirLock"} {
		fn := c.FnOpt("utils", name)
		if fn == nil || len(Calls(fn, false, Named("syscall.Flock"))) == 0 {
			continue
		}
		// helper calling os.SameFile with both f.Stat() and fs.Stat(path)
		for _, ci := range Calls(fn, false, func(cc *ssa.CallCommon) bool {
			f := StaticFn(cc)
			if f == nil || !InModule(f) {
				return Named("os.SameFile")(cc)
			}
			return len(Calls(f, false, Named("os.SameFile"))) > 0 && len(Calls(f, false, Named("(vfs.File).Stat"))) > 0 && len(Calls(f, false, Named("(vfs.FS).Stat"))) > 0
		}) {
			// the construction of DirLock must lie on the true edge of the validation
			var allocs []ssa.Instruction
			AllInstrs(fn, false, func(in ssa.Instruction) {
				if a, ok := in.(*ssa.Alloc); ok && a.Heap && TypeName(a.Type()) == "utils.DirLock" {
					allocs = append(allocs, in)
				}
			})
			good := len(allocs) > 0
			for _, a := range allocs {
				if ok, _ := guardedByCall(fn, a, func(cc *ssa.CallCommon) bool { return cc == ci.Common() }, true); !ok {
					good = false
				}
			}
			flockBefore := false
			for _, fl := range Calls(fn, false, Named("syscall.Flock")) {
				if Dominates(fl.(ssa.Instruction), ci.(ssa.Instruction)) {
					flockBefore = true
				}
			}
			k := key(fn, "success<-same-file-revalidation")
			c.Decide(good && flockBefore, rule, k, ci.Pos(), 3, "after Flock the descriptor is re-validated against the path; success lies on the same-file edge", "identity re-validation does not guard the successful acquisition")
			return good && flockBefore
		}
	}
	if fn := c.FnOpt("utils", "AcquireDirLock"); fn != nil {
		c.Fail(rule, key(fn, "success<-same-file-revalidation"), fn.Pos(), 1, "AcquireDirLock does not re-validate that the locked descriptor is still the file at the lock path")
	}
	return false
}

func C36(c *Ctx) {
	c.Note("correctness of the raft pointers themselves; out-of-order flush completion vs the manifest log pointer")
	const r1 = "K3.remove-segment-sites"
	c.Rule(r1, "wal.Manager.RemoveSegment is called from exactly the confirmed sites: levelManager.flush (empty memtable, after install), LSM.recovery, Watchdog.observe")
	rs := c.Fn("wal", "Manager.RemoveSegment")
	onlyCallers(c, r1, rs, map[string]string{
		"(*lsm.levelManager).flush": "after flush / empty memtable",
		"(*lsm.LSM).recovery":       "segments at or below the manifest log pointer",
		"(*wal.Watchdog).observe":   "raft backlog GC",
	}, 3)

	const r2 = "K2.remove-segment-guards"
	c.Rule(r2, "every RemoveSegment call site carries an LSM guard (the segment's entries are in an installed table: behind LogEdits(fileEdit,pointerEdit)==nil for that memtable, or fid <= manifest log pointer, or the memtable iterator is empty) AND a raft guard (true edge of canRemoveWalSegment(id), or membership in AnalyzeWALBacklog(...).RemovableSegments which is derived from the raft pointers)")
	rm := Named("wal.(*Manager).RemoveSegment")
	canRm := Named("lsm.(*levelManager).canRemoveWalSegment")
	if fn := c.Fn("lsm", "levelManager.flush"); fn != nil {
		les := Calls(fn, false, Named("manifest.(*Manager).LogEdits"))
		isRm := func(ci ssa.CallInstruction) bool { return rm(ci.Common()) }
		sites := effectSites(c, fn, isRm, 3)
		c.Decide(len(sites) >= 1, r2, key(fn, "has:RemoveSegment"), fn.Pos(), len(sites)+1, fmt.Sprintf("%d removal site(s)", len(sites)), "flush no longer removes the flushed memtable's WAL segment (directly or through a helper)")
		// chain(f, site): guards that hold for every RemoveSegment executed under site, looking through
		// same-package helpers and deferred closures.  A deferred site runs on every exit, so nothing
		// established at the defer statement holds for it.
		var chain func(f *ssa.Function, s ssa.CallInstruction, depth int) (lsm, raft, id bool)
		chain = func(f *ssa.Function, s ssa.CallInstruction, depth int) (bool, bool, bool) {
			in := s.(ssa.Instruction)
			_, deferred := in.(*ssa.Defer)
			var l, r bool
			if !deferred {
				l, _ = guardedByCall(f, in, MethodNamed("utils.Iterator", "Valid"), false)
				if !l {
					l = succOKq(f, Calls(f, false, Named("manifest.(*Manager).LogEdits")), in)
				}
				r, _ = guardedByCall(f, in, canRm, true)
			}
			if isRm(s) {
				arg := s.Common().Args[len(s.Common().Args)-1]
				return l, r, derivedFromField(arg, "lsm.memTable", "segmentID", 5) || derivedFromParamOrFree(arg, 5)
			}
			h := StaticFn(s.Common())
			if h == nil || depth <= 0 {
				return false, false, false
			}
			al, ar, ai := true, true, true
			for _, s2 := range effectSites(c, h, isRm, depth-1) {
				l2, r2, i2 := chain(h, s2, depth-1)
				al, ar, ai = al && (l || l2), ar && (r || r2), ai && i2
			}
			return al, ar, ai
		}
		_ = les
		for i, s := range sites {
			_, deferred := s.(*ssa.Defer)
			lsmOK, raftOK, idOK := chain(fn, s, 3)
			c.Decide(lsmOK, r2, key(fn, fmt.Sprintf("RemoveSegment[%d]#G-lsm", i+1)), s.Pos(), 2, "LSM guard present (empty memtable or manifest edit succeeded)", "a WAL segment can be removed without the LSM-flushed guard (manifest edit not known to have succeeded"+ifs(deferred, "; the removal is deferred and runs on the failure exits too", "")+"): acknowledged writes that live only in that segment are lost on restart")
			c.Decide(raftOK, r2, key(fn, fmt.Sprintf("RemoveSegment[%d]#G-raft", i+1)), s.Pos(), 2, "raft guard present (canRemoveWalSegment)", "RemoveSegment without the raft-pointer guard (canRemoveWalSegment): raft log records in the shared segment can be deleted before the group truncated them")
			// the removed id is this memtable's segment
			c.Decide(idOK, r2, key(fn, fmt.Sprintf("RemoveSegment[%d]#id=segmentID", i+1)), s.Pos(), 1, "removes the flushed memtable's own segment", "RemoveSegment's id is not the flushed memtable's segmentID")
		}
	}
	if fn := c.Fn("lsm", "LSM.recovery"); fn != nil {
		// the removal may live in a helper of recovery that receives the log pointer; decided by
		// order-sign evaluation over (fid vs manifest log pointer) × (canRemoveWalSegment answer)
		isRm := func(ci ssa.CallInstruction) bool { return rm(ci.Common()) }
		sites := effectSites(c, fn, isRm, 1)
		c.Decide(len(sites) >= 1, r2, key(fn, "has:RemoveSegment"), fn.Pos(), len(sites)+1, fmt.Sprintf("%d removal site(s)", len(sites)), "expected at least 1 call(s) to RemoveSegment in (*lsm.LSM).recovery, found 0")
		lp := Calls(fn, false, Named("lsm.(*levelManager).logPointer"))
		n := 0
		for _, site := range sites {
			g := fn
			segVals := func(v ssa.Value) bool { return len(lp) > 0 && derivedFrom(v, valuesOf(lp), 4) }
			if !isRm(site) {
				g = StaticFn(site.Common())
				params := map[ssa.Value]bool{}
				for i, a := range site.Common().Args {
					if i < len(g.Params) && len(lp) > 0 && derivedFrom(a, valuesOf(lp), 4) {
						params[g.Params[i]] = true
					}
				}
				segVals = func(v ssa.Value) bool { return params[v] }
			}
			for _, s := range Calls(g, false, rm) {
				n++
				in := s.(ssa.Instruction)
				idArg := s.Common().Args[len(s.Common().Args)-1]
				role := func(v ssa.Value) string {
					v = Unwrap(v)
					if v == Unwrap(idArg) {
						return "fid"
					}
					if segVals(v) {
						return "seg"
					}
					return ""
				}
				reach := func(cmp int, can Tri) bool {
					signs := map[string]int{}
					SetSign(signs, "fid", "seg", cmp)
					env := &SignEnv{Role: role, Signs: signs, Depth: 1, Bool: func(v ssa.Value) Tri {
						if call, ok := v.(*ssa.Call); ok && canRm(call.Common()) {
							return can
						}
						return Unknown
					}}
					return env.Reaches(g, in)
				}
				lsmOK := !reach(1, True) && reach(0, True) && reach(-1, True)
				raftOK := !reach(0, False) && !reach(-1, False)
				c.Decide(lsmOK, r2, key(fn, fmt.Sprintf("RemoveSegment[%d]#G-lsm", n)), s.Pos(), 3, "only segments at or below the manifest log pointer", "recovery removes a segment not known to be at or below the manifest log pointer")
				c.Decide(raftOK, r2, key(fn, fmt.Sprintf("RemoveSegment[%d]#G-raft", n)), s.Pos(), 2, "raft guard present", "recovery removes a segment without canRemoveWalSegment")
			}
		}
	}
	if fn := c.Fn("wal", "Watchdog.observe"); fn != nil {
		// the removal loop may live in a helper of observe that is handed the removable ids
		isRmW := func(ci ssa.CallInstruction) bool { return rm(ci.Common()) }
		sites := effectSites(c, fn, isRmW, 1)
		c.Decide(len(sites) >= 1, r2, key(fn, "has:RemoveSegment"), fn.Pos(), len(sites)+1, fmt.Sprintf("%d removal site(s)", len(sites)), "expected at least 1 call(s) to RemoveSegment in (*wal.Watchdog).observe, found 0")
		n := 0
		for _, site := range sites {
			g := fn
			fromRemovable := func(v ssa.Value) bool {
				return rangesOverField(v, "metrics.WALBacklogAnalysis", "RemovableSegments", 6)
			}
			if !isRmW(site) {
				g = StaticFn(site.Common())
				okParam := map[ssa.Value]bool{}
				for i, a := range site.Common().Args {
					if i < len(g.Params) && (fromRemovable(a) || sliceOfField(a, "metrics.WALBacklogAnalysis", "RemovableSegments", 6)) {
						okParam[g.Params[i]] = true
					}
				}
				fromRemovable = func(v ssa.Value) bool { return rangesOverParam(v, okParam, 6) }
			}
			for _, s := range Calls(g, false, rm) {
				n++
				// raft guard: id ranges over analysis.RemovableSegments
				arg := s.Common().Args[len(s.Common().Args)-1]
				raftOK := fromRemovable(arg)
				c.Decide(raftOK, r2, key(fn, fmt.Sprintf("RemoveSegment[%d]#G-raft", n)), s.Pos(), 2, "ids come from AnalyzeWALBacklog(...).RemovableSegments (below every raft pointer)", "watchdog removes ids not taken from RemovableSegments")
				// LSM guard: none of the accepted forms
				lsmOK := false
				for _, hf := range []*ssa.Function{fn, g} {
					for _, m := range []Matcher{canRm, Named("lsm.(*levelManager).logPointer"), Named("manifest.(*Manager).Current")} {
						if len(Calls(hf, true, m)) > 0 {
							lsmOK = true
						}
					}
					if f := fieldReads(hf); f["wal.Watchdog.logPointer"] || f["wal.Watchdog.flushedSegment"] {
						lsmOK = true
					}
				}
				c.Decide(lsmOK, r2, key(fn, fmt.Sprintf("RemoveSegment[%d]#G-lsm", n)), s.Pos(), 2, "LSM guard present", "the watchdog removes a segment below the raft retain point without knowing that the LSM entries in it are flushed (no manifest log pointer / flushed-segment input)")
			}
		}
	}
	watchdogUntruncatedGroup(c, "K2.watchdog-keeps-untruncated-groups")
	const r4 = "K11.flush-order"
	flushOrderGroup(c, r4)
	const r3 = "K2.can-remove-shape"
	c.Rule(r3, "levelManager.canRemoveWalSegment returns false for id >= any raft group's Segment or SegmentIndex (operators >=), and true only after all pointers were examined")
	if fn := c.Fn("lsm", "levelManager.canRemoveWalSegment"); fn != nil {
		geq := 0
		for _, b := range fn.Blocks {
			if ifi := ifOf(b); ifi != nil {
				if bo, ok := ifi.Cond.(*ssa.BinOp); ok && bo.Op == token.GEQ {
					if _, isP := Unwrap(bo.X).(*ssa.Parameter); isP {
						// true edge returns false
						if r, ok := b.Succs[0].Instrs[len(b.Succs[0].Instrs)-1].(*ssa.Return); ok {
							if cst, ok := r.Results[0].(*ssa.Const); ok && cst.Value != nil && cst.Value.String() == "false" {
								geq++
							}
						}
					}
				}
			}
		}
		c.Decide(geq >= 2, r3, key(fn, "id>=pointer→false"), fn.Pos(), geq+1, "both pointer forms refuse removal with >=", fmt.Sprintf("expected two `id >= pointer ⇒ false` tests (Segment and SegmentIndex), found %d", geq))
		need(c, r3, fn, false, "RaftPointerSnapshot", Named("manifest.(*Manager).RaftPointerSnapshot"), 1)
		// a group without a truncation point (SegmentIndex == 0) still needs every raft record it wrote:
		// the per-segment raft record count must be able to veto the removal (a `return false` is
		// reachable on the RaftRecords() > 0 edge), not merely be logged
		veto := false
		for _, rr := range Calls(fn, false, Named("wal.(RecordMetrics).RaftRecords", "wal.(*RecordMetrics).RaftRecords", "metrics.(WALRecordMetrics).RaftRecords")) {
			call, _ := rr.(*ssa.Call)
			if call == nil {
				continue
			}
			for _, b := range fn.Blocks {
				ifi := ifOf(b)
				if ifi == nil {
					continue
				}
				bo, ok := ifi.Cond.(*ssa.BinOp)
				if !ok || Unwrap(bo.X) != ssa.Value(call) {
					continue
				}
				// from the "has raft records" edge some return false must be reachable
				seen := map[*ssa.BasicBlock]bool{}
				var walk func(x *ssa.BasicBlock)
				walk = func(x *ssa.BasicBlock) {
					if seen[x] {
						return
					}
					seen[x] = true
					if r, ok := x.Instrs[len(x.Instrs)-1].(*ssa.Return); ok {
						// a return that can answer false: the constant false, or a computed
						// answer such as `!untruncated`
						if cst, ok := r.Results[0].(*ssa.Const); !ok || (cst.Value != nil && cst.Value.String() == "false") {
							veto = true
						}
						return
					}
					for _, s2 := range x.Succs {
						walk(s2)
					}
				}
				hasRecords := b.Succs[0]
				if bo.Op == token.EQL || bo.Op == token.LEQ {
					hasRecords = b.Succs[1]
				}
				walk(hasRecords)
			}
		}
		c.Decide(veto, r3, key(fn, "raft-records-veto-when-untruncated"), fn.Pos(), 2, "a segment with raft records is kept while some group has no truncation point", "canRemoveWalSegment only logs that a segment still holds raft records: for a group that never truncated its log (SegmentIndex == 0) every segment older than its latest record is removed although it holds live log entries, and the raft storage cannot be reopened (missing log entry)")
	}
}

// derivedFromField: v is (a conversion of) a load of owner.field.
func derivedFromField(v ssa.Value, owner, field string, depth int) bool {
	if depth <= 0 {
		return false
	}
	if isFieldLoad(v, owner, field) {
		return true
	}
	switch x := v.(type) {
	case *ssa.Convert:
		return derivedFromField(x.X, owner, field, depth-1)
	case *ssa.ChangeType:
		return derivedFromField(x.X, owner, field, depth-1)
	case *ssa.Phi:
		for _, e := range x.Edges {
			if derivedFromField(e, owner, field, depth-1) {
				return true
			}
		}
	}
	return false
}

// derivedFromParamOrFree: v is (a conversion of) a parameter or captured variable of a helper —
// the id was chosen by the caller, whose own argument is checked at its frame.
func derivedFromParamOrFree(v ssa.Value, depth int) bool {
	if depth <= 0 {
		return false
	}
	switch x := Unwrap(v).(type) {
	case *ssa.Parameter:
		return true
	case *ssa.FreeVar:
		return true
	case *ssa.UnOp:
		if x.Op == token.MUL {
			_, isFree := x.X.(*ssa.FreeVar)
			return isFree
		}
	case *ssa.Phi:
		for _, e := range x.Edges {
			if !derivedFromParamOrFree(e, depth-1) {
				return false
			}
		}
		return true
	}
	return false
}

// rangesOverField: v is an element loaded from (a reslice of) owner.field.
func rangesOverField(v ssa.Value, owner, field string, depth int) bool {
	if depth <= 0 {
		return false
	}
	switch x := v.(type) {
	case *ssa.UnOp:
		if x.Op == token.MUL {
			if ia, ok := x.X.(*ssa.IndexAddr); ok {
				return rangesOverField(ia.X, owner, field, depth-1)
			}
			if o, f, ok := FieldOf(x.X); ok && o == owner && f == field {
				return true
			}
		}
	case *ssa.Field:
		if o, f, ok := FieldOf(x); ok && o == owner && f == field {
			return true
		}
	case *ssa.Slice:
		return rangesOverField(x.X, owner, field, depth-1)
	case *ssa.Phi:
		for _, e := range x.Edges {
			if rangesOverField(e, owner, field, depth-1) {
				return true
			}
		}
	case *ssa.Index:
		return rangesOverField(x.X, owner, field, depth-1)
	}
	return false
}

func C37(c *Ctx) {
	c.Note("termination itself; lock-order cycles across goroutines; channel capacity arguments; fairness")
	watermarkSlotExclusionGroup(c, "K2.watermark-slot-updates-exclude-rebuild")
	compactionReservationGroup(c, "K14.compaction-reservation-released")
	throttleErrorReportGroup(c, "K15.throttle-error-report-cannot-block")
	levelReadLockGroup(c, "K16.no-recursive-level-read-lock")
	memTableSizePositiveGroup(c, "K17.memtable-size-positive")
	const r0 = "K13.commit-mark-released"
	c.Rule(r0, "after a successful newCommitTs every continuation of Txn.commitAndSend marks exactly that timestamp done (doneCommit(commitTs) on the send-error return and in the completion callback after request.Wait): a begun commit timestamp that is never marked done stops txnMark, and every later oracle.readTs — and Close — waits forever")
	doneCommitPairing(c, r0)
	entryRefOwnershipGroup(c, "K13.entry-ref-ownership")
	const r1 = "K1.close-guarded-waits"
	c.Rule(r1, "every indefinite wait on the write path has a close-guarded exit: sendToWriteCh's throttle loop tests isClosed/commitQueue.closed; commitQueue.acquireSpace selects on closeCh; acquireItem returns when closed and drained; pop returns nil when closed and empty; commitWorker exits on a nil batch and releases commitWG; every commitWorker path that took a batch acknowledges it (wg.Done reaches every request)")
	if fn := c.Fn("", "DB.sendToWriteCh"); fn != nil {
		// inside the throttle loop (in sendToWriteCh or a helper it calls), DB.isClosed and
		// commitQueue.closed are both consulted – by an atomic load or by a method that performs it
		loadsField := func(f *ssa.Function) map[string]bool {
			out := map[string]bool{}
			for _, ci := range Calls(f, false, Named("sync/atomic.LoadUint32")) {
				if o, fl, ok := FieldOf(ci.Common().Args[0]); ok && ((o == "NoKV.DB" && fl == "isClosed") || (o == "NoKV.commitQueue" && fl == "closed")) {
					out[o+"."+fl] = true
				}
			}
			return out
		}
		tested := map[string]bool{}
		scan := func(g *ssa.Function) {
			AllInstrs(g, false, func(in ssa.Instruction) {
				ci, ok := in.(ssa.CallInstruction)
				if !ok || !blockInLoop(in.Block()) {
					return
				}
				if Named("sync/atomic.LoadUint32")(ci.Common()) {
					if o, fl, ok := FieldOf(ci.Common().Args[0]); ok && ((o == "NoKV.DB" && fl == "isClosed") || (o == "NoKV.commitQueue" && fl == "closed")) {
						tested[o+"."+fl] = true
					}
					return
				}
				if h := StaticFn(ci.Common()); h != nil && h.Blocks != nil && FuncPkgPath(h) == FuncPkgPath(fn) {
					for k := range loadsField(h) {
						tested[k] = true
					}
				}
			})
		}
		scan(fn)
		AllInstrs(fn, false, func(in ssa.Instruction) {
			if ci, ok := in.(ssa.CallInstruction); ok {
				if h := StaticFn(ci.Common()); h != nil && h.Blocks != nil && h != fn && FuncPkgPath(h) == FuncPkgPath(fn) {
					scan(h)
				}
			}
		})
		found := len(tested)
		c.Decide(found >= 2, r1, key(fn, "throttle-loop#closed-exit"), fn.Pos(), found+1, "throttle loop tests DB.isClosed and commitQueue.closed", fmt.Sprintf("throttle wait loop has %d close tests (expected isClosed and commitQueue.closed)", found))
	}
	if fn := c.Fn("", "commitQueue.acquireSpace"); fn != nil {
		selectHas(c, r1, fn, "NoKV.commitQueue", "closeCh")
	}
	if fn := c.Fn("", "commitQueue.acquireItem"); fn != nil {
		selectHas(c, r1, fn, "NoKV.commitQueue", "closeCh")
		falseRet := 0
		for _, r := range Returns(fn) {
			if cst, ok := r.Results[0].(*ssa.Const); ok && cst.Value != nil && cst.Value.String() == "false" {
				falseRet++
			}
		}
		c.Decide(falseRet >= 1, r1, key(fn, "returns-false-when-closed"), fn.Pos(), 1, "reports closed+drained", "acquireItem can never report that the queue is closed")
	}
	if fn := c.Fn("", "commitQueue.pop"); fn != nil {
		nilRet := 0
		for _, r := range Returns(fn) {
			if IsNilConst(r.Results[0]) {
				nilRet++
			}
		}
		c.Decide(nilRet >= 1, r1, key(fn, "returns-nil-when-closed"), fn.Pos(), 1, "pop returns nil when closed and empty", "pop can spin forever: no nil return for the closed+empty state")
	}
	if fn := c.Fn("", "commitQueue.close"); fn != nil {
		closes := 0
		AllInstrs(fn, false, func(in ssa.Instruction) {
			if call, ok := in.(*ssa.Call); ok {
				if bi, ok := call.Call.Value.(*ssa.Builtin); ok && bi.Name() == "close" {
					if o, f, ok := FieldOf(call.Call.Args[0]); ok && o == "NoKV.commitQueue" && f == "closeCh" {
						closes++
					}
				}
			}
		})
		c.Decide(closes == 1, r1, key(fn, "closes:closeCh"), fn.Pos(), 1, "close signals closeCh", "commitQueue.close does not close closeCh (waiters never wake)")
		need(c, r1, fn, false, "ring.Close", MethodNamed("utils.Ring", "Close"), 1)
	}
	if fn, sites := ackSites(c); fn != nil {
		// every loop iteration that obtained a batch reaches an acknowledgement before the next iteration / return
		loop := c.Fn("", "DB.commitWorker")
		nb := Calls(loop, false, Named("NoKV.(*DB).nextCommitBatch"))
		c.Decide(len(nb) == 1, r1, key(fn, "single:nextCommitBatch"), fn.Pos(), 1, "one batch per iteration", "commitWorker takes batches at more than one site")
		var acks []ssa.Instruction
		for _, s := range sites {
			acks = append(acks, s.call.(ssa.Instruction))
		}
		if len(nb) == 1 && fn == loop {
			// from nextCommitBatch, can we get back to nextCommitBatch without passing an ack (other than via the nil-batch return)?
			reach, n := CutReach(fn, nb[0].(ssa.Instruction), nb[0].(ssa.Instruction), acks, nil)
			c.Decide(!reach, r1, key(fn, "batch->ack-before-next"), nb[0].Pos(), n, "every taken batch is acknowledged before the next one is taken", "a commitWorker path takes the next batch without acknowledging the previous one (its writers block forever)")
			bad := false
			m := 0
			for _, r := range Returns(fn) {
				if fn.Recover != nil && r.Block() == fn.Recover {
					continue
				}
				rr, k := CutReach(fn, nb[0].(ssa.Instruction), r, acks, nilBatchEdges(fn, nb[0]))
				m += k
				if rr {
					bad = true
				}
			}
			c.Decide(!bad, r1, key(fn, "batch->ack-before-return"), nb[0].Pos(), m, "the worker returns only on a nil batch or after acknowledging", "commitWorker can return while holding an unacknowledged batch")
		} else if len(nb) == 1 {
			// the loop body lives in its own function: every return of it has acknowledged the
			// batch, and the loop calls it for every non-nil batch
			bad, m := false, 0
			for _, r := range Returns(fn) {
				if fn.Recover != nil && r.Block() == fn.Recover {
					continue
				}
				pre, k := MustPrecede(fn, r, acks)
				m += k
				if !pre {
					bad = true
				}
			}
			c.Decide(!bad, r1, key(fn, "batch->ack-before-next"), fn.Pos(), m, "every taken batch is acknowledged before the next one is taken", "a commitWorker path takes the next batch without acknowledging the previous one (its writers block forever)")
			var calls []ssa.Instruction
			for _, ci := range Calls(loop, false, Fnm(fn)) {
				calls = append(calls, ci.(ssa.Instruction))
			}
			reach, n := CutReach(loop, nb[0].(ssa.Instruction), nb[0].(ssa.Instruction), calls, nilBatchEdges(loop, nb[0]))
			c.Decide(!reach && len(calls) > 0, r1, key(fn, "batch->ack-before-return"), nb[0].Pos(), n, "every non-nil batch is handed to the processing function", "commitWorker can take the next batch without processing the previous one")
		}
		fn = loop
		// defer commitWG.Done
		dd := 0
		AllInstrs(fn, false, func(in ssa.Instruction) {
			if d, ok := in.(*ssa.Defer); ok && Named("(*sync.WaitGroup).Done")(d.Common()) {
				dd++
			}
		})
		c.Decide(dd == 1, r1, key(fn, "defer:commitWG.Done"), fn.Pos(), 1, "worker exit releases commitWG", "commitWorker does not defer commitWG.Done (Close waits forever)")
	}
	if fn := c.Fn("", "DB.finishCommitRequests"); fn != nil {
		// wg.Done is not conditional on anything but the nil-request skip
		for i, d := range need(c, r1, fn, false, "wg.Done", Named("(*sync.WaitGroup).Done"), 1) {
			n := 0
			for _, b := range fn.Blocks {
				if ifi := ifOf(b); ifi != nil && b.Dominates(d.Block()) && b != d.Block() {
					r0 := blockReachesAvoiding(b.Succs[0], d.Block(), map[*ssa.BasicBlock]bool{b: true})
					r1x := blockReachesAvoiding(b.Succs[1], d.Block(), map[*ssa.BasicBlock]bool{b: true})
					if r0 != r1x {
						n++
					}
				}
			}
			// expected deciding branches: loop condition, cr==nil||cr.req==nil (2 tests)
			c.Decide(n <= 3, r1, key(fn, fmt.Sprintf("wg.Done[%d]#unconditional", i+1)), d.Pos(), n+1, "every non-nil request is released", fmt.Sprintf("wg.Done is guarded by %d conditions (expected only the loop and nil-request tests): some waiter may never be released", n))
		}
	}
	if fn := c.Fn("", "DB.sendToWriteCh"); fn != nil {
		// a failed enqueue releases the waiter it registered (wg.Add(1) then wg.Done on error)
		add := Calls(fn, false, Named("(*sync.WaitGroup).Add"))
		done := Calls(fn, false, Named("(*sync.WaitGroup).Done"))
		c.Decide(len(add) == 1 && len(done) == 1, r1, key(fn, "wg.Add/Done-on-enqueue-error"), fn.Pos(), 2, "the registered waiter is released when enqueue fails", "sendToWriteCh registers a waiter (wg.Add) without releasing it on the enqueue-error path")
	}

	const r2 = "K4.lock-pairing"
	c.Rule(r2, "in packages NoKV, lsm, wal, vlog, manifest, utils, percolator/latch and pd/core every mutex acquired inside a function is released on every return of that function (directly or by defer), except functions that are pure acquire or pure release wrappers")
	pairingPkgs := map[string]bool{Module: true, Module + "/lsm": true, Module + "/wal": true, Module + "/vlog": true, Module + "/manifest": true,
		Module + "/utils": true, Module + "/pd/core": true, Module + "/pd/storage": true, Module + "/pd/server": true, Module + "/raftstore/store": true, Module + "/raftstore/peer": true,
		Module + "/raftstore/engine": true, Module + "/lsm/flush": true, Module + "/lsm/compact": true}
	nf := 0
	for _, f := range c.P.ModFuncs {
		if !pairingPkgs[FuncPkgPath(f)] {
			continue
		}
		locks, unlocks, defers := 0, 0, 0
		AllInstrs(f, false, func(in ssa.Instruction) {
			if op := LockOpOf(in); op != nil {
				switch {
				case op.Defer:
					defers++
				case op.Op == "Lock" || op.Op == "RLock":
					locks++
				case op.Op == "Unlock" || op.Op == "RUnlock":
					unlocks++
				}
			}
		})
		if locks == 0 {
			continue
		}
		if unlocks == 0 && defers == 0 {
			continue // acquire wrapper (lockLevels etc.)
		}
		nf++
		c.Touch(f)
		leaks := lockLeaks(f)
		k := key(f, "lock-pairing")
		if why, ok := pairingExceptions[FuncName(f)]; ok {
			c.Pass(r2, k, f.Pos(), 1, "frozen exception: %s", why)
			continue
		}
		if len(leaks) == 0 {
			c.Pass(r2, k, f.Pos(), locks+unlocks+defers, "%d lock / %d unlock / %d deferred operations pair on every return", locks, unlocks, defers)
		} else {
			c.Fail(r2, k, f.Pos(), locks+unlocks+defers, "a return is reachable with %s still held", strings.Join(leaks, ", "))
		}
	}
	c.Floor(r2, nf, 80, "functions with lock operations")

	const r3 = "K1.close-waits-for-inflight"
	c.Rule(r3, "DB.Close runs closeInternal once (sync.Once); closeInternal closes the commit queue and waits for the worker before closing the LSM/WAL; LSM.Set/SetBatch register with the closer so LSM.Close waits for them")
	if fn := c.Fn("", "DB.Close"); fn != nil {
		need(c, r3, fn, true, "closeOnce.Do", Named("(*sync.Once).Do"), 1)
	}
	for _, n := range []string{"LSM.SetBatch", "LSM.Set"} {
		if fn := c.Fn("lsm", n); fn != nil {
			add := Calls(fn, false, Named("utils.(*Closer).Add"))
			dd := 0
			AllInstrs(fn, false, func(in ssa.Instruction) {
				if d, ok := in.(*ssa.Defer); ok && Named("utils.(*Closer).Done")(d.Common()) {
					dd++
				}
			})
			c.Decide(len(add) == 1 && dd == 1, r3, key(fn, "closer.Add/defer-Done"), fn.Pos(), 2, "in-flight writes are registered with the closer", "LSM write no longer registers with the closer (Close does not wait for it / Done without Add)")
		}
	}
}

// pairingExceptions: functions whose lock/unlock pairing depends on correlated
// conditions the path-insensitive analysis cannot see (confirmed by reading).
var pairingExceptions = map[string]string{
	"(*vlog.Manager).SyncFIDs": "store.Lock is taken under `seg != nil && seg.store != nil`; the complementary test `continue`s before the Unlock – correlated branches, confirmed by reading",
}

// nilBatchEdges: the edges taken when the batch returned by call is nil.
func nilBatchEdges(fn *ssa.Function, call ssa.CallInstruction) map[[2]*ssa.BasicBlock]bool {
	out := map[[2]*ssa.BasicBlock]bool{}
	v := call.Value()
	for _, e := range NilEdges(fn, map[ssa.Value]bool{v: true}) {
		out[e.Nil] = true
	}
	return out
}

// selectHas: fn contains a Select one of whose receive states is on owner.field.
func selectHas(c *Ctx, rule string, fn *ssa.Function, owner, field string) {
	found := false
	AllInstrs(fn, false, func(in ssa.Instruction) {
		if s, ok := in.(*ssa.Select); ok {
			for _, st := range s.States {
				if o, f, ok := FieldOf(st.Chan); ok && o == owner && f == field {
					found = true
				}
			}
		}
	})
	c.Decide(found, rule, key(fn, "select:"+field), fn.Pos(), 1, "blocking select includes "+field, "blocking wait in "+FuncName(fn)+" has no "+field+" case: it cannot be ended by close")
}

// lockLeaks: may-analysis with counts; returns lock IDs possibly held at some return
// beyond what deferred unlocks release.
func lockLeaks(fn *ssa.Function) []string {
	type state map[string]int
	in := map[*ssa.BasicBlock]state{}
	out := map[*ssa.BasicBlock]state{}
	deferred := map[string]int{}
	AllInstrs(fn, false, func(i ssa.Instruction) {
		if op := LockOpOf(i); op != nil && op.Defer {
			id := op.ID
			if op.Op == "RUnlock" {
				id += "(r)"
			}
			deferred[id]++
		}
	})
	// also deferred closures that unlock
	for _, b := range fn.Blocks {
		for _, i := range b.Instrs {
			if d, ok := i.(*ssa.Defer); ok {
				if f := StaticFn(d.Common()); f != nil && f.Parent() == fn {
					AllInstrs(f, false, func(j ssa.Instruction) {
						if op := LockOpOf(j); op != nil && !op.Defer && (op.Op == "Unlock" || op.Op == "RUnlock") {
							id := op.ID
							if op.Op == "RUnlock" {
								id += "(r)"
							}
							deferred[id]++
						}
					})
				}
			}
		}
	}
	changed := true
	for iter := 0; changed && iter < 50; iter++ {
		changed = false
		for _, b := range fn.Blocks {
			s := state{}
			for _, p := range b.Preds {
				for k, v := range out[p] {
					if v > s[k] {
						s[k] = v
					}
				}
			}
			in[b] = s
			cur := state{}
			for k, v := range s {
				cur[k] = v
			}
			for _, i := range b.Instrs {
				op := LockOpOf(i)
				if op == nil || op.Defer {
					continue
				}
				switch op.Op {
				case "Lock":
					if cur[op.ID] < 2 {
						cur[op.ID]++
					}
				case "RLock":
					if cur[op.ID+"(r)"] < 2 {
						cur[op.ID+"(r)"]++
					}
				case "Unlock":
					if cur[op.ID] > 0 {
						cur[op.ID]--
					}
				case "RUnlock":
					if cur[op.ID+"(r)"] > 0 {
						cur[op.ID+"(r)"]--
					}
				}
			}
			same := len(cur) == len(out[b])
			if same {
				for k, v := range cur {
					if out[b][k] != v {
						same = false
					}
				}
			}
			if !same {
				out[b] = cur
				changed = true
			}
		}
	}
	leaks := map[string]bool{}
	for _, r := range Returns(fn) {
		if fn.Recover != nil && r.Block() == fn.Recover {
			continue
		}
		for k, v := range out[r.Block()] {
			if v > deferred[k] && v > 0 && deferred[k] == 0 {
				leaks[k] = true
			}
		}
	}
	var res []string
	for k := range leaks {
		res = append(res, k)
	}
	sortStrings(res)
	return res
}

// commitWGWait matches commitWG.Wait(): the point at which the commit worker has stopped
// (reached through DB.stopCommitWorkers or inlined).
func commitWGWait(cc *ssa.CallCommon) bool {
	if !Named("(*sync.WaitGroup).Wait")(cc) || len(cc.Args) == 0 {
		return false
	}
	o, f, ok := FieldOf(cc.Args[0])
	return ok && o == "NoKV.DB" && f == "commitWG"
}

// sliceOfField: v is (a re-slice or phi of) a load of owner.field.
func sliceOfField(v ssa.Value, owner, field string, depth int) bool {
	if depth <= 0 || v == nil {
		return false
	}
	if isFieldLoad(v, owner, field) {
		return true
	}
	switch x := v.(type) {
	case *ssa.Slice:
		return sliceOfField(x.X, owner, field, depth-1)
	case *ssa.Phi:
		for _, e := range x.Edges {
			if sliceOfField(e, owner, field, depth-1) {
				return true
			}
		}
	case *ssa.Field:
		o, f, ok := FieldOf(x)
		return ok && o == owner && f == field
	}
	return false
}

// rangesOverParam: v is an element (or re-slice element) of one of the slice parameters in ok.
func rangesOverParam(v ssa.Value, ok map[ssa.Value]bool, depth int) bool {
	if depth <= 0 || v == nil {
		return false
	}
	if ok[v] {
		return true
	}
	switch x := v.(type) {
	case *ssa.UnOp:
		if ia, isIA := x.X.(*ssa.IndexAddr); isIA && x.Op == token.MUL {
			return rangesOverParam(ia.X, ok, depth-1)
		}
	case *ssa.Slice:
		return rangesOverParam(x.X, ok, depth-1)
	case *ssa.Phi:
		for _, e := range x.Edges {
			if rangesOverParam(e, ok, depth-1) {
				return true
			}
		}
	case *ssa.Index:
		return rangesOverParam(x.X, ok, depth-1)
	}
	return false
}

// watchdogUntruncatedGroup (C36): metrics.AnalyzeWALBacklog decides which segments holding raft
// records the watchdog may remove.  A group that has written records but never truncated its log
// (SegmentIndex == 0, Segment > 0) still needs every record it wrote; which group wrote the
// records of a segment is not known there, so the presence of such a group has to veto the
// candidates.  Structurally: a boolean that is set on the SegmentIndex==0 edge (a phi fed from a
// block behind that edge) guards the append to the candidate list.
func watchdogUntruncatedGroup(c *Ctx, rule string) {
	c.Rule(rule, "metrics.AnalyzeWALBacklog: the append to the removable-segment candidates is guarded by a flag that is set on the `RaftLogPointer.SegmentIndex == 0` edge (a group without a truncation point), as levelManager.canRemoveWalSegment does")
	fn := c.Fn("metrics", "AnalyzeWALBacklog")
	if fn == nil {
		return
	}
	// edges taken when SegmentIndex == 0
	type edge [2]*ssa.BasicBlock
	var untrunc []edge
	for _, b := range fn.Blocks {
		ifi := ifOf(b)
		if ifi == nil {
			continue
		}
		bo, ok := ifi.Cond.(*ssa.BinOp)
		if !ok || !isFieldLoad(bo.X, "manifest.RaftLogPointer", "SegmentIndex") {
			continue
		}
		if k, isK := ConstInt(bo.Y); !isK || k != 0 {
			continue
		}
		switch bo.Op {
		case token.EQL:
			untrunc = append(untrunc, edge{b, b.Succs[0]})
		case token.GTR, token.NEQ:
			untrunc = append(untrunc, edge{b, b.Succs[1]})
		}
	}
	behind := func(p *ssa.BasicBlock) bool {
		for _, e := range untrunc {
			if e[1] == p && len(p.Preds) == 1 || EdgeDominates(e[0], e[1], p) {
				return true
			}
		}
		return false
	}
	flagged := map[ssa.Value]bool{}
	for changed := true; changed; {
		changed = false
		AllInstrs(fn, false, func(in ssa.Instruction) {
			ph, ok := in.(*ssa.Phi)
			if !ok || ph.Type().String() != "bool" || flagged[ph] {
				return
			}
			for i, e := range ph.Edges {
				if flagged[e] {
					flagged[ph], changed = true, true
					return
				}
				if k, isK := e.(*ssa.Const); isK && k.Value != nil && k.Value.String() == "true" && behind(ph.Block().Preds[i]) {
					flagged[ph], changed = true, true
					return
				}
			}
		})
	}
	var mentions func(v ssa.Value, d int) bool
	mentions = func(v ssa.Value, d int) bool {
		if d <= 0 || v == nil {
			return false
		}
		if flagged[v] {
			return true
		}
		switch x := v.(type) {
		case *ssa.UnOp:
			return mentions(x.X, d-1)
		case *ssa.BinOp:
			return mentions(x.X, d-1) || mentions(x.Y, d-1)
		}
		return false
	}
	n, guarded := 0, true
	AllInstrs(fn, false, func(in ssa.Instruction) {
		call, ok := in.(*ssa.Call)
		if !ok {
			return
		}
		if bi, isB := call.Call.Value.(*ssa.Builtin); !isB || bi.Name() != "append" || !strings.Contains(call.Type().String(), "uint32") {
			return
		}
		n++
		g := false
		for _, b := range fn.Blocks {
			if ifi := ifOf(b); ifi != nil && b.Dominates(in.Block()) && b != in.Block() && mentions(ifi.Cond, 4) {
				g = true
			}
		}
		if !g {
			guarded = false
		}
	})
	c.Decide(n >= 1 && guarded, rule, key(fn, "candidates<-no-untruncated-group"), fn.Pos(), n+len(untrunc)+1, "segments holding raft records are candidates only when every group has a truncation point",
		"AnalyzeWALBacklog offers every segment with raft records below the lowest pointer for removal although a group that never truncated its log (SegmentIndex == 0) still needs all of its records: the watchdog (on by default) deletes the older part of that group's live log and OpenWALStorage fails with a missing log entry after a restart")
}
