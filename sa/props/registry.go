// Package props holds the per-property rule instances.
package props

import (
	"sort"

	"nokvsa/core"
)

var registry = map[string]func(*core.Ctx){}

func register(id string, f func(*core.Ctx)) { registry[id] = f }

// IDs lists registered properties in order.
func IDs() []string {
	var out []string
	for k := range registry {
		out = append(out, k)
	}
	sort.Strings(out)
	return out
}

// Get returns the rule function of a property.
func Get(id string) func(*core.Ctx) { return registry[id] }
