package props

import (
	"fmt"
	"go/token"
	"go/types"
	"sort"
	"strings"

	"golang.org/x/tools/go/ssa"

	. "nokvsa/core"
)

func init() {
	register("C06", C06)
	register("C07", C07)
	register("C35", C35)
}

// boundOps extracts, in fn, the operator applied to bytes.Compare(x, <bound field>) for each bound field name.
func boundOps(fn *ssa.Function, ownerPrefix string) map[string][]string {
	out := map[string][]string{}
	for _, b := range fn.Blocks {
		ifi := ifOf(b)
		if ifi == nil {
			continue
		}
		bo, ok := ifi.Cond.(*ssa.BinOp)
		if !ok {
			continue
		}
		call, ok := bo.X.(*ssa.Call)
		if !ok || !Named("bytes.Compare")(call.Common()) {
			continue
		}
		name := strings.ToLower(fieldNameOf(call.Call.Args[1]))
		if name == "?" {
			continue
		}
		out[name] = append(out[name], bo.Op.String())
	}
	return out
}

func C06(c *Ctx) {
	c.Note("exactness of the yielded key set; bound/prefix/seek semantics on all inputs; value equality with point reads; reverse iteration details; the ART engine's order (C07)")
	tombstonePredicatesGroup(c, "K12.tombstone-predicates-agree")
	iteratorBuffersGroup(c, "K2.iterator-buffers-not-aliased")
	concatPinGroup(c, "K13.concat-iterator-pins-tables")
	reverseDedupGroup(c, "K9.reverse-version-dedup")
	internalKeysHiddenGroup(c, "K2.internal-keys-hidden")
	const r1 = "K9.internal-key-comparator"
	c.Rule(r1, "internal keys (results of kv.InternalKey/KeyWithTs, Entry.Key inside lsm/utils and inside the pending-writes iterator) are ordered only by utils.CompareKeys / CompareUserKeys; bytes.Compare is applied only to user keys (operands produced by kv.ParseKey / SplitInternalKey / DecodeKeyCF or iterator bounds)")
	// (1) the pending-writes iterator
	for _, n := range []string{"Txn.newPendingWritesIterator", "pendingWritesIterator.Seek"} {
		fn := c.Fn("", n)
		if fn == nil {
			continue
		}
		raw := Calls(fn, true, Named("bytes.Compare"))
		ck := Calls(fn, true, Named("utils.CompareKeys"))
		c.Decide(len(raw) == 0 && len(ck) >= 1, r1, key(fn, "orders-by:CompareKeys"), fn.Pos(), len(raw)+len(ck)+1, "pending writes are ordered with the internal-key comparator", fmt.Sprintf("%s orders internal keys with bytes.Compare (%d site(s)) instead of utils.CompareKeys: keys where one is a prefix of another iterate out of order", n, len(raw)))
	}
	if fn := c.Fn("", "Txn.newPendingWritesIterator"); fn != nil {
		// the keys it orders are internal keys at txn.readTs
		ik := need(c, r1, fn, false, "kv.InternalKey", Named("kv.InternalKey"), 1)
		for i, k := range ik {
			c.Decide(isFieldLoad(k.Common().Args[2], "NoKV.Txn", "readTs"), r1, key(fn, fmt.Sprintf("InternalKey[%d]#version=readTs", i+1)), k.Pos(), 1, "pending writes are placed at the read timestamp", "pending writes are not keyed at txn.readTs")
		}
	}
	// (2) lsm and utils: bytes.Compare operands must be user keys
	n := 0
	for _, f := range c.P.ModFuncs {
		pk := FuncPkgPath(f)
		if pk != Module+"/lsm" && pk != Module+"/utils" {
			continue
		}
		root := FuncName(Root(f))
		for _, ci := range Calls(f, false, Named("bytes.Compare")) {
			n++
			k := FuncName(f) + "#bytes.Compare@" + fmt.Sprint(ordinalIn(f, ci))
			if root == "utils.CompareKeys" {
				c.Pass(r1, k, ci.Pos(), 1, "the comparator's own implementation")
				continue
			}
			okOps := true
			for _, a := range ci.Common().Args {
				if !isUserKeyExpr(a, 4) {
					okOps = false
				}
			}
			c.Decide(okOps, r1, k, ci.Pos(), 2, "operands are user keys (ParseKey / bounds)", "bytes.Compare is applied to a value that is not provably a user key inside "+root+" (internal keys must go through utils.CompareKeys)")
		}
	}
	c.Floor(r1, n, 3, "bytes.Compare sites in lsm/utils")
	// (3) merge iterators and concat iterators seek/compare with CompareKeys
	for _, t := range [][2]string{{"lsm", "MergeIterator.fix"}, {"lsm", "ConcatIterator.Seek"}} {
		if fn := c.Fn(t[0], t[1]); fn != nil {
			need(c, r1, fn, true, "utils.CompareKeys", Named("utils.CompareKeys"), 1)
		}
	}

	const r2 = "K1.dedup-key-recorded"
	c.Rule(r2, "TxnIterator.advance records the user key of every candidate it consumes after the version/de-duplication tests – emitted or skipped as deleted/expired – in it.lastKey, so older versions of that key stay shadowed (unless AllVersions)")
	if fn := c.Fn("", "TxnIterator.advance"); fn != nil {
		stores := fieldStoresIn(fn, false, "NoKV.TxnIterator", "lastKey")
		mat := need(c, r2, fn, false, "materializeEntry", Named("NoKV.(*TxnIterator).materializeEntry"), 1)
		c.Decide(len(stores) >= 1, r2, key(fn, "has:lastKey-store"), fn.Pos(), 1, "de-duplication key is recorded", "advance never records it.lastKey")
		for i, m := range mat {
			// either a store dominates the materialise call, or every path from it to a return / next iteration passes a store
			dom := false
			for _, s := range stores {
				if Dominates(s, m.(ssa.Instruction)) {
					dom = true
				}
			}
			if dom {
				c.Pass(r2, key(fn, fmt.Sprintf("materializeEntry[%d]#key-recorded-first", i+1)), m.Pos(), 2, "the key is recorded before the liveness test")
				continue
			}
			bad := false
			nblocks := 0
			targets := []ssa.Instruction{}
			for _, r := range Returns(fn) {
				targets = append(targets, r)
			}
			for _, nx := range Calls(fn, false, MethodNamed("utils.Iterator", "Next")) {
				targets = append(targets, nx.(ssa.Instruction))
			}
			for _, t := range targets {
				reach, k := CutReach(fn, m.(ssa.Instruction), t, stores, nil)
				nblocks += k
				if reach {
					bad = true
				}
			}
			c.Decide(!bad, r2, key(fn, fmt.Sprintf("materializeEntry[%d]#key-recorded-on-all-outcomes", i+1)), m.Pos(), nblocks, "both the emit and the skip outcome record the key", "a candidate rejected by materializeEntry (tombstone / expired) is skipped without recording its user key: the next older version of the same key is yielded as if live")
		}
		// the dedup test itself
		eq := false
		for _, ci := range Calls(fn, false, Named("bytes.Equal")) {
			for _, a := range ci.Common().Args {
				if isFieldLoad(a, "NoKV.TxnIterator", "lastKey") {
					eq = true
				}
			}
		}
		c.Decide(eq, r2, key(fn, "has:dedup-test"), fn.Pos(), 1, "candidates equal to lastKey are skipped", "the bytes.Equal(lastKey, userKey) de-duplication test is gone")
	}
	for _, n := range []string{"TxnIterator.Seek", "TxnIterator.Rewind"} {
		if fn := c.Fn("", n); fn != nil {
			st := fieldStoresIn(fn, false, "NoKV.TxnIterator", "lastKey")
			c.Decide(len(st) >= 1, r2, key(fn, "resets:lastKey"), fn.Pos(), 1, "repositioning resets the de-duplication key", n+" does not reset lastKey (the first key after a seek could be suppressed)")
		}
	}

	const r3 = "K5.bound-operators-agree"
	c.Rule(r3, "DBIterator.populate and TxnIterator.advance apply the same bound tests: userKey < LowerBound is outside, userKey >= UpperBound is outside (upper bound exclusive); the Seek clamps use the same operators; deleted/expired entries are never materialised; TxnIterator.advance skips versions above readTs")
	// decided by order-sign evaluation (any spelling, helper or polarity gives the same verdict):
	// populate/advance never mark the iterator valid for a key below the lower or at/above the
	// upper bound and do for keys inside; the Seek entry points let every in-range key reach
	// the underlying iterator's Seek in both directions
	for _, t := range [][2]string{{"DBIterator.populate", "NoKV.DBIterator"}, {"TxnIterator.advance", "NoKV.TxnIterator"}} {
		fn := c.Fn("", t[0])
		if fn == nil {
			continue
		}
		var emits []ssa.Instruction
		for _, st := range fieldStoresIn(fn, false, t[1], "valid") {
			if sv, ok := st.(*ssa.Store); ok {
				if k, isC := sv.Val.(*ssa.Const); isC && k.Value != nil && k.Value.String() == "true" {
					emits = append(emits, st)
				}
			}
		}
		if len(emits) == 0 {
			c.Fail(r3, key(fn, "has:emit-site"), fn.Pos(), 1, "%s never marks the iterator valid", t[0])
			continue
		}
		reach := func(signs map[string]int) (bool, int) {
			env := &SignEnv{Role: iterBoundRole, Signs: signs, Depth: 2}
			hit := false
			for _, e := range emits {
				if env.Reaches(fn, e) {
					hit = true
				}
			}
			return hit, env.Visited
		}
		mk := func(loSet, hiSet int, kl, kh int) map[string]int {
			m := map[string]int{}
			SetSign(m, "len(lo)", "0", loSet)
			SetSign(m, "len(hi)", "0", hiSet)
			if loSet == 1 {
				SetSign(m, "key", "lo", kl)
			}
			if hiSet == 1 {
				SetSign(m, "key", "hi", kh)
			}
			return m
		}
		below, n1 := reach(mk(1, 0, -1, 0))
		atLo, n2 := reach(mk(1, 0, 0, 0))
		aboveLo, n3 := reach(mk(1, 0, 1, 0))
		c.Decide(!below && atLo && aboveLo, r3, key(fn, "lower-bound:<"), fn.Pos(), n1+n2+n3, "a key below the lower bound is never yielded, the bound itself and keys above are (lower bound inclusive)",
			fmt.Sprintf("%s with a lower bound set: key<bound yielded=%v (want false), key==bound yielded=%v (want true), key>bound yielded=%v (want true)", t[0], below, atLo, aboveLo))
		under, m1 := reach(mk(0, 1, 0, -1))
		atHi, m2 := reach(mk(0, 1, 0, 0))
		aboveHi, m3 := reach(mk(0, 1, 0, 1))
		c.Decide(under && !atHi && !aboveHi, r3, key(fn, "upper-bound:>="), fn.Pos(), m1+m2+m3, "a key at or above the upper bound is never yielded, keys below are (upper bound exclusive)",
			fmt.Sprintf("%s with an upper bound set: key<bound yielded=%v (want true), key==bound yielded=%v (want false), key>bound yielded=%v (want false)", t[0], under, atHi, aboveHi))
	}
	for _, t := range [][2]string{{"DBIterator.Seek", "NoKV.DBIterator"}, {"TxnIterator.Seek", "NoKV.TxnIterator"}} {
		fn := c.Fn("", t[0])
		if fn == nil {
			continue
		}
		seekM := MethodNamed("utils.Iterator", "Seek")
		// the function(s) holding the underlying Seek: fn itself or helpers it dispatches to
		holders := []*ssa.Function{}
		if len(Calls(fn, false, seekM)) > 0 {
			holders = append(holders, fn)
		}
		for _, s := range effectSites(c, fn, func(ci ssa.CallInstruction) bool { return seekM(ci.Common()) }, 1) {
			if !seekM(s.Common()) {
				holders = append(holders, StaticFn(s.Common()))
			}
		}
		if len(holders) == 0 {
			c.Fail(r3, key(fn, "has:underlying-Seek"), fn.Pos(), 1, "%s no longer seeks the underlying iterator", t[0])
			continue
		}
		okLo, okHi, n := true, true, 0
		for _, asc := range []bool{true, false} {
			dir := func(v ssa.Value) Tri {
				v = Unwrap(v)
				if isFieldLoad(v, "NoKV.DBIterator", "isAsc") {
					if asc {
						return True
					}
					return False
				}
				if isFieldLoad(v, "NoKV.IteratorOptions", "Reverse") {
					if asc {
						return False
					}
					return True
				}
				return Unknown
			}
			for _, kl := range []int{0, 1} {
				signs := map[string]int{}
				SetSign(signs, "len(lo)", "0", 1)
				SetSign(signs, "len(hi)", "0", 1)
				SetSign(signs, "len(key)", "0", 1)
				SetSign(signs, "key", "lo", kl)
				SetSign(signs, "key", "hi", -1)
				hit := false
				for _, g := range holders {
					env := &SignEnv{Role: iterBoundRole, Bool: dir, Signs: signs, Depth: 2}
					for _, sk := range Calls(g, false, seekM) {
						if env.Reaches(g, sk.(ssa.Instruction)) {
							hit = true
						}
					}
					n += env.Visited
				}
				if !hit {
					if kl == 0 {
						okLo = false
					} else {
						okHi = false
					}
				}
			}
		}
		c.Decide(okLo, r3, key(fn, "lower-bound:<"), fn.Pos(), n, "a seek key equal to the lower bound reaches the underlying Seek in both directions", t[0]+": a seek key equal to the (inclusive) lower bound is treated as out of range")
		c.Decide(okHi, r3, key(fn, "upper-bound:>="), fn.Pos(), n, "a seek key strictly inside the bounds reaches the underlying Seek in both directions", t[0]+": a seek key strictly inside the bounds is treated as out of range")
	}
	if fn := c.Fn("", "DBIterator.materialize"); fn != nil {
		d := Calls(fn, false, Named("kv.(*Entry).IsDeletedOrExpired"))
		c.Decide(len(d) >= 1, r3, key(fn, "skips:deleted-or-expired"), fn.Pos(), 1, "tombstones and expired entries are not materialised", "DBIterator.materialize no longer rejects deleted/expired entries")
	}
	if fn := c.Fn("", "TxnIterator.materializeEntry"); fn != nil {
		d := Calls(fn, false, Named("NoKV.isDeletedOrExpired"))
		ok := false
		for _, x := range d {
			if g, _ := guardedByCallRet(fn, x, false); g {
				ok = true
			}
		}
		c.Decide(len(d) >= 1 && ok, r3, key(fn, "skips:deleted-or-expired"), fn.Pos(), 1, "tombstones and expired entries are reported as not materialised", "TxnIterator.materializeEntry no longer returns false for deleted/expired entries")
	}
	if fn := c.Fn("", "TxnIterator.advance"); fn != nil {
		versionFilter(c, r3, fn)
	}
}

func uniq(s []string) []string {
	m := map[string]bool{}
	var out []string
	for _, x := range s {
		if !m[x] {
			m[x] = true
			out = append(out, x)
		}
	}
	sort.Strings(out)
	return out
}

// guardedByCallRet: the true edge of `if call()` leads to `return false`.
func guardedByCallRet(fn *ssa.Function, ci ssa.CallInstruction, want bool) (bool, *ssa.If) {
	for _, r := range *ci.Value().Referrers() {
		if ifi, ok := r.(*ssa.If); ok {
			if returnsBool(ifi.Block().Succs[0], want) {
				return true, ifi
			}
		}
	}
	return false, nil
}

// isUserKeyExpr: v is produced by a user-key projection, is a bound/option field, a parameter named like a user key, or a slice with the 8-byte suffix removed.
func isUserKeyExpr(v ssa.Value, depth int) bool {
	if depth <= 0 {
		return false
	}
	switch x := v.(type) {
	case *ssa.Call:
		if o := CalleeObj(x.Common()); o != nil {
			switch o.Name() {
			case "ParseKey", "SplitInternalKey", "DecodeKeyCF", "BaseKey", "InternalToBaseKey":
				return true
			}
		}
	case *ssa.Extract:
		return isUserKeyExpr(x.Tuple, depth-1)
	case *ssa.Phi:
		for _, e := range x.Edges {
			if !isUserKeyExpr(e, depth-1) {
				return false
			}
		}
		return true
	case *ssa.Parameter:
		n := strings.ToLower(x.Name())
		return strings.Contains(n, "user") || n == "min" || n == "max"
	case *ssa.Slice:
		// key[:len(key)-8]
		if bo, ok := x.High.(*ssa.BinOp); ok && bo.Op == token.SUB {
			if k, ok := ConstInt(bo.Y); ok && k == 8 {
				return true
			}
		}
		if bo, ok := x.Low.(*ssa.BinOp); ok && bo.Op == token.SUB {
			if k, ok := ConstInt(bo.Y); ok && k == 8 {
				return true // the suffix itself, compared bytewise by CompareKeys
			}
		}
	}
	return false
}

func C07(c *Ctx) {
	c.Note("concurrent inserts; arena limits; lookup equality on all key multisets; only the ordering primitive of each engine is decided")
	const r1 = "K9.memindex-ordering-primitive"
	c.Rule(r1, "every implementation of lsm.memIndex (the concrete types returned by lsm.newMemIndex) decides key order only through utils.CompareKeys: no bytes.Compare and no relational comparison of raw key bytes in the functions its Add / Search / iterator methods reach; both engines accept a landed entry only if kv.SameKey holds (C02)")
	nm := c.Fn("lsm", "newMemIndex")
	if nm == nil {
		return
	}
	impls := map[string]bool{}
	AllInstrs(nm, false, func(in ssa.Instruction) {
		if mi, ok := in.(*ssa.MakeInterface); ok {
			impls[TypeName(mi.X.Type())] = true
		}
	})
	var names []string
	for n := range impls {
		names = append(names, n)
	}
	sort.Strings(names)
	c.Decide(len(names) >= 2, r1, key(nm, "implementations"), nm.Pos(), len(names)+1, fmt.Sprintf("memIndex implementations: %v", names), fmt.Sprintf("expected two memIndex implementations, found %v", names))
	for _, tn := range names {
		short := tn[strings.LastIndex(tn, ".")+1:]
		var roots []*ssa.Function
		for _, m := range []string{"Add", "Search", "NewIterator"} {
			if f := c.FnOpt("utils", short+"."+m); f != nil {
				roots = append(roots, f)
			}
		}
		// iterator types
		for _, f := range c.P.ModFuncs {
			if FuncPkgPath(f) != Module+"/utils" || f.Signature.Recv() == nil {
				continue
			}
			rt := TypeName(f.Signature.Recv().Type())
			if (short == "Skiplist" && rt == "utils.SkipListIterator") || (short == "ART" && (rt == "utils.artIterator" || rt == "utils.artTree")) {
				roots = append(roots, f)
			}
		}
		reach := map[*ssa.Function]bool{}
		var walk func(f *ssa.Function, d int)
		walk = func(f *ssa.Function, d int) {
			if f == nil || reach[f] || f.Blocks == nil || FuncPkgPath(f) != Module+"/utils" || d > 12 {
				return
			}
			reach[f] = true
			c.Touch(f)
			AllInstrs(f, true, func(in ssa.Instruction) {
				if ci, ok := in.(ssa.CallInstruction); ok {
					walk(StaticFn(ci.Common()), d+1)
				}
			})
		}
		for _, r := range roots {
			walk(r, 0)
		}
		ck, raw := 0, 0
		var rawSites []string
		for f := range reach {
			if f.Name() == "CompareKeys" || f.Name() == "CompareUserKeys" {
				continue
			}
			ck += len(Calls(f, true, Named("utils.CompareKeys")))
			raw += len(Calls(f, true, Named("bytes.Compare")))
			AllInstrs(f, true, func(in ssa.Instruction) {
				bo, ok := in.(*ssa.BinOp)
				if !ok {
					return
				}
				switch bo.Op {
				case token.LSS, token.GTR, token.LEQ, token.GEQ:
				default:
					return
				}
				if !isByte(bo.X.Type()) || !isByte(bo.Y.Type()) {
					return
				}
				if _, isC := bo.X.(*ssa.Const); isC {
					return
				}
				if _, isC := bo.Y.(*ssa.Const); isC {
					return
				}
				if isKeyByte(bo.X) || isKeyByte(bo.Y) {
					raw++
					rawSites = append(rawSites, FuncName(f))
				}
			})
		}
		if short == "ART" {
			const r3 = "K14.child-table-scan-bounds"
			c.Rule(r3, "every counted loop in the ART implementation whose induction variable indexes a nodePayload table (keys, children, idx) covers the whole index range: descending scans run while i >= 0, ascending scans while i < len(table) / i < count – byte 0x00 and 0xFF are legal key bytes")
			ns := scanBounds(c, r3, reach, "utils.nodePayload")
			c.Floor(r3, ns, 8, "counted scans over nodePayload tables")
		}
		rawSites = uniq(rawSites)
		k := tn + "#orders-only-by:CompareKeys"
		c.Decide(ck >= 1 && raw == 0, r1, k, roots[0].Pos(), len(reach)+ck+raw,
			fmt.Sprintf("%d reachable functions, %d CompareKeys site(s), no raw byte ordering", len(reach), ck),
			fmt.Sprintf("%s orders keys by raw byte comparison in %d site(s) (%s) besides %d CompareKeys site(s): the whole internal key, version suffix included, is compared bytewise, so keys where one user key is a prefix of another (a, a\\x00, ab) are ordered differently from the engine-independent internal-key order", tn, raw, strings.Join(rawSites, ", "), ck))
	}
	const r2 = "K8.search-accepts-only-same-key"
	c.Rule(r2, "Skiplist.Search and artTree.Get accept the landed entry only when kv.SameKey(sought, landed)")
	if fn := c.Fn("utils", "Skiplist.Search"); fn != nil {
		sameKeyGuard(c, r2, fn)
	}
	if fn := c.Fn("utils", "artTree.Get"); fn != nil {
		sameKeyGuard(c, r2, fn)
	}
}

func isByte(t types.Type) bool {
	b, ok := t.Underlying().(*types.Basic)
	return ok && (b.Kind() == types.Uint8)
}

// isKeyByte: v is a byte taken from a key: result of keyByte(), or an element load of a []byte / byte array.
func isKeyByte(v ssa.Value) bool {
	switch x := v.(type) {
	case *ssa.Call:
		if o := CalleeObj(x.Common()); o != nil && o.Name() == "keyByte" {
			return true
		}
	case *ssa.UnOp:
		if _, ok := x.X.(*ssa.IndexAddr); ok {
			return true
		}
	case *ssa.Parameter:
		return true // a key byte handed down (findChild(key byte))
	case *ssa.Index:
		return true
	}
	return false
}

func C35(c *Ctx) {
	c.Note("seek semantics; iteration completeness; entries larger than a block; equality of the served entries with the built ones")
	const r1 = "K12.bloom-projection-agrees"
	c.Rule(r1, "the table builder hashes kv.ParseKey(key) (user part without the version suffix) into the bloom filter, and table.Search probes the filter with kv.ParseKey(key) whenever the key is longer than the 8-byte suffix; the filter is skipped only when absent; Filter.MayContainKey hashes with the same utils.Hash")
	if fn := c.Fn("lsm", "tableBuilder.add"); fn != nil {
		hs := need(c, r1, fn, false, "utils.Hash", Named("utils.Hash"), 1)
		for i, h := range hs {
			call, ok := h.Common().Args[0].(*ssa.Call)
			c.Decide(ok && Named("kv.ParseKey")(call.Common()), r1, key(fn, fmt.Sprintf("Hash[%d]#arg=ParseKey(key)", i+1)), h.Pos(), 1, "bloom hashes the user part of the key", "the table builder does not hash kv.ParseKey(key) into the bloom filter (reader and writer would disagree: false negatives)")
		}
	}
	if fn := c.Fn("lsm", "table.Search"); fn != nil {
		// the probe may live in a helper of Search (e.g. a bloomMayContain method)
		mayM := Named("utils.(Filter).MayContainKey")
		mc := Calls(fn, false, mayM)
		for _, s := range effectSites(c, fn, func(ci ssa.CallInstruction) bool { return mayM(ci.Common()) }, 1) {
			if !mayM(s.Common()) {
				mc = append(mc, Calls(StaticFn(s.Common()), false, mayM)...)
			}
		}
		c.Decide(len(mc) >= 1, r1, key(fn, "has:MayContainKey"), fn.Pos(), len(mc)+1, fmt.Sprintf("%d bloom probe site(s)", len(mc)), "expected at least 1 call(s) to MayContainKey in (*lsm.table).Search (or a helper it calls), found 0")
		for i, m := range mc {
			arg := m.Common().Args[len(m.Common().Args)-1]
			ok := false
			// probe := key; if len(key) > 8 { probe = ParseKey(key) } → phi(key, ParseKey(key))
			if ph, isPhi := arg.(*ssa.Phi); isPhi {
				for _, e := range ph.Edges {
					if call, isCall := e.(*ssa.Call); isCall && Named("kv.ParseKey")(call.Common()) {
						ok = true
					}
				}
			} else if call, isCall := arg.(*ssa.Call); isCall && Named("kv.ParseKey")(call.Common()) {
				ok = true
			}
			c.Decide(ok, r1, key(fn, fmt.Sprintf("MayContainKey[%d]#arg=ParseKey(key)", i+1)), m.Pos(), 1, "the probe is the user part of the key", "table.Search probes the bloom filter with something other than kv.ParseKey(key)")
			// a negative answer returns not-found; the probe happens only when a filter is present
			neg := false
			for _, r := range *m.Value().Referrers() {
				if ifi, isIf := r.(*ssa.If); isIf {
					_ = ifi
					neg = true
				}
				if u, isU := r.(*ssa.UnOp); isU && u.Op == token.NOT {
					neg = true
				}
				if _, isB := r.(*ssa.BinOp); isB {
					neg = true
				}
				// handed back by a predicate helper (`return len(f) == 0 || f.MayContainKey(p)`)
				if _, isP := r.(*ssa.Phi); isP && m.Parent() != fn {
					neg = true
				}
				if _, isR := r.(*ssa.Return); isR && m.Parent() != fn {
					neg = true
				}
			}
			c.Decide(neg, r1, key(fn, fmt.Sprintf("MayContainKey[%d]#result-used", i+1)), m.Pos(), 1, "the filter's answer decides", "the filter's answer is ignored")
		}
	}
	if fn := c.Fn("utils", "Filter.MayContainKey"); fn != nil {
		need(c, r1, fn, false, "utils.Hash", Named("utils.Hash"), 1)
	}
	const r2 = "K1.block-checksum-agrees"
	c.Rule(r2, "tableBuilder.finishBlock appends utils.CalculateChecksum over the block data, and table.loadBlock verifies with block.verifyCheckSum → utils.VerifyChecksum; both use crc32 with kv.CastagnoliCrcTable; the index checksum is written by the builder's done() and verified by SSTable.initTable")
	if fn := c.Fn("lsm", "tableBuilder.finishBlock"); fn != nil {
		need(c, r2, fn, true, "calculateChecksum", Named("utils.CalculateChecksum", "lsm.(*tableBuilder).calculateChecksum"), 1)
	}
	for _, t := range [][2]string{{"utils", "CalculateChecksum"}, {"utils", "VerifyChecksum"}} {
		if fn := c.Fn(t[0], t[1]); fn != nil {
			for i, ck := range need(c, r2, fn, false, "crc32.Checksum", Named("hash/crc32.Checksum"), 1) {
				u, ok := ck.Common().Args[1].(*ssa.UnOp)
				g := false
				if ok {
					if gl, isG := u.X.(*ssa.Global); isG && gl.Name() == "CastagnoliCrcTable" {
						g = true
					}
				}
				c.Decide(g, r2, key(fn, fmt.Sprintf("crc32.Checksum[%d]#table=Castagnoli", i+1)), ck.Pos(), 1, "same polynomial table on both sides", t[1]+" does not use kv.CastagnoliCrcTable")
			}
		}
	}
	if fn := c.Fn("lsm", "table.loadBlock"); fn != nil {
		vs := verifySites(c, fn, Named("utils.VerifyChecksum"), 2)
		c.Decide(len(vs) >= 1, r2, key(fn, "has:verifyCheckSum"), fn.Pos(), len(vs)+1, "loadBlock verifies through utils.VerifyChecksum", "loadBlock has no verification site reaching utils.VerifyChecksum")
	}
	const r4 = "K2.table-cut-at-key-boundary"
	tableCutGroup(c, r4)
	seekGapGroup(c, "K2.seek-continues-into-next-block")
	versionAccumulatorGroup(c, "K2.version-accumulator-orderings")
	const r5 = "K2.block-switch-resets-decode-state"
	c.Rule(r5, "blockIterator.setIdx decodes prefix-compressed keys incrementally: the fields it both reads and writes (state carried from the previous entry: idx, baseKey, key, prevOverlap) describe the previous block's entry; blockIterator.setBlock (directly or through a helper) re-initialises every one of them, so the first decode in a new block never reuses bytes of the old block")
	if si := c.Fn("lsm", "blockIterator.setIdx"); si != nil {
		if sb := c.Fn("lsm", "blockIterator.setBlock"); sb != nil {
			loaded, stored := map[string]bool{}, map[string]bool{}
			AllInstrs(si, false, func(in ssa.Instruction) {
				switch x := in.(type) {
				case *ssa.UnOp:
					if x.Op == token.MUL {
						if o, f, ok := FieldOf(x.X); ok && o == "lsm.blockIterator" {
							loaded[f] = true
						}
					}
				case *ssa.Store:
					if o, f, ok := FieldOf(x.Addr); ok && o == "lsm.blockIterator" {
						stored[f] = true
					}
				}
			})
			var carried []string
			for f := range loaded {
				if stored[f] {
					carried = append(carried, f)
				}
			}
			sort.Strings(carried)
			c.Decide(len(carried) >= 3, r5, key(si, "carried-decode-state"), si.Pos(), len(carried)+1, "carried state: "+strings.Join(carried, ","), "setIdx no longer carries incremental decode state (expected at least baseKey, key, prevOverlap): rule out of date")
			for _, f := range carried {
				c.Decide(storesFieldDeep(c, sb, "lsm.blockIterator", f, 2), r5, key(sb, "resets:"+f), sb.Pos(), 1, "reset on block switch", "setBlock does not re-initialise blockIterator."+f+", which setIdx carries over from the previously decoded entry: the first entry decoded in the new block can be assembled from the previous block's bytes (seek lands on a wrong or invalid entry)")
			}
		}
	}
	const r3 = "K12.footer-widths-agree"
	c.Rule(r3, "block footer layout agrees between builder and reader: entry-offsets count (4 bytes), checksum (8 bytes), checksum length (4 bytes)")
	if fn := c.Fn("lsm", "table.loadBlock"); fn != nil {
		w := suffixWidthsAll(fn)
		// the footer arithmetic may live in a helper of loadBlock (e.g. a trailer decoder)
		AllInstrs(fn, false, func(in ssa.Instruction) {
			if ci, ok := in.(ssa.CallInstruction); ok {
				if h := StaticFn(ci.Common()); h != nil && h.Blocks != nil && h != fn && FuncPkgPath(h) == FuncPkgPath(fn) {
					for k, n := range suffixWidthsAll(h) {
						w[k] += n
					}
				}
			}
		})
		c.Decide(w[4] >= 2, r3, key(fn, "reads:4-byte-fields"), fn.Pos(), len(w)+1, "reads the two 4-byte footer fields", fmt.Sprintf("loadBlock footer arithmetic uses widths %v (expected two 4-byte fields)", w))
	}
	if fn := c.Fn("lsm", "tableBuilder.finishBlock"); fn != nil {
		u32 := len(Calls(fn, true, Named("kv.U32ToBytes", "lsm.(*tableBuilder).append")))
		c.Decide(u32 >= 2, r3, key(fn, "writes:4-byte-fields"), fn.Pos(), u32+1, "writes the footer fields", "finishBlock no longer writes the footer length fields")
	}
}

func suffixWidthsAll(fn *ssa.Function) map[int64]int {
	out := map[int64]int{}
	AllInstrs(fn, false, func(in ssa.Instruction) {
		if bo, ok := in.(*ssa.BinOp); ok && (bo.Op == token.SUB || bo.Op == token.ADD) {
			if k, ok := ConstInt(bo.Y); ok {
				out[k]++
			}
		}
	})
	return out
}

// scanBounds: in the functions reachable from an index implementation, every counted loop
// whose induction variable indexes a slice/array field of owner covers the full index
// range: descending loops continue while `i >= 0`, ascending loops while `i < len(field)`
// (or `i < count`).  Index 0 / the last index are legal positions (key byte 0x00, 0xFF).
func scanBounds(c *Ctx, rule string, fns map[*ssa.Function]bool, owner string) int {
	n := 0
	var list []*ssa.Function
	for f := range fns {
		list = append(list, f)
	}
	sort.Slice(list, func(i, j int) bool { return list[i].Pos() < list[j].Pos() })
	for _, f := range list {
		ord := 0
		for _, b := range f.Blocks {
			ifi := ifOf(b)
			if ifi == nil {
				continue
			}
			bo, ok := ifi.Cond.(*ssa.BinOp)
			if !ok {
				continue
			}
			ph, ok := bo.X.(*ssa.Phi)
			if !ok {
				continue
			}
			step := phiSelfStep(ph)
			if step == 0 {
				continue
			}
			// only the loop-controlling test: exactly one successor stays in the loop
			if blockReaches(b.Succs[0], b) == blockReaches(b.Succs[1], b) {
				continue
			}
			// does the phi index a field of owner?
			idxField := ""
			for _, r := range *ph.Referrers() {
				if ia, ok := r.(*ssa.IndexAddr); ok {
					if o, fl, ok := FieldOf(ia.X); ok && o == owner {
						idxField = fl
					}
				}
			}
			if idxField == "" {
				continue
			}
			n++
			ord++
			k := key(f, fmt.Sprintf("scan[%d]:%s", ord, idxField))
			if step < 0 {
				z, isC := ConstInt(bo.Y)
				c.Decide(bo.Op == token.GEQ && isC && z == 0, rule, k, ifi.Pos(), 2, "descending scan includes index 0", fmt.Sprintf("descending scan over %s.%s continues while `i %s %v` (expected `i >= 0`): position 0 – key byte 0x00 – is never examined", owner, idxField, bo.Op, bo.Y.Name()))
			} else {
				okUp := bo.Op == token.LSS
				if okUp {
					if call, isCall := bo.Y.(*ssa.Call); isCall {
						bi, isB := call.Call.Value.(*ssa.Builtin)
						okUp = isB && bi.Name() == "len"
					} else if _, isK := bo.Y.(*ssa.Const); isK {
						okUp = false // a literal upper bound would need the array length; none exists today
					}
				}
				c.Decide(okUp, rule, k, ifi.Pos(), 2, "ascending scan runs to the end of the table", fmt.Sprintf("ascending scan over %s.%s continues while `i %s …` (expected `i < len(…)` or `i < count`)", owner, idxField, bo.Op))
			}
		}
	}
	return n
}

// iterBoundRole names the quantities the iterator bound tests compare: the candidate user key,
// the lower and upper bound, and their lengths.
func iterBoundRole(v ssa.Value) string {
	v = Unwrap(v)
	if o, f, ok := FieldOf(v); ok && (strings.HasPrefix(o, "NoKV.")) {
		switch strings.ToLower(f) {
		case "lowerbound":
			return "lo"
		case "upperbound":
			return "hi"
		}
	}
	switch x := v.(type) {
	case *ssa.Parameter:
		if x.Name() == "key" || x.Name() == "userKey" {
			return "key"
		}
	case *ssa.Extract:
		if call, ok := x.Tuple.(*ssa.Call); ok {
			if o := CalleeObj(call.Common()); o != nil && (o.Name() == "SplitInternalKey" || o.Name() == "DecodeKeyCF") && x.Index == 1 {
				return "key"
			}
		}
	case *ssa.Call:
		if bi, ok := x.Call.Value.(*ssa.Builtin); ok && bi.Name() == "len" && len(x.Call.Args) == 1 {
			if r := iterBoundRole(x.Call.Args[0]); r != "" {
				return "len(" + r + ")"
			}
			return ""
		}
		if o := CalleeObj(x.Common()); o != nil && o.Name() == "ParseKey" {
			return "key"
		}
	case *ssa.Phi:
		// key := param; if key < lo { key = lo }: still the seek key
		for _, e := range x.Edges {
			if p, ok := e.(*ssa.Parameter); ok && p.Name() == "key" {
				return "key"
			}
		}
	}
	return ""
}
