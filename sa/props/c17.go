package props

import (
	"fmt"
	"go/constant"
	"go/token"
	"go/types"
	"strings"

	"golang.org/x/tools/go/ssa"

	. "nokvsa/core"
)

func init() {
	register("C17", C17)
	register("C18", C18)
	register("C19", C19)
	register("C20", C20)
}

// kindTests: in fn (deep), the set of pb.Mutation_Op constant values that Write.Kind /
// Lock.Kind / a value of type pb.Mutation_Op is compared with, and for each the block
// the "equal" edge leads to.
type kindTest struct {
	val  int64
	eq   *ssa.BasicBlock // successor when equal
	ne   *ssa.BasicBlock
	ifi  *ssa.If
	cond *ssa.BinOp
}

func kindTests(fn *ssa.Function) []kindTest {
	var out []kindTest
	AllInstrs(fn, true, func(in ssa.Instruction) {
		ifi, ok := in.(*ssa.If)
		if !ok {
			return
		}
		bo, ok := ifi.Cond.(*ssa.BinOp)
		if !ok || (bo.Op != token.EQL && bo.Op != token.NEQ) {
			return
		}
		if TypeName(bo.X.Type()) != "pb.Mutation_Op" {
			return
		}
		k, ok := bo.Y.(*ssa.Const)
		if !ok || k.Value == nil {
			return
		}
		v, _ := constant.Int64Val(constant.ToInt(k.Value))
		b := ifi.Block()
		kt := kindTest{val: v, ifi: ifi, cond: bo}
		if bo.Op == token.EQL {
			kt.eq, kt.ne = b.Succs[0], b.Succs[1]
		} else {
			kt.eq, kt.ne = b.Succs[1], b.Succs[0]
		}
		out = append(out, kt)
	})
	return out
}

func opConsts(c *Ctx) map[string]int64 { return enumConsts(c, "pb", "Mutation_Op") }

func C17(c *Ctx) {
	c.Note("the values themselves; histories with equal timestamps; flush/compaction invariance (C01 recency sites)")
	const r0 = "K5.empty-value-is-a-value"
	c.Rule(r0, "Reader.GetValue decides that a committed put has no value by the delete bit only, never by `Value == nil` (the copy of an empty value read back from an SST is a nil slice): Get and Scan agree on a committed empty value")
	if fn := c.Fn("percolator", "Reader.GetValue"); fn != nil {
		bad := false
		var visit func(v ssa.Value) bool
		visit = func(v ssa.Value) bool {
			bo, ok := v.(*ssa.BinOp)
			if !ok {
				return false
			}
			return bo.Op == token.EQL && IsNilConst(bo.Y) && isFieldLoad(bo.X, "kv.Entry", "Value")
		}
		for _, b := range fn.Blocks {
			if ifi := ifOf(b); ifi != nil && visit(ifi.Cond) && returnsSentinelAnywhere(fn, b.Succs[0], "ErrKeyNotFound", 3) {
				bad = true
			}
		}
		c.Decide(!bad, r0, key(fn, "found-ness#not-by-nil-value"), fn.Pos(), 1, "a nil value slice is not treated as a missing value", "Reader.GetValue reports ErrKeyNotFound when the data entry's value is nil: a committed put of the empty value is invisible to Get although Scan returns it")
	}
	const r1 = "K1.lock-check-before-read"
	c.Rule(r1, "raftstore/kv handleGet and handleScan consult Reader.GetLock and compare readTs >= lock.Ts (blocking edge returns/records a Locked error) before reading the value (Reader.GetValue / collectVisibleValue); a GetLock error is propagated")
	if fn := c.Fn("raftstore/kv", "handleGet"); fn != nil {
		gl := Named("percolator.(*Reader).GetLock")
		beforeOK(c, r1, fn, "GetLock", gl, "GetValue", Named("percolator.(*Reader).GetValue"), 1)
		lockCompare(c, r1, fn, Calls(fn, false, Named("percolator.(*Reader).GetValue")))
	}
	if fn := c.Fn("raftstore/kv", "handleScan"); fn != nil {
		gl := Named("percolator.(*Reader).GetLock")
		beforeOK(c, r1, fn, "GetLock", gl, "collectVisibleValue", Named("raftstore/kv.collectVisibleValue"), 1)
		lockCompare(c, r1, fn, Calls(fn, false, Named("raftstore/kv.collectVisibleValue")))
	}

	const r1b = "K1.scan-sees-locks-without-write-record"
	c.Rule(r1b, "raftstore/kv handleScan also examines the lock column: the entries of kv.CFLock met by the iterator (they sort before the write column) are collected and each collected key inside the range is checked with Reader.GetLock against readTs, so a prewritten key that has no write record yet blocks the scan like any other locked key")
	if fn := c.Fn("raftstore/kv", "handleScan"); fn != nil {
		cfLock := cfValue(c, "CFLock")
		seesLockCF := false
		AllInstrs(fn, true, func(in ssa.Instruction) {
			bo, ok := in.(*ssa.BinOp)
			if !ok || (bo.Op != token.EQL && bo.Op != token.NEQ) {
				return
			}
			if k, ok := ConstInt(bo.Y); ok && k == cfLock && isFieldLoad(bo.X, "kv.Entry", "CF") {
				seesLockCF = true
			}
		})
		// a GetLock whose key does not come from a write-column entry: inside a helper/closure taking
		// the key as a parameter, or at least two GetLock sites
		gl := Calls(fn, true, Named("percolator.(*Reader).GetLock"))
		c.Decide(seesLockCF && len(gl) >= 2, r1b, key(fn, "examines:CFLock"), fn.Pos(), len(gl)+1, "lock-column entries are collected and checked", "handleScan only visits write-column entries: a key that is prewritten but has no write record yet is skipped silently (Get reports it locked, Scan does not), and the same scan returns it after the pending transaction commits")
	}

	const r2 = "K5.non-data-kinds-skipped"
	c.Rule(r2, "version selection skips non-data records: in Reader.getWriteForRead's callback and in collectVisibleValue the kinds Rollback and Lock continue with the next older record (they never become the result), Delete is terminal (not found) and Put yields the value; both selectors agree per kind; selection takes the greatest commit ts <= readTs")
	ops := opConsts(c)
	// selector 1: getWriteForRead closure
	if fn := c.Fn("percolator", "Reader.getWriteForRead"); fn != nil && len(fn.AnonFuncs) > 0 {
		cb := fn.AnonFuncs[0]
		c.Touch(cb)
		kts := kindTests(cb)
		// result assignment sites in the closure: stores to the captured result var
		var assigns []ssa.Instruction
		AllInstrs(cb, false, func(in ssa.Instruction) {
			if st, ok := in.(*ssa.Store); ok {
				if fv, ok := st.Addr.(*ssa.FreeVar); ok && fv.Name() == "result" {
					assigns = append(assigns, in)
				}
			}
		})
		c.Decide(len(assigns) >= 1, r2, key(cb, "has:result-assignment"), cb.Pos(), 1, "selection site found", "cannot find the selection assignment in getWriteForRead's callback")
		_ = kts
		// decided per kind by evaluating every `Kind == const` / `Kind != const` test (also when the
		// tests are folded into a boolean variable): with Kind fixed, is a selection assignment reachable?
		for _, kind := range []string{"Mutation_Rollback", "Mutation_Lock", "Mutation_Put", "Mutation_Delete"} {
			env := kindEnv(ops, ops[kind])
			reach := false
			for _, a := range assigns {
				if env.Reaches(cb, a) {
					reach = true
				}
			}
			if kind == "Mutation_Rollback" || kind == "Mutation_Lock" {
				c.Decide(!reach, r2, key(cb, "kind:"+kind+"→skip"), cb.Pos(), env.Visited+1, kind+" records are skipped (scan continues, never selected)", kind+" records can be selected as the visible write: a rolled-back or lock-only transaction hides the committed value below it")
			} else {
				c.Decide(reach, r2, key(cb, "kind:"+kind+"→selectable"), cb.Pos(), env.Visited+1, kind+" records can be selected", kind+" records are never selected as the visible write")
			}
		}
		// ts <= readTs guard on the assignment
		leq := false
		for _, b := range cb.Blocks {
			if ifi := ifOf(b); ifi != nil {
				if bo, ok := ifi.Cond.(*ssa.BinOp); ok && bo.Op == token.LEQ {
					if _, isP := bo.X.(*ssa.Parameter); isP {
						for _, a := range assigns {
							if EdgeDominates(b, b.Succs[0], a.Block()) {
								leq = true
							}
						}
					}
				}
			}
		}
		c.Decide(leq, r2, key(cb, "select<-ts<=readTs"), cb.Pos(), 2, "only commits at or below readTs are selected", "selection is not guarded by ts <= readTs")
	}
	if fn := c.Fn("percolator", "Reader.GetValue"); fn != nil {
		// Delete → ErrKeyNotFound
		del := false
		for _, kt := range kindTests(fn) {
			if kt.val == ops["Mutation_Delete"] && returnsSentinel(fn, kt.eq, "ErrKeyNotFound") {
				del = true
			}
		}
		c.Decide(del, r2, key(fn, "kind:Mutation_Delete→not-found"), fn.Pos(), 1, "a committed delete reads as not found", "GetValue does not map a committed Delete to not-found")
		// value read at write.StartTs
		for i, g := range need(c, r2, fn, false, "GetVersionedEntry", Named("NoKV.(*DB).GetVersionedEntry"), 1) {
			o, f, ok := FieldOf(g.Common().Args[len(g.Common().Args)-1])
			c.Decide(ok && o == "percolator.Write" && f == "StartTs", r2, key(fn, fmt.Sprintf("GetVersionedEntry[%d]#version=write.StartTs", i+1)), g.Pos(), 1, "data is read at the selected write's start ts", "data is not read at write.StartTs")
		}
	}
	// selector 2: collectVisibleValue
	if fn := c.Fn("raftstore/kv", "collectVisibleValue"); fn != nil {
		kts := kindTests(fn)
		for _, kind := range []string{"Mutation_Rollback", "Mutation_Lock"} {
			ok := false
			for _, kt := range kts {
				if kt.val != ops[kind] {
					continue
				}
				// equal edge leads back to the loop (iter.Next then header) without a Return
				if leadsToLoopNotReturn(kt.eq) {
					ok = true
				}
			}
			c.Decide(ok, r2, key(fn, "kind:"+kind+"→skip"), fn.Pos(), len(kts)+1, kind+" records continue with the next older record", kind+" records terminate the scan of a key's versions (not skipped): scans and point gets can disagree / hide committed data")
		}
		okDel := false
		for _, kt := range kts {
			if kt.val == ops["Mutation_Delete"] && !leadsToLoopNotReturn(kt.eq) {
				okDel = true
			}
		}
		c.Decide(okDel, r2, key(fn, "kind:Mutation_Delete→not-found"), fn.Pos(), 1, "a committed delete ends the search with not-found", "Delete is not terminal in collectVisibleValue")
		// version filter: entry.Version > readTs → skip
		vf := false
		for _, b := range fn.Blocks {
			if ifi := ifOf(b); ifi != nil {
				if bo, ok := ifi.Cond.(*ssa.BinOp); ok && bo.Op == token.GTR && isFieldLoad(bo.X, "kv.Entry", "Version") {
					if _, isP := bo.Y.(*ssa.Parameter); isP {
						vf = true
					}
				}
			}
		}
		c.Decide(vf, r2, key(fn, "skip:version>readTs"), fn.Pos(), 1, "versions above readTs are skipped", "collectVisibleValue does not skip versions above readTs with `>`")
	}

	const r3 = "K5.get-scan-agree"
	c.Rule(r3, "point get and scan use the same lock-blocking comparison (readTs >= lock.Ts) and both decode write records with percolator.DecodeWrite")
	// covered by lockCompare obligations above; DecodeWrite presence:
	if fn := c.Fn("percolator", "Reader.scanWrites"); fn != nil {
		need(c, r3, fn, false, "DecodeWrite", Named("percolator.DecodeWrite"), 1)
		// tombstoned write records are skipped
		sk := false
		for _, b := range fn.Blocks {
			if ifi := ifOf(b); ifi != nil {
				if bo, ok := ifi.Cond.(*ssa.BinOp); ok && bo.Op == token.GTR {
					if and, ok := bo.X.(*ssa.BinOp); ok && and.Op == token.AND && isFieldLoad(and.X, "kv.Entry", "Meta") {
						sk = true
					}
				}
			}
		}
		c.Decide(sk, r3, key(fn, "skip:deleted-write-record"), fn.Pos(), 1, "tombstoned write records are skipped", "scanWrites no longer skips tombstoned write-column records")
	}
	if fn := c.Fn("raftstore/kv", "collectVisibleValue"); fn != nil {
		need(c, r3, fn, false, "DecodeWrite", Named("percolator.DecodeWrite"), 1)
	}
}

// lockCompare: there is a test `version >= lock.Ts` (GEQ with lock.Ts on the right)
// whose false/no-lock path is the only way to the value reads.
func lockCompare(c *Ctx, rule string, fn *ssa.Function, reads []ssa.CallInstruction) {
	var tests []*ssa.BasicBlock
	for _, b := range fn.Blocks {
		if ifi := ifOf(b); ifi != nil {
			if bo, ok := ifi.Cond.(*ssa.BinOp); ok && bo.Op == token.GEQ && isFieldLoad(bo.Y, "percolator.Lock", "Ts") {
				tests = append(tests, b)
			}
		}
	}
	c.Decide(len(tests) == 1, rule, key(fn, "has:readTs>=lock.Ts"), fn.Pos(), len(tests)+1, "blocking comparison readTs >= lock.Ts present", fmt.Sprintf("expected exactly one `readTs >= lock.Ts` test, found %d (the blocking comparison was removed or changed operator)", len(tests)))
	for _, t := range tests {
		for i, r := range reads {
			// the blocking (true) edge must not reach the read
			c.Decide(!blockReaches(t.Succs[0], r.Block()) || t.Succs[0] == t.Succs[1], rule, key(fn, fmt.Sprintf("value-read[%d]#not-on-blocked-edge", i+1)), r.Pos(), 2,
				"a lock at or below the read timestamp blocks the read", "the value is read even when a lock with start ts <= readTs is present")
		}
	}
}

func returnsBool(b *ssa.BasicBlock, want bool) bool {
	seen := map[*ssa.BasicBlock]bool{}
	for b != nil && !seen[b] {
		seen[b] = true
		switch t := b.Instrs[len(b.Instrs)-1].(type) {
		case *ssa.Return:
			if k, ok := t.Results[0].(*ssa.Const); ok && k.Value != nil {
				return (k.Value.String() == "true") == want
			}
			return false
		case *ssa.Jump:
			b = b.Succs[0]
		default:
			return false
		}
	}
	return false
}

func returnsSentinel(fn *ssa.Function, b *ssa.BasicBlock, name string) bool {
	ei := ErrorResultIndex(fn)
	seen := map[*ssa.BasicBlock]bool{}
	for b != nil && !seen[b] {
		seen[b] = true
		switch t := b.Instrs[len(b.Instrs)-1].(type) {
		case *ssa.Return:
			if u, ok := RetVal(t, ei).(*ssa.UnOp); ok {
				if g, ok := u.X.(*ssa.Global); ok && g.Name() == name {
					return true
				}
			}
			return false
		case *ssa.Jump:
			b = b.Succs[0]
		case *ssa.If:
			// `a || b` chain leading to the same return
			return returnsSentinel(fn, b.Succs[0], name)
		default:
			return false
		}
	}
	return false
}

// leadsToLoopNotReturn: following jumps from b we get back into a loop header (a block
// that can reach b) before meeting a Return.
func leadsToLoopNotReturn(b *ssa.BasicBlock) bool {
	start := b
	seen := map[*ssa.BasicBlock]bool{}
	for steps := 0; b != nil && !seen[b] && steps < 6; steps++ {
		seen[b] = true
		switch b.Instrs[len(b.Instrs)-1].(type) {
		case *ssa.Return:
			return false
		case *ssa.Jump:
			b = b.Succs[0]
			if blockReaches(b, start) {
				return true
			}
		case *ssa.If:
			return blockReaches(b, start)
		default:
			return false
		}
	}
	return false
}

func C18(c *Ctx) {
	c.Note("exclusion of overlapping [start, commit] intervals across regions; idempotence of re-applied raft log entries as a history property; timestamps supplied by clients being unique")
	commitAllOrNothing(c, "K1.commit-refused-before-any-write")
	committedLockLeftover(c, "K1.interrupted-commit-is-committed")
	rollbackKeepsForeignCommit(c, "K1.rollback-keeps-foreign-commit")
	lockLifetimeGuards(c, "K1.lock-keeps-its-promises")
	const r1 = "K8.rollback-record-excluded"
	c.Rule(r1, "every use of Reader.GetWriteByStartTs (Commit, commitKey, rollbackKey, CheckTxnStatus) compares the found write's Kind with Mutation_Rollback before treating it as evidence of a commit (before any path that reports success / a commit version)")
	ops := opConsts(c)
	sites := 0
	for _, fn := range c.P.ModFuncs {
		if FuncPkgPath(fn) != Module+"/percolator" {
			continue
		}
		for i, g := range Calls(fn, false, Named("percolator.(*Reader).GetWriteByStartTs")) {
			c.Touch(fn)
			sites++
			k := key(fn, fmt.Sprintf("GetWriteByStartTs[%d]#Kind-vs-Rollback", i+1))
			// the write pointer result
			var wv ssa.Value
			for _, r := range *g.Value().Referrers() {
				if ex, ok := r.(*ssa.Extract); ok && ex.Index == 0 {
					wv = ex
				}
			}
			checked := false
			for _, kt := range kindTests(fn) {
				if kt.val != ops["Mutation_Rollback"] {
					continue
				}
				// the tested Kind is loaded from this write
				if u, ok := kt.cond.X.(*ssa.UnOp); ok {
					if fa, ok := u.X.(*ssa.FieldAddr); ok && fa.X == wv {
						// the test must dominate every block reachable on the non-nil-write edge before a return
						checked = nonNilWriteGuarded(fn, wv, kt.ifi.Block())
					}
				}
			}
			if !checked && wv != nil {
				// a found write of either kind is handled alike: every path from the non-nil edge
				// returns the same nil constants without calling anything (e.g. rollbackKey leaving
				// a key with any write record untouched), or the pair is handed to the caller
				uniform := false
				for _, e := range NilEdges(fn, map[ssa.Value]bool{wv: true}) {
					uniform = uniformNilReturn(e.NonNil[1])
				}
				if uniform {
					c.Pass(r1, k, g.Pos(), 2, "a found write leads to the same effect-free nil return whatever its kind")
					continue
				}
				if returnsValue(fn, wv) {
					c.Pass(r1, k, g.Pos(), 2, "the found write is returned to the caller, which examines it")
					continue
				}
			}
			c.Decide(checked, r1, k, g.Pos(), 3, "a found write is checked for being a rollback marker first", "a write record found by start ts is treated as a commit without excluding the rollback marker (commit after rollback would succeed / be reported)")
		}
	}
	c.Decide(sites >= 3, r1, "percolator#GetWriteByStartTs-sites", 0, sites+1, fmt.Sprintf("%d use sites in package percolator", sites), fmt.Sprintf("expected at least 3 GetWriteByStartTs use sites in package percolator (commit, rollback, status check), found %d", sites))

	const r2 = "K1.conflict-checks-before-writes"
	c.Rule(r2, "prewriteMutation: the lock-mismatch return and the write-conflict return (commitTs >= StartVersion) lie on every path to the data and lock writes; rollbackKey: the existing-write test precedes the deletes and the rollback record; commitKey: the MinCommitTs test and the existing-write test precede the commit record; the commit record is written before the lock is removed")
	wr := deepMatcher(Named("NoKV.(*DB).SetVersionedEntry", "NoKV.(*DB).DeleteVersionedEntry"), Module+"/percolator", 2)
	if fn := c.Fn("percolator", "prewriteMutation"); fn != nil {
		prewriteGuards(c, r2, fn, wr)
		// the lock is written last, at lockColumnTs, after the data write succeeded
		lockWrites := 0
		holders := []*ssa.Function{fn}
		AllInstrs(fn, false, func(in ssa.Instruction) {
			if ci, ok := in.(ssa.CallInstruction); ok {
				if h := StaticFn(ci.Common()); h != nil && h.Blocks != nil && h != fn && FuncPkgPath(h) == FuncPkgPath(fn) {
					holders = append(holders, h)
				}
			}
		})
		for _, g := range holders {
			for _, w := range Calls(g, false, Named("NoKV.(*DB).SetVersionedEntry")) {
				if cf, ok := ConstInt(w.Common().Args[1]); ok && cf == cfValue(c, "CFLock") {
					lockWrites++
					v, ok := w.Common().Args[3].(*ssa.Const)
					c.Decide(ok && v.Value != nil && v.Value.ExactString() == "18446744073709551615", r2, key(fn, "lock-write#version=lockColumnTs"), w.Pos(), 1, "lock stored at the fixed lock-column version", "the lock is not written at lockColumnTs")
				}
			}
		}
		c.Decide(lockWrites == 1, r2, key(fn, "single-lock-write"), fn.Pos(), 1, "one lock write", fmt.Sprintf("%d lock writes in prewriteMutation", lockWrites))
	}
	if fn := c.Fn("percolator", "rollbackKey"); fn != nil {
		beforeOK(c, r2, fn, "GetWriteByStartTs", Named("percolator.(*Reader).GetWriteByStartTs"), "versioned write", wr, 2)
		// existing write (non-nil) edge never reaches the writes
		for _, g := range Calls(fn, false, Named("percolator.(*Reader).GetWriteByStartTs")) {
			var wv ssa.Value
			for _, r := range *g.Value().Referrers() {
				if ex, ok := r.(*ssa.Extract); ok && ex.Index == 0 {
					wv = ex
				}
			}
			bad := false
			for _, e := range NilEdges(fn, map[ssa.Value]bool{wv: true}) {
				for _, w := range Calls(fn, false, wr) {
					if blockReaches(e.NonNil[1], w.Block()) {
						bad = true
					}
				}
			}
			c.Decide(!bad, r2, key(fn, "existing-write→no-writes"), g.Pos(), 2, "a key that already has a write record for this start ts is left untouched (a committed primary is not undone)", "rollbackKey can delete/overwrite state of a key that already has a write record for the start ts")
		}
	}
	if fn := c.Fn("percolator", "commitKey"); fn != nil {
		// commitVersion < lock.MinCommitTs → refused before any write (order-sign evaluation)
		below, atOrAbove, n := minCommitReach(c, fn, wr)
		c.Decide(!below, r2, key(fn, "reject:MinCommitTs>commitVersion"), fn.Pos(), n, "a commit below the lock's minimum commit ts is refused before any write", "a write is reachable when MinCommitTs > commitVersion")
		c.Decide(!below && atOrAbove, r2, key(fn, "has:MinCommitTs-guard"), fn.Pos(), n, "guard present", "commitKey no longer refuses commitVersion < lock.MinCommitTs")
		// commit record (CFWrite) before lock removal (CFLock delete) on the fresh-commit path
		var commitRec, lockDel []ssa.CallInstruction
		for _, w := range Calls(fn, false, Named("NoKV.(*DB).SetVersionedEntry")) {
			if cf, ok := ConstInt(w.Common().Args[1]); ok && cf == cfValue(c, "CFWrite") {
				commitRec = append(commitRec, w)
			}
		}
		lockDel = effectSites(c, fn, isLockDeleteOf(cfValue(c, "CFLock")), 2)
		c.Decide(len(commitRec) == 1 && len(lockDel) >= 1, r2, key(fn, "has:commit-record+lock-delete"), fn.Pos(), 2, "commit record and lock removal present", "commitKey no longer writes the commit record and removes the lock")
		// every lock removal is either behind the successful commit-record write, or on the
		// already-committed path (the write record found by start ts is non-nil)
		var wv ssa.Value
		for _, g := range Calls(fn, false, Named("percolator.(*Reader).GetWriteByStartTs")) {
			for _, r := range *g.Value().Referrers() {
				if ex, ok := r.(*ssa.Extract); ok && ex.Index == 0 {
					wv = ex
				}
			}
		}
		for i, d := range lockDel {
			onCommitted := false
			if wv != nil {
				for _, e := range NilEdges(fn, map[ssa.Value]bool{wv: true}) {
					if EdgeDominates(e.NonNil[0], e.NonNil[1], d.Block()) {
						onCommitted = true
					}
				}
			}
			if onCommitted {
				c.Pass(r2, key(fn, fmt.Sprintf("lock-delete[%d]<-ok(commit-record)|already-committed", i+1)), d.Pos(), 2, "lock removal on the already-committed path (a write record for the start ts exists)")
				continue
			}
			// a removal shared by both paths: the edges on which the record was found count as
			// satisfied, every other route to it must pass the successful commit-record write
			found := edgeSet{}
			if wv != nil {
				for _, e := range NilEdges(fn, map[ssa.Value]bool{wv: true}) {
					found[e.NonNil] = true
				}
			}
			succOK(c, r2, key(fn, fmt.Sprintf("lock-delete[%d]<-ok(commit-record)|already-committed", i+1)), fn, commitRec, "commit record write", d.(ssa.Instruction), "lock removal", found)
		}
	}

	const r3 = "K13.latch-pairing"
	c.Rule(r3, "Prewrite, Commit, BatchRollback, ResolveLock and CheckTxnStatus each acquire the latches of the request's keys and defer the release before touching the store")
	for _, name := range []string{"Prewrite", "Commit", "BatchRollback", "ResolveLock", "CheckTxnStatus"} {
		fn := c.Fn("percolator", name)
		if fn == nil {
			continue
		}
		acq := need(c, r3, fn, false, "latches.Acquire", Named("percolator/latch.(*Manager).Acquire"), 1)
		rel := 0
		AllInstrs(fn, false, func(in ssa.Instruction) {
			if d, ok := in.(*ssa.Defer); ok && Named("percolator/latch.(*Guard).Release")(d.Common()) {
				rel++
				if len(acq) > 0 && len(d.Common().Args) > 0 && d.Common().Args[0] != acq[0].Value() {
					rel += 100
				}
			}
		})
		c.Decide(rel == 1, r3, key(fn, "defer:guard.Release"), fn.Pos(), 2, "the acquired guard is released by defer", "the latch guard returned by Acquire is not released by a defer in "+name)
		// store access only after Acquire
		store := Named("percolator.NewReader", "percolator.prewriteMutation", "percolator.commitKey", "percolator.rollbackKey", "NoKV.(*DB).SetVersionedEntry", "NoKV.(*DB).DeleteVersionedEntry", "percolator.(*Reader).GetLock")
		for i, s := range Calls(fn, false, store) {
			ok, n := MustPrecede(fn, s.(ssa.Instruction), instrs(acq))
			c.Decide(ok, r3, key(fn, fmt.Sprintf("store-access[%d]<-Acquire", i+1)), s.Pos(), n, "store access under latches", "the store is accessed before the latches are acquired")
		}
		// keys operand derives from the request
		if len(acq) > 0 {
			arg := acq[0].Common().Args[len(acq[0].Common().Args)-1]
			c.Decide(fromRequestKeys(arg, 6), r3, key(fn, "Acquire#keys-from-request"), acq[0].Pos(), 1, "latched keys come from the request", "Acquire is not given the request's keys")
		}
	}
}

// nonNilWriteGuarded: test block t dominates every block reachable from the non-nil edge of wv's nil test
// up to returns (i.e. the Kind test is the first thing done with a found write).
func nonNilWriteGuarded(fn *ssa.Function, wv ssa.Value, t *ssa.BasicBlock) bool {
	for _, e := range NilEdges(fn, map[ssa.Value]bool{wv: true}) {
		if e.NonNil[1] == t {
			return true
		}
		if t.Dominates(e.NonNil[1]) {
			continue
		}
		// allow straight-line blocks between
		if e.NonNil[1].Dominates(t) {
			// no return between
			b := e.NonNil[1]
			okPath := true
			for b != t {
				if len(b.Succs) != 1 {
					okPath = false
					break
				}
				b = b.Succs[0]
			}
			if okPath {
				return true
			}
		}
	}
	return false
}

func cfValue(c *Ctx, name string) int64 {
	if k, ok := c.P.LookupObj("kv", name).(interface{ Val() constant.Value }); ok {
		v, _ := constant.Int64Val(constant.ToInt(k.Val()))
		return v
	}
	c.Errorf("UNRESOLVED-ANCHOR kv.%s", name)
	return -1
}

// fromRequestKeys: v derives from a field of a pb request parameter (Keys, PrimaryKey, Mutations[].Key).
func fromRequestKeys(v ssa.Value, depth int) bool {
	if depth <= 0 || v == nil {
		return false
	}
	switch x := v.(type) {
	case *ssa.UnOp:
		if o, _, ok := FieldOf(x.X); ok && (o == "pb.CommitRequest" || o == "pb.BatchRollbackRequest" || o == "pb.ResolveLockRequest" || o == "pb.CheckTxnStatusRequest" || o == "pb.PrewriteRequest" || o == "pb.Mutation") {
			return true
		}
		return fromRequestKeys(x.X, depth-1)
	case *ssa.Phi:
		for _, e := range x.Edges {
			if fromRequestKeys(e, depth-1) {
				return true
			}
		}
	case *ssa.Call:
		if bi, ok := x.Call.Value.(*ssa.Builtin); ok && bi.Name() == "append" {
			for _, a := range x.Call.Args {
				if fromRequestKeys(a, depth-1) {
					return true
				}
			}
		}
		for _, a := range x.Call.Args {
			if fromRequestKeys(a, depth-1) {
				return true
			}
		}
	case *ssa.Slice:
		return fromRequestKeys(x.X, depth-1)
	case *ssa.Alloc:
		if x.Referrers() != nil {
			for _, r := range *x.Referrers() {
				if ia, ok := r.(*ssa.IndexAddr); ok && ia.Referrers() != nil {
					for _, rr := range *ia.Referrers() {
						if st, ok := rr.(*ssa.Store); ok && fromRequestKeys(st.Val, depth-1) {
							return true
						}
					}
				}
			}
		}
	case *ssa.MakeSlice:
		return false
	}
	return false
}

func C19(c *Ctx) {
	c.Note("TTL arithmetic overflow; histories; the version-tie recency of the lock column across flushes (C01 known finding applies: a tombstone in a newer L0 table can lose the tie to the older lock)")
	const r1 = "K12.lock-column-version"
	c.Rule(r1, "every read and write of the lock column uses the one constant lockColumnTs and column family CFLock: Reader.GetLock, prewrite lock write, commitKey/rollbackKey lock deletes, CheckTxnStatus min-commit push")
	cfLock := cfValue(c, "CFLock")
	n := 0
	for _, f := range c.P.ModFuncs {
		if FuncPkgPath(f) != Module+"/percolator" {
			continue
		}
		for _, ci := range Calls(f, false, Named("NoKV.(*DB).SetVersionedEntry", "NoKV.(*DB).DeleteVersionedEntry", "NoKV.(*DB).GetVersionedEntry")) {
			args := ci.Common().Args
			if cf, ok := ConstInt(args[1]); !ok || cf != cfLock {
				continue
			}
			n++
			v, ok := args[3].(*ssa.Const)
			c.Decide(ok && v.Value != nil && v.Value.ExactString() == "18446744073709551615", r1, key(f, fmt.Sprintf("%s@CFLock[%d]#version", CalleeObj(ci.Common()).Name(), ordinalIn(f, ci))), ci.Pos(), 1, "lock column accessed at lockColumnTs", "lock column accessed at a version other than lockColumnTs")
		}
	}
	c.Floor(r1, n, 3, "lock-column accesses")

	const r2 = "K2.expiry-and-min-commit-guards"
	c.Rule(r2, "CheckTxnStatus rolls back a present lock only on the true edge of isLockExpired(lock, req.CurrentTs) and only when lock.Ts == req.LockTs; isLockExpired is currentTs >= lock.Ts+lock.TTL with TTL==0 never expiring; commitKey refuses commitVersion < lock.MinCommitTs; GetLock treats a tombstone as no lock")
	if fn := c.Fn("percolator", "CheckTxnStatus"); fn != nil {
		exp := Named("percolator.isLockExpired")
		rbM := Named("percolator.rollbackKey")
		// rollbacks reachable on the lock != nil path must be guarded by isLockExpired; the two
		// halves of the function may live in helpers it dispatches to
		lockNil := Calls(fn, false, Named("percolator.(*Reader).GetLock"))
		onNilEdge := func(in ssa.Instruction) bool {
			if len(lockNil) == 0 {
				return false
			}
			var lv ssa.Value
			for _, r := range *lockNil[0].Value().Referrers() {
				if ex, ok := r.(*ssa.Extract); ok && ex.Index == 0 {
					lv = ex
				}
			}
			for _, e := range NilEdges(fn, map[ssa.Value]bool{lv: true}) {
				if EdgeDominates(e.Nil[0], e.Nil[1], in.Block()) {
					return true
				}
			}
			return false
		}
		guarded, i := 0, 0
		for _, site := range effectSites(c, fn, func(ci ssa.CallInstruction) bool { return rbM(ci.Common()) }, 1) {
			g, rbs := fn, []ssa.CallInstruction{site}
			if !rbM(site.Common()) {
				g = StaticFn(site.Common())
				rbs = Calls(g, false, rbM)
			}
			for _, rb := range rbs {
				i++
				ok, _ := guardedByCall(g, rb.(ssa.Instruction), exp, true)
				if !ok && g != fn {
					ok, _ = guardedByCall(fn, site.(ssa.Instruction), exp, true)
				}
				if ok {
					guarded++
					c.Pass(r2, key(fn, fmt.Sprintf("rollbackKey[%d]<-isLockExpired", i)), rb.Pos(), 2, "rollback of a present lock lies on the expired edge")
					continue
				}
				// otherwise it must be on the lock == nil path
				c.Decide(onNilEdge(site.(ssa.Instruction)), r2, key(fn, fmt.Sprintf("rollbackKey[%d]<-isLockExpired|no-lock", i)), rb.Pos(), 2, "rollback on the lock-absent path (RollbackIfNotExist)", "a present, unexpired lock can be rolled back by CheckTxnStatus")
			}
		}
		c.Decide(guarded == 1, r2, key(fn, "single-expiry-rollback"), fn.Pos(), 1, "one expiry-guarded rollback", fmt.Sprintf("%d expiry-guarded rollbacks", guarded))
		exps := Calls(fn, false, exp)
		AllInstrs(fn, false, func(in ssa.Instruction) {
			if ci, ok := in.(ssa.CallInstruction); ok {
				if h := StaticFn(ci.Common()); h != nil && h.Blocks != nil && h != fn && FuncPkgPath(h) == FuncPkgPath(fn) && !exp(ci.Common()) {
					exps = append(exps, Calls(h, false, exp)...)
				}
			}
		})
		for _, e := range exps {
			c.Decide(isFieldLoad(e.Common().Args[1], "pb.CheckTxnStatusRequest", "CurrentTs"), r2, key(fn, "isLockExpired#arg=CurrentTs"), e.Pos(), 1, "expiry is judged against the caller's timestamp", "isLockExpired is not given req.CurrentTs")
		}
	}
	if fn := c.Fn("percolator", "isLockExpired"); fn != nil {
		// decided by order-sign evaluation: expired iff TTL != 0, Ts+TTL does not overflow and
		// currentTs >= Ts+TTL – whatever the spelling of the overflow test (TTL > Max-Ts, the carry
		// of bits.Add64) and of the comparison
		var role func(v ssa.Value) string
		role = func(v ssa.Value) string {
			v = Unwrap(v)
			if len(fn.Params) > 1 && v == fn.Params[1] {
				return "cur"
			}
			if len(fn.Params) > 0 && v == fn.Params[0] {
				return "lock"
			}
			if k, ok := v.(*ssa.Const); ok && k.IsNil() {
				return "nil"
			}
			if isFieldLoad(v, "percolator.Lock", "TTL") {
				return "ttl"
			}
			switch x := v.(type) {
			case *ssa.BinOp:
				ts := func(y ssa.Value) bool { return isFieldLoad(y, "percolator.Lock", "Ts") }
				ttl := func(y ssa.Value) bool { return isFieldLoad(y, "percolator.Lock", "TTL") }
				if x.Op == token.ADD && (ts(x.X) && ttl(x.Y) || ts(x.Y) && ttl(x.X)) {
					return "deadline"
				}
				if x.Op == token.SUB && ts(x.Y) {
					if k, ok := x.X.(*ssa.Const); ok && k.Value != nil && k.Value.ExactString() == "18446744073709551615" {
						return "room"
					}
				}
			case *ssa.Extract:
				if call, ok := x.Tuple.(*ssa.Call); ok && Named("math/bits.Add64")(call.Common()) {
					if x.Index == 0 {
						return "deadline"
					}
					return "carry"
				}
			}
			return ""
		}
		eval := func(ttl, overflow, cmp int) Tri {
			signs := map[string]int{}
			SetSign(signs, "lock", "nil", 1)
			SetSign(signs, "ttl", "0", ttl)
			SetSign(signs, "ttl", "room", overflow)
			SetSign(signs, "carry", "0", map[bool]int{true: 1, false: 0}[overflow > 0])
			SetSign(signs, "cur", "deadline", cmp)
			return (&SignEnv{Role: role, Signs: signs, Depth: 1}).ReturnValue(fn, 0)
		}
		bad := ""
		for _, cmp := range []int{-1, 0, 1} {
			for _, ov := range []int{-1, 0} {
				want := cmp >= 0
				if got := eval(1, ov, cmp); (got == True) != want || got == Unknown {
					if bad == "" {
						bad = fmt.Sprintf("TTL>0, no overflow, currentTs?deadline=%d: answers %s, want %v", cmp, triName(got), want)
					}
				}
			}
		}
		c.Decide(bad == "", r2, key(fn, "currentTs>=Ts+TTL"), fn.Pos(), 7, "expired iff currentTs >= lock.Ts + lock.TTL", "expiry comparison is not currentTs >= lock.Ts+lock.TTL ("+bad+")")
		ttl0 := true
		for _, cmp := range []int{-1, 0, 1} {
			if eval(0, -1, cmp) != False {
				ttl0 = false
			}
		}
		c.Decide(ttl0, r2, key(fn, "TTL==0→never"), fn.Pos(), 4, "TTL 0 never expires", "the TTL==0 (never expires) case is gone")
	}
	if fn := c.Fn("percolator", "Reader.GetLock"); fn != nil {
		// tombstone → nil lock
		tomb := false
		for _, b := range fn.Blocks {
			if ifi := ifOf(b); ifi != nil {
				if bo, ok := ifi.Cond.(*ssa.BinOp); ok && (bo.Op == token.GTR || bo.Op == token.NEQ || bo.Op == token.EQL) {
					// Meta&BitDelete > 0, != 0, or == 0 with the branches exchanged
					if and, ok := bo.X.(*ssa.BinOp); ok && and.Op == token.AND && (isFieldLoad(and.X, "kv.Entry", "Meta") || isFieldLoad(and.Y, "kv.Entry", "Meta")) {
						tomb = true
					}
				}
			}
		}
		c.Decide(tomb, r2, key(fn, "tombstone→no-lock"), fn.Pos(), 1, "a deleted lock entry reads as no lock", "GetLock no longer treats a tombstone as absence of a lock")
	}
	if fn := c.Fn("percolator", "commitKey"); fn != nil {
		below, atOrAbove, n := minCommitReach(c, fn, Named("NoKV.(*DB).SetVersionedEntry", "NoKV.(*DB).DeleteVersionedEntry"))
		c.Decide(!below && atOrAbove, r2, key(fn, "MinCommitTs>commitVersion→error"), fn.Pos(), n, "a commit below the lock's minimum commit ts is refused", "commitKey does not refuse commitVersion < lock.MinCommitTs")
	}
	lockLifetimeGuards(c, "K1.lock-keeps-its-promises")
	const r2c = "K2.rollback-removes-own-lock-only"
	c.Rule(r2c, "rollbackKey removes the lock column entry only on the true edge of `lock.Ts == startTs` (the lock read with Reader.GetLock belongs to the transaction being rolled back); isLockExpired refuses to add Ts and TTL when the sum overflows uint64 (such a lock never expires)")
	if fn := c.Fn("percolator", "rollbackKey"); fn != nil {
		var startTs ssa.Value
		if n := len(fn.Params); n > 0 {
			startTs = fn.Params[n-1]
		}
		for i, d := range effectSites(c, fn, isLockDeleteOf(cfLock), 2) {
			guarded := false
			for _, b := range fn.Blocks {
				ifi := ifOf(b)
				if ifi == nil {
					continue
				}
				var edges [][2]*ssa.BasicBlock
				var visit func(v ssa.Value, target *ssa.BasicBlock)
				_ = visit
				if bo, ok := ifi.Cond.(*ssa.BinOp); ok && (bo.Op == token.EQL || bo.Op == token.NEQ) {
					l, r := bo.X, bo.Y
					isLockTs := func(v ssa.Value) bool { return isFieldLoad(v, "percolator.Lock", "Ts") }
					if (isLockTs(l) && r == startTs) || (isLockTs(r) && l == startTs) {
						if bo.Op == token.EQL {
							edges = append(edges, [2]*ssa.BasicBlock{b, b.Succs[0]})
						} else {
							edges = append(edges, [2]*ssa.BasicBlock{b, b.Succs[1]})
						}
					}
				}
				for _, e := range edges {
					if EdgeDominates(e[0], e[1], d.Block()) {
						guarded = true
					}
				}
			}
			c.Decide(guarded, r2c, key(fn, fmt.Sprintf("lock-delete[%d]<-lock.Ts==startTs", i+1)), d.Pos(), 2, "only the rolled-back transaction's own lock is removed", "rollbackKey deletes the key's lock without checking that it belongs to the transaction being rolled back: rolling back a refused prewrite removes the lock of the transaction that holds the key, whose commit then fails with `lock not found`")
		}
	}
	if fn := c.Fn("percolator", "isLockExpired"); fn != nil {
		// the addition Ts+TTL is dominated by an overflow test (TTL > MaxUint64 - Ts, or a wrap test)
		guardedAdd := true
		AllInstrs(fn, false, func(in ssa.Instruction) {
			bo, ok := in.(*ssa.BinOp)
			if !ok || bo.Op != token.ADD || !(isFieldLoad(bo.X, "percolator.Lock", "Ts") || isFieldLoad(bo.Y, "percolator.Lock", "Ts")) {
				return
			}
			ok2 := false
			for _, b := range fn.Blocks {
				ifi := ifOf(b)
				if ifi == nil || !b.Dominates(bo.Block()) || b == bo.Block() {
					continue
				}
				if cmp, ok := ifi.Cond.(*ssa.BinOp); ok && (cmp.Op == token.GTR || cmp.Op == token.LSS || cmp.Op == token.GEQ || cmp.Op == token.LEQ) {
					// one side is MaxUint64 - x
					for _, side := range []ssa.Value{cmp.X, cmp.Y} {
						if sub, ok := side.(*ssa.BinOp); ok && sub.Op == token.SUB {
							if k, ok := sub.X.(*ssa.Const); ok && k.Value != nil && k.Value.ExactString() == "18446744073709551615" {
								ok2 = true
							}
						}
					}
				}
			}
			if !ok2 {
				guardedAdd = false
			}
		})
		c.Decide(guardedAdd, r2c, key(fn, "Ts+TTL#overflow-guard"), fn.Pos(), 1, "the expiry instant is computed only when it fits into uint64", "isLockExpired adds lock.Ts and lock.TTL without an overflow test: a TTL near the maximum wraps to a small expiry instant and a fresh lock is rolled back as expired")
	}
	// every commit/rollback path removes the lock
	const r3 = "K1.lock-removed-on-outcome"
	c.Rule(r3, "rollbackKey (fresh rollback path) and commitKey (fresh commit and already-committed-with-other-version paths) delete the lock column entry; errors of those deletes are returned")
	for _, name := range []string{"rollbackKey", "commitKey"} {
		fn := c.Fn("percolator", name)
		if fn == nil {
			continue
		}
		dels := 0
		for i, w := range effectSites(c, fn, isLockDeleteOf(cfLock), 2) {
			dels++
			c.Decide(outcomeChecked(fn, w), r3, key(fn, fmt.Sprintf("lock-delete[%d]#error-checked", i+1)), w.Pos(), 1, "delete outcome is examined", "the error of the lock delete is ignored")
		}
		c.Decide(dels >= 1, r3, key(fn, "lock-deletes"), fn.Pos(), dels+1, fmt.Sprintf("%d lock delete site(s)", dels), fmt.Sprintf("no lock delete site in %s: a lock would outlive its transaction", name))
		if name == "commitKey" {
			// every success return of commitKey lies behind a lock removal (fresh commit and
			// already-committed paths alike, however many delete sites spell it)
			bad, n := 0, 0
			ds := instrs(effectSites(c, fn, isLockDeleteOf(cfLock), 2))
			for _, r := range Returns(fn) {
				if !IsNilConst(RetVal(r, 0)) {
					continue
				}
				n++
				if ok, _ := MustPrecede(fn, r, ds); !ok {
					bad++
				}
			}
			c.Decide(n > 0 && bad == 0, r3, key(fn, "success→lock-removed"), fn.Pos(), n+1, "every success return follows a lock removal", "commitKey can report success without removing the lock: the lock would outlive its transaction")
		}
	}
}

func returnsNonNilPtr(b *ssa.BasicBlock) bool {
	seen := map[*ssa.BasicBlock]bool{}
	for b != nil && !seen[b] {
		seen[b] = true
		switch t := b.Instrs[len(b.Instrs)-1].(type) {
		case *ssa.Return:
			return len(t.Results) > 0 && !IsNilConst(t.Results[0])
		case *ssa.Jump:
			b = b.Succs[0]
		default:
			return false
		}
	}
	return false
}

func C20(c *Ctx) {
	c.Note("eventual acquisition / fairness; hash collisions only coarsen exclusion; releasing a guard from another goroutine")
	everyKeyLatchedGroup(c, "K1.every-key-is-latched")
	const r1 = "K1.total-lock-order"
	c.Rule(r1, "latch.Manager.Acquire sorts the deduplicated stripe indices (sort.Ints) before the loop that locks them and locks nothing else; the indices are hash(key) %% len(stripes); stripes are locked nowhere else in the module")
	fn := c.Fn("percolator/latch", "Manager.Acquire")
	if fn != nil {
		// the slice of stripe indices is built (hashed, de-duplicated, sorted) either in Acquire
		// itself or in a latch-package helper whose result Acquire ranges over; the build rules
		// are evaluated on whichever function that is
		locks := need(c, r1, fn, false, "stripe.Lock", Named("(*sync.Mutex).Lock"), 1)
		builder := fn
		var keysParam ssa.Value
		if len(fn.Params) >= 2 {
			keysParam = fn.Params[1]
		}
		var sortedInFn []ssa.CallInstruction
		var ranged ssa.Value // the slice the lock loop ranges over
		for _, l := range locks {
			if ia, ok := l.Common().Args[0].(*ssa.IndexAddr); ok {
				ranged = rangedSliceOf(ia.Index, 5)
			}
		}
		sortedInFn = Calls(fn, false, sortIntsCall)
		helperSorted := false
		if len(sortedInFn) == 0 && ranged != nil {
			// ranged := m.helper(keys)
			if call, ok := sliceOrigin(ranged, 4).(*ssa.Call); ok {
				if h := StaticFn(call.Common()); h != nil && h.Blocks != nil && FuncPkgPath(h) == FuncPkgPath(fn) {
					hs := Calls(h, false, sortIntsCall)
					good := len(hs) > 0
					for _, r := range Returns(h) {
						rv := RetVal(r, 0)
						if IsNilConst(rv) {
							continue
						}
						okr := false
						for _, sc := range hs {
							if sameSlice(rv, sc.Common().Args[0], 4) {
								if pre, _ := MustPrecede(h, r, []ssa.Instruction{sc.(ssa.Instruction)}); pre {
									okr = true
								}
							}
						}
						if !okr && !isEmptySliceReturn(rv) {
							good = false
						}
					}
					if good {
						helperSorted = true
						builder = h
						c.Touch(h)
						keysParam = nil
						for i, a := range call.Call.Args {
							if len(fn.Params) >= 2 && a == fn.Params[1] && i < len(h.Params) {
								keysParam = h.Params[i]
							}
						}
					}
				}
			}
		}
		c.Decide(len(sortedInFn) >= 1 || helperSorted, r1, key(fn, "has:sort.Ints|slices.Sort"), fn.Pos(), len(sortedInFn)+1, "the stripe indices are sorted before they are locked", "expected at least 1 call(s) to sort.Ints|slices.Sort in (*percolator/latch.Manager).Acquire (or in the helper whose result it locks), found 0")
		for i, l := range locks {
			if helperSorted {
				c.Pass(r1, key(fn, fmt.Sprintf("Lock[%d]<-sort", i+1)), l.Pos(), 2, "the locked indices are the sorted result of "+FuncName(builder))
				c.Pass(r1, key(fn, fmt.Sprintf("Lock[%d]#index-from-sorted-slice", i+1)), l.Pos(), 1, "the lock loop ranges over the helper's sorted result")
			} else {
				ok, n := MustPrecede(fn, l.(ssa.Instruction), instrs(sortedInFn))
				c.Decide(ok, r1, key(fn, fmt.Sprintf("Lock[%d]<-sort", i+1)), l.Pos(), n, "stripes are locked in ascending index order", "a stripe can be locked before the indices were sorted (lock-order inversion ⇒ deadlock)")
				// the locked element is stripes[idx] with idx ranging over the sorted slice
				ia, ok2 := l.Common().Args[0].(*ssa.IndexAddr)
				good := false
				if ok2 && len(sortedInFn) > 0 {
					good = rangesOverValue(ia.Index, sortedInFn[0].Common().Args[0], 5)
				}
				c.Decide(good, r1, key(fn, fmt.Sprintf("Lock[%d]#index-from-sorted-slice", i+1)), l.Pos(), 1, "the lock loop ranges over the sorted slice", "the locked stripe index does not come from the sorted slice")
			}
			c.Decide(blockInLoop(l.Block()), r1, key(fn, fmt.Sprintf("Lock[%d]#in-loop", i+1)), l.Pos(), 1, "one loop locks all stripes", "stripe locking is not a single loop over the indices")
		}
		c.Decide(len(locks) == 1, r1, key(fn, "single-lock-site"), fn.Pos(), len(locks)+1, "single lock site", fmt.Sprintf("%d lock sites in Acquire", len(locks)))
		// dedup: append to indices only after an equality scan (open-coded or slices.Contains/Index)
		eq := len(Calls(builder, false, func(cc *ssa.CallCommon) bool {
			o := CalleeObj(cc)
			return o != nil && o.Pkg() != nil && o.Pkg().Path() == "slices" && (o.Name() == "Contains" || o.Name() == "Index")
		})) > 0
		AllInstrs(builder, false, func(in ssa.Instruction) {
			if bo, ok := in.(*ssa.BinOp); ok && bo.Op == token.EQL && bo.X.Type().String() == "int" && bo.Y.Type().String() == "int" {
				eq = true
			}
		})
		c.Decide(eq, r1, key(fn, "dedup-scan"), fn.Pos(), 1, "duplicate stripe indices are removed (no self-deadlock)", "the duplicate-index scan is gone: two keys hashing to one stripe would self-deadlock")
		// modulo len(stripes): in the builder or in a latch-package helper it calls directly
		mod := false
		hasRem := func(f *ssa.Function) {
			AllInstrs(f, false, func(in ssa.Instruction) {
				if bo, ok := in.(*ssa.BinOp); ok && bo.Op == token.REM {
					mod = true
				}
			})
		}
		hasRem(builder)
		for _, cl := range Calls(builder, false, func(cc *ssa.CallCommon) bool { return true }) {
			if sf := StaticFn(cl.Common()); sf != nil && sf.Blocks != nil && FuncPkgPath(sf) == Module+"/percolator/latch" {
				hasRem(sf)
			}
		}
		c.Decide(mod, r1, key(fn, "idx=hash%len(stripes)"), fn.Pos(), 1, "index = hash mod stripe count", "stripe index is not reduced modulo the stripe count")
		// every key of the request is visited: the loop over the keys parameter has no early exit
		const r1b = "K1.every-key-latched"
		c.Rule(r1b, "the loop of Acquire (or of the helper that builds its index slice) over the keys parameter is left only when the keys are exhausted (no break/return inside it), so every non-empty key contributes its stripe")
		hs := RangeLoopHeaders(builder, func(s ssa.Value) bool { return keysParam != nil && s == keysParam })
		c.Decide(len(hs) == 1, r1b, key(fn, "range-over:keys"), fn.Pos(), 1, "one loop over keys", fmt.Sprintf("%d range loops over the keys parameter", len(hs)))
		for _, h := range hs {
			ex := LoopEarlyExits(h)
			where := fn.Pos()
			if len(ex) > 0 {
				for _, in := range ex[0][0].Instrs {
					if in.Pos().IsValid() {
						where = in.Pos()
					}
				}
			}
			c.Decide(len(ex) == 0, r1b, key(fn, "range-over:keys#no-early-exit"), where, len(NaturalLoop(h)), "the key loop runs to exhaustion", fmt.Sprintf("the key loop can be left early (%d exit edge(s)): later keys get no latch", len(ex)))
		}
	}
	// no other function locks a stripe
	n := 0
	for _, f := range c.P.ModFuncs {
		if FuncPkgPath(f) != Module+"/percolator/latch" {
			continue
		}
		for _, l := range Calls(f, false, Named("(*sync.Mutex).Lock", "(*sync.Mutex).TryLock")) {
			n++
			c.Decide(Root(f) == fn, r1, "percolator/latch#locker:"+FuncName(f), l.Pos(), 1, "only Acquire locks stripes", FuncName(f)+" locks a latch stripe outside Acquire's ordered loop")
		}
	}
	c.Floor(r1, n, 1, "stripe lock sites")

	const r2 = "K1.idempotent-release"
	c.Rule(r2, "Guard.Release unlocks every slot, then clears manager and slots; its early return tests those fields, so a second Release does nothing")
	if rel := c.Fn("percolator/latch", "Guard.Release"); rel != nil {
		un := need(c, r2, rel, false, "stripe.Unlock", Named("(*sync.Mutex).Unlock"), 1)
		clr := fieldStoresIn(rel, false, "percolator/latch.Guard", "slots")
		clr = append(clr, fieldStoresIn(rel, false, "percolator/latch.Guard", "manager")...)
		c.Decide(len(clr) >= 1, r2, key(rel, "clears:slots|manager"), rel.Pos(), 1, "guard is disarmed after release", "Release does not clear the guard: a second Release unlocks mutexes it no longer holds (fatal error: unlock of unlocked mutex)")
		for i, cl := range clr {
			ok, n := MustPrecede(rel, cl, instrs(un))
			_ = ok
			// the clear happens after the unlock loop: unlock's loop header dominates the clear
			c.Decide(len(un) > 0 && blockReaches(un[0].Block(), cl.Block()) && !blockReaches(cl.Block(), un[0].Block()), r2, key(rel, fmt.Sprintf("clear[%d]-after-unlock-loop", i+1)), cl.Pos(), n, "cleared after unlocking", "the guard is cleared before (or inside) the unlock loop")
		}
		// early return guard tests manager/slots
		tested := false
		for _, b := range rel.Blocks {
			if ifi := ifOf(b); ifi != nil {
				if bo, ok := ifi.Cond.(*ssa.BinOp); ok {
					if isFieldLoad(bo.X, "percolator/latch.Guard", "manager") || isLenOfField(bo.X, "percolator/latch.Guard", "slots") {
						tested = true
					}
				}
			}
		}
		c.Decide(tested, r2, key(rel, "early-return-on-cleared"), rel.Pos(), 1, "a cleared guard returns immediately", "Release does not test the cleared fields before unlocking")
		// reverse order not required for safety; unlock index comes from g.slots
	}
	const r3 = "K13.latch-pairing"
	c.Rule(r3, "all percolator entry points pair Acquire with a deferred Release (shared with C18)")
	for _, name := range []string{"Prewrite", "Commit", "BatchRollback", "ResolveLock", "CheckTxnStatus"} {
		f := c.Fn("percolator", name)
		if f == nil {
			continue
		}
		acq := Calls(f, false, Named("percolator/latch.(*Manager).Acquire"))
		rel := 0
		AllInstrs(f, false, func(in ssa.Instruction) {
			if d, ok := in.(*ssa.Defer); ok && Named("percolator/latch.(*Guard).Release")(d.Common()) {
				rel++
			}
		})
		c.Decide(len(acq) == 1 && rel == 1, r3, key(f, "Acquire+defer-Release"), f.Pos(), 2, "paired", fmt.Sprintf("%d Acquire / %d deferred Release in %s", len(acq), rel, name))
	}
}

// sortIntsCall matches an ascending sort of an []int: sort.Ints or slices.Sort.
func sortIntsCall(cc *ssa.CallCommon) bool {
	o := CalleeObj(cc)
	if o == nil || o.Pkg() == nil {
		return false
	}
	switch o.Pkg().Path() + "." + o.Name() {
	case "sort.Ints", "slices.Sort":
		return len(cc.Args) == 1 && strings.HasPrefix(cc.Args[0].Type().String(), "[]int")
	}
	return false
}

// rangesOverValue: idx is an element of slice value s (range loop load).
func rangesOverValue(idx ssa.Value, s ssa.Value, depth int) bool {
	if depth <= 0 {
		return false
	}
	switch x := idx.(type) {
	case *ssa.UnOp:
		if ia, ok := x.X.(*ssa.IndexAddr); ok {
			return sameSlice(ia.X, s, 4)
		}
	case *ssa.Phi:
		for _, e := range x.Edges {
			if rangesOverValue(e, s, depth-1) {
				return true
			}
		}
	}
	return false
}

func sameSlice(a, b ssa.Value, depth int) bool {
	if a == b {
		return true
	}
	if depth <= 0 {
		return false
	}
	if p, ok := a.(*ssa.Phi); ok {
		for _, e := range p.Edges {
			if sameSlice(e, b, depth-1) {
				return true
			}
		}
	}
	if p, ok := b.(*ssa.Phi); ok {
		for _, e := range p.Edges {
			if sameSlice(a, e, depth-1) {
				return true
			}
		}
	}
	return false
}

// isLockDeleteOf matches DB.DeleteVersionedEntry(cfLock, …).
func isLockDeleteOf(cfLock int64) func(ssa.CallInstruction) bool {
	m := Named("NoKV.(*DB).DeleteVersionedEntry")
	return func(ci ssa.CallInstruction) bool {
		if !m(ci.Common()) {
			return false
		}
		cf, ok := ConstInt(ci.Common().Args[1])
		return ok && cf == cfLock
	}
}

// uniformNilReturn: every path from b reaches a return of nil constants only, without
// calling anything.
func uniformNilReturn(b *ssa.BasicBlock) bool {
	seen := map[*ssa.BasicBlock]bool{}
	var walk func(x *ssa.BasicBlock) bool
	walk = func(x *ssa.BasicBlock) bool {
		if seen[x] {
			return true
		}
		seen[x] = true
		for _, in := range x.Instrs {
			switch t := in.(type) {
			case ssa.CallInstruction:
				return false
			case *ssa.Store, *ssa.MapUpdate, *ssa.Send:
				return false
			case *ssa.Return:
				for i := range t.Results {
					if !IsNilConst(RetVal(t, i)) {
						return false
					}
				}
				return true
			}
		}
		for _, s := range x.Succs {
			if !walk(s) {
				return false
			}
		}
		return len(x.Succs) > 0
	}
	return walk(b)
}

// returnsValue: v is a result of some return of fn.
func returnsValue(fn *ssa.Function, v ssa.Value) bool {
	for _, r := range Returns(fn) {
		for i := range r.Results {
			if RetVal(r, i) == v {
				return true
			}
		}
	}
	return false
}

// kindEnv fixes the value of every pb.Mutation_Op operand to actual: each comparison of a
// Mutation_Op value with a constant k becomes an atom whose sign is cmp(actual, k).
func kindEnv(ops map[string]int64, actual int64) *SignEnv {
	signs := map[string]int{}
	for _, k := range ops {
		s := 0
		if actual < k {
			s = -1
		} else if actual > k {
			s = 1
		}
		signs[fmt.Sprintf("kind:%d", k)] = s
	}
	return &SignEnv{Depth: 1, Signs: signs, Classify: func(bo *ssa.BinOp) (string, bool, bool) {
		x, y := bo.X, bo.Y
		flipped := false
		if TypeName(x.Type()) != "pb.Mutation_Op" {
			return "", false, false
		}
		k, ok := y.(*ssa.Const)
		if !ok {
			k, ok = x.(*ssa.Const)
			flipped = true
		}
		if !ok || k.Value == nil {
			return "", false, false
		}
		v, _ := constant.Int64Val(constant.ToInt(k.Value))
		return fmt.Sprintf("kind:%d", v), flipped, true
	}}
}

// rangedSliceOf: idx is an element load of a range loop over a slice; returns that slice.
func rangedSliceOf(idx ssa.Value, depth int) ssa.Value {
	if depth <= 0 {
		return nil
	}
	switch x := idx.(type) {
	case *ssa.UnOp:
		if ia, ok := x.X.(*ssa.IndexAddr); ok {
			return ia.X
		}
	case *ssa.Phi:
		for _, e := range x.Edges {
			if v := rangedSliceOf(e, depth-1); v != nil {
				return v
			}
		}
	}
	return nil
}

// sliceOrigin follows phis to the value a slice variable was first bound to.
func sliceOrigin(v ssa.Value, depth int) ssa.Value {
	if depth <= 0 {
		return v
	}
	if p, ok := v.(*ssa.Phi); ok {
		for _, e := range p.Edges {
			if o := sliceOrigin(e, depth-1); o != nil {
				if _, isCall := o.(*ssa.Call); isCall {
					return o
				}
			}
		}
	}
	return v
}

// isEmptySliceReturn: v is a nil or freshly made empty slice.
func isEmptySliceReturn(v ssa.Value) bool {
	if IsNilConst(v) {
		return true
	}
	return false
}

// minCommitReach evaluates commitKey under the two orderings of (commitVersion, lock.MinCommitTs):
// is any versioned write reachable when commitVersion is below / at-or-above the lock's minimum?
func minCommitReach(c *Ctx, fn *ssa.Function, wr Matcher) (below, atOrAbove bool, visited int) {
	var cv ssa.Value
	for _, p := range fn.Params {
		if strings.EqualFold(p.Name(), "commitVersion") || strings.EqualFold(p.Name(), "commitTs") {
			cv = p
		}
	}
	if cv == nil && len(fn.Params) > 0 {
		cv = fn.Params[len(fn.Params)-1]
	}
	role := func(v ssa.Value) string {
		v = Unwrap(v)
		if v == cv {
			return "cv"
		}
		if isFieldLoad(v, "percolator.Lock", "MinCommitTs") {
			return "min"
		}
		return ""
	}
	writes := effectSites(c, fn, func(ci ssa.CallInstruction) bool { return wr(ci.Common()) }, 1)
	reach := func(sg int) bool {
		signs := map[string]int{}
		SetSign(signs, "cv", "min", sg)
		env := &SignEnv{Role: role, Signs: signs, Depth: 1}
		hit := false
		for _, w := range writes {
			if env.Reaches(fn, w.(ssa.Instruction)) {
				hit = true
			}
		}
		visited += env.Visited
		return hit
	}
	below = reach(-1)
	atOrAbove = reach(0) && reach(1)
	return
}

// commitAllOrNothing: percolator.Commit handles several keys under one latch.  A refusal (the
// transaction was rolled back, the lock belongs to someone else, the commit version is below the
// lock's minimum) decided for a later key after an earlier key has already been committed leaves
// a refused transaction partly committed.  Necessary condition: no per-key decision read
// (Reader.GetLock) is reachable from a write site of Commit – all keys are examined before the
// first write – and a commit version below the start version reaches no write at all.
func commitAllOrNothing(c *Ctx, rule string) {
	c.Rule(rule, "percolator.Commit examines every key (Reader.GetLock and the refusal tests) before its first write: no GetLock call is reachable from a site that writes a commit record or removes a lock; a request with CommitVersion < StartVersion reaches no write (order-sign evaluation)")
	fn := c.Fn("percolator", "Commit")
	if fn == nil {
		return
	}
	wrM := Named("NoKV.(*DB).SetVersionedEntry", "NoKV.(*DB).DeleteVersionedEntry")
	writes := effectSites(c, fn, func(ci ssa.CallInstruction) bool { return wrM(ci.Common()) }, 2)
	gets := Calls(fn, false, Named("percolator.(*Reader).GetLock"))
	if len(writes) == 0 || len(gets) == 0 {
		c.Fail(rule, key(fn, "has:GetLock+writes"), fn.Pos(), 1, "cannot find the lock reads (%d) and the write sites (%d) of Commit", len(gets), len(writes))
		return
	}
	for i, w := range writes {
		bad := false
		for _, g := range gets {
			if w.Block() == g.Block() {
				// same block: the read precedes the write in that block, but a loop brings it back
				if blockInLoop(w.Block()) {
					bad = true
				}
				continue
			}
			if blockReaches(w.Block(), g.Block()) {
				bad = true
			}
		}
		c.Decide(!bad, rule, key(fn, fmt.Sprintf("write[%d]#no-later-decision", i+1)), w.Pos(), len(gets)+1, "every key has been examined when the first write happens",
			"a key's lock is read (and the commit possibly refused) after an earlier key of the same request has been committed: a Commit answered with Abort / CommitTsExpired / Locked leaves the keys before the failing one committed (a rolled-back transaction becomes partly visible)")
	}
	// CommitVersion >= StartVersion
	role := func(v ssa.Value) string {
		v = Unwrap(v)
		if isFieldLoad(v, "pb.CommitRequest", "CommitVersion") {
			return "cv"
		}
		if isFieldLoad(v, "pb.CommitRequest", "StartVersion") {
			return "sv"
		}
		if call, ok := v.(*ssa.Call); ok {
			switch FuncName(StaticFn(call.Common())) {
			case "(*pb.CommitRequest).GetCommitVersion":
				return "cv"
			case "(*pb.CommitRequest).GetStartVersion":
				return "sv"
			}
		}
		return ""
	}
	reach := func(sg int) bool {
		signs := map[string]int{}
		SetSign(signs, "cv", "sv", sg)
		env := &SignEnv{Role: role, Signs: signs, Depth: 1}
		for _, w := range writes {
			if env.Reaches(fn, w.(ssa.Instruction)) {
				return true
			}
		}
		return false
	}
	c.Decide(!reach(-1) && reach(1), rule, key(fn, "CommitVersion>=StartVersion"), fn.Pos(), 3, "a commit version below the start version is refused before any write",
		"Commit accepts CommitVersion < StartVersion: the commit record is written below the start version, GetWriteByStartTs (which stops at ts < startTs) never finds it again, a repeated Commit fails with `lock not found` and a later rollback writes a rollback marker for a committed transaction")
}

// prewriteGuards: prewriteMutation writes (data, then lock) only after Reader.GetLock and
// Reader.MostRecentWrite succeeded and neither conflict guard fired: a lock of another
// transaction (lock.Ts != StartVersion) and a newer commit (commitTs >= StartVersion) reach no
// write.  The guards are decided by order-sign evaluation, in prewriteMutation itself or in a
// checking helper whose non-nil answer keeps prewriteMutation from writing.
func prewriteGuards(c *Ctx, rule string, fn *ssa.Function, wr Matcher) {
	writes := effectSites(c, fn, func(ci ssa.CallInstruction) bool { return wr(ci.Common()) }, 1)
	c.Decide(len(writes) >= 1, rule, key(fn, "has:versioned write"), fn.Pos(), len(writes)+1, "write sites found", "expected at least 1 versioned write site in percolator.prewriteMutation, found 0")
	glM, mrM := Named("percolator.(*Reader).GetLock"), Named("percolator.(*Reader).MostRecentWrite")
	// the function that holds the reads and the guards
	holder := fn
	var holderCall ssa.CallInstruction
	if len(Calls(fn, false, glM)) == 0 {
		AllInstrs(fn, false, func(in ssa.Instruction) {
			if ci, ok := in.(ssa.CallInstruction); ok && holderCall == nil {
				if h := StaticFn(ci.Common()); h != nil && h.Blocks != nil && FuncPkgPath(h) == FuncPkgPath(fn) && len(Calls(h, false, glM)) > 0 {
					holder, holderCall = h, ci
				}
			}
		})
	}
	role := func(v ssa.Value) string {
		v = Unwrap(v)
		if isFieldLoad(v, "percolator.Lock", "Ts") {
			return "lockTs"
		}
		if isFieldLoad(v, "pb.PrewriteRequest", "StartVersion") {
			return "start"
		}
		if call, ok := v.(*ssa.Call); ok && FuncName(StaticFn(call.Common())) == "(*pb.PrewriteRequest).GetStartVersion" {
			return "start"
		}
		if ex, ok := v.(*ssa.Extract); ok {
			if call, ok := ex.Tuple.(*ssa.Call); ok {
				switch {
				case mrM(call.Common()) && ex.Index == 1:
					return "commitTs"
				case mrM(call.Common()) && ex.Index == 0:
					return "write"
				case glM(call.Common()) && ex.Index == 0:
					return "lock"
				}
			}
		}
		if k, ok := v.(*ssa.Const); ok && k.IsNil() {
			return "nil"
		}
		return ""
	}
	// outcome(signs): does the holder let a write happen?
	lets := func(signs map[string]int) (bool, int) {
		env := &SignEnv{Role: role, Signs: signs, Depth: 1}
		if holder == fn {
			for _, w := range writes {
				if env.Reaches(fn, w.(ssa.Instruction)) {
					return true, env.Visited
				}
			}
			return false, env.Visited
		}
		for _, r := range env.ReachableReturns(holder) {
			if !ProvablyNonNil(RetVal(r, 0), r, 0) {
				return true, env.Visited
			}
		}
		return false, env.Visited
	}
	mk := func(pairs ...interface{}) map[string]int {
		m := map[string]int{}
		for i := 0; i+2 < len(pairs); i += 3 {
			SetSign(m, pairs[i].(string), pairs[i+1].(string), pairs[i+2].(int))
		}
		// a lock and a latest write are present: the guards are about them
		SetSign(m, "lock", "nil", 1)
		SetSign(m, "write", "nil", 1)
		return m
	}
	foreignLo, n1 := lets(mk("lockTs", "start", -1))
	foreignHi, n2 := lets(mk("lockTs", "start", 1))
	c.Decide(!foreignLo && !foreignHi, rule, key(fn, "reject:lock.Ts!=StartVersion"), fn.Pos(), n1+n2, "the rejecting edge never reaches a write", "a write is reachable on the rejecting edge of lock.Ts!=StartVersion")
	newerEq, n3 := lets(mk("lockTs", "start", 0, "commitTs", "start", 0))
	newerGt, n4 := lets(mk("lockTs", "start", 0, "commitTs", "start", 1))
	older, n5 := lets(mk("lockTs", "start", 0, "commitTs", "start", -1))
	c.Decide(!newerEq && !newerGt, rule, key(fn, "reject:commitTs>=StartVersion"), fn.Pos(), n3+n4, "the rejecting edge never reaches a write", "a write is reachable on the rejecting edge of commitTs>=StartVersion")
	c.Decide(older && !(foreignLo || foreignHi) && !(newerEq || newerGt), rule, key(fn, "has:two-conflict-guards"), fn.Pos(), n5+1, "lock-owner and write-conflict guards present", "expected the lock-owner test (lock.Ts != StartVersion) and the write-conflict test (commitTs >= StartVersion) to decide whether prewriteMutation writes")
	// reads succeed before any write
	if holder == fn {
		for i, w := range writes {
			succOK(c, rule, key(fn, fmt.Sprintf("versioned write<-ok(GetLock)[%d]", i+1)), fn, Calls(fn, false, glM), "GetLock", w.(ssa.Instruction), "versioned write")
			succOK(c, rule, key(fn, fmt.Sprintf("versioned write<-ok(MostRecentWrite)[%d]", i+1)), fn, Calls(fn, false, mrM), "MostRecentWrite", w.(ssa.Instruction), "versioned write")
		}
		return
	}
	c.Touch(holder)
	// in the helper: every nil answer lies behind both successful reads
	okReads := true
	for _, r := range Returns(holder) {
		if ProvablyNonNil(RetVal(r, 0), r, 0) {
			continue
		}
		if !succOKq(holder, Calls(holder, false, glM), r) || !succOKq(holder, Calls(holder, false, mrM), r) {
			okReads = false
		}
	}
	c.Decide(okReads, rule, key(fn, "versioned write<-ok(GetLock)[1]"), holder.Pos(), 2, "the checking helper answers nil only after both reads succeeded", "the checking helper can answer nil without a successful GetLock / MostRecentWrite")
	// in prewriteMutation: the writes lie behind the nil edge of the helper's answer
	for i, w := range writes {
		pre, n := CutReach(fn, nil, w.(ssa.Instruction), []ssa.Instruction{holderCall.(ssa.Instruction)}, nil)
		cut := map[[2]*ssa.BasicBlock]bool{}
		for _, e := range NilEdges(fn, FlowSet(holderCall.Value())) {
			cut[e.Nil] = true
		}
		post, m := CutReach(fn, holderCall.(ssa.Instruction), w.(ssa.Instruction), nil, cut)
		c.Decide(!pre && !post, rule, key(fn, fmt.Sprintf("versioned write<-ok(MostRecentWrite)[%d]", i+1)), w.Pos(), n+m, "writes happen only when the checking helper answered nil", "a write is reachable without (or against) the answer of the conflict-checking helper")
	}
}

// committedLockLeftover (C18): commitKey writes the commit record and then removes the lock; a
// crash between the two leaves both.  The transaction is committed: (a) a repeated commit must
// remove the leftover lock on every path that finds the commit record, and (b) CheckTxnStatus
// must consult the write column before it lets an expired lock decide (rollback / status) –
// every rollbackKey call of CheckTxnStatus is preceded by Reader.GetWriteByStartTs.
func committedLockLeftover(c *Ctx, rule string) {
	c.Rule(rule, "percolator.commitKey removes the lock on every success path that found an existing commit record; every rollbackKey call in percolator.CheckTxnStatus (also in its helpers) is preceded by a Reader.GetWriteByStartTs lookup, so a lock left behind by an interrupted commit is reported as committed, not rolled back")
	cfLock := cfValue(c, "CFLock")
	if fn := c.Fn("percolator", "commitKey"); fn != nil {
		dels := effectSites(c, fn, isLockDeleteOf(cfLock), 1)
		gws := Calls(fn, false, Named("percolator.(*Reader).GetWriteByStartTs"))
		// success returns reachable on the `write != nil` edge
		bad, n := 0, 0
		for _, g := range gws {
			var wv ssa.Value
			for _, r := range *g.Value().Referrers() {
				if ex, ok := r.(*ssa.Extract); ok && ex.Index == 0 {
					wv = ex
				}
			}
			for _, e := range NilEdges(fn, map[ssa.Value]bool{wv: true}) {
				for _, r := range Returns(fn) {
					if !IsNilConst(RetVal(r, 0)) {
						continue
					}
					n++
					if reach, _ := reachFromBlock(fn, e.NonNil[1], r, instrs(dels)); reach {
						bad++
					}
				}
			}
		}
		c.Decide(n > 0 && bad == 0, rule, key(fn, "existing-commit-record→lock-removed"), fn.Pos(), n+1, "a repeated commit removes the lock an interrupted commit left behind", "commitKey can report success for a key that already has its commit record without removing the lock: after a crash between the commit record and the lock removal the lock stays forever (readers keep seeing the key as locked)")
	}
	if fn := c.Fn("percolator", "CheckTxnStatus"); fn != nil {
		rbM := Named("percolator.rollbackKey")
		gwM := Named("percolator.(*Reader).GetWriteByStartTs")
		i := 0
		for _, site := range effectSites(c, fn, func(ci ssa.CallInstruction) bool { return rbM(ci.Common()) }, 1) {
			g, rbs := fn, []ssa.CallInstruction{site}
			if !rbM(site.Common()) {
				g = StaticFn(site.Common())
				rbs = Calls(g, false, rbM)
			}
			for _, rb := range rbs {
				i++
				ok, n := MustPrecede(g, rb.(ssa.Instruction), instrs(Calls(g, false, gwM)))
				if !ok && g != fn {
					ok, n = MustPrecede(fn, site.(ssa.Instruction), instrs(Calls(fn, false, gwM)))
				}
				c.Decide(ok, rule, key(fn, fmt.Sprintf("rollbackKey[%d]<-GetWriteByStartTs", i)), rb.Pos(), n, "the write column is consulted before a lock decides the transaction's fate", "CheckTxnStatus rolls back on an expired lock without looking at the write column: a lock left by a commit interrupted between its two writes makes it answer TTLExpireRollback (commit_version 0) for a committed transaction, and the caller then rolls back the secondaries")
			}
		}
	}
}

// rollbackKeepsForeignCommit (C18): the rollback marker is written at (key, startTs) in the write
// column.  A commit record of another transaction whose commit version equals that start version
// sits at the same internal key, so the marker write must be preceded by a read of the write
// column at exactly startTs whose outcome can keep the write from happening.
func rollbackKeepsForeignCommit(c *Ctx, rule string) {
	c.Rule(rule, "percolator.rollbackKey writes its rollback marker (SetVersionedEntry(CFWrite, key, startTs)) only after reading the write column at version startTs (DB.GetVersionedEntry(CFWrite, key, startTs)), and a path from that read returns without writing (a foreign commit record at that version is kept)")
	fn := c.Fn("percolator", "rollbackKey")
	if fn == nil || len(fn.Params) == 0 {
		return
	}
	startTs := fn.Params[len(fn.Params)-1]
	cfWrite := cfValue(c, "CFWrite")
	var marker, probes []ssa.CallInstruction
	for _, w := range Calls(fn, false, Named("NoKV.(*DB).SetVersionedEntry")) {
		if cf, ok := ConstInt(w.Common().Args[1]); ok && cf == cfWrite && w.Common().Args[3] == ssa.Value(startTs) {
			marker = append(marker, w)
		}
	}
	for _, g := range Calls(fn, false, Named("NoKV.(*DB).GetVersionedEntry")) {
		if cf, ok := ConstInt(g.Common().Args[1]); ok && cf == cfWrite && g.Common().Args[3] == ssa.Value(startTs) {
			probes = append(probes, g)
		}
	}
	c.Decide(len(marker) >= 1, rule, key(fn, "has:rollback-marker-write"), fn.Pos(), len(marker)+1, "marker write found", "cannot find the rollback marker write of rollbackKey")
	for i, m := range marker {
		pre, n := MustPrecede(fn, m.(ssa.Instruction), instrs(probes))
		skippable := false
		for _, p := range probes {
			for _, r := range Returns(fn) {
				if IsNilConst(RetVal(r, 0)) {
					if reach, _ := CutReach(fn, p.(ssa.Instruction), r, []ssa.Instruction{m.(ssa.Instruction)}, nil); reach {
						skippable = true
					}
				}
			}
		}
		c.Decide(pre && len(probes) > 0 && skippable, rule, key(fn, fmt.Sprintf("marker[%d]<-probe(CFWrite@startTs)", i+1)), m.Pos(), n+1, "the slot the marker goes to is inspected first, and a foreign commit record there is kept",
			"rollbackKey writes the rollback marker at (key, startTs) without looking at what is stored at that version: a commit record of another transaction whose commit version equals this start version is overwritten – a committed transaction vanishes (its value reads as not found, CheckTxnStatus no longer reports its commit)")
	}
}

// lockLifetimeGuards (C18, C19): two promises a lock makes while it lives.  (a) A minimum commit
// ts pushed by CheckTxnStatus for a reader survives a repeated Prewrite of the same transaction
// (RPC / raft retry): the lock that prewriteMutation writes keeps the larger of the stored and the
// requested MinCommitTs, or a prewrite that finds its own lock writes no lock at all.  (b) No lock
// is turned into a commit record below its start version, whichever request asks for it (Commit
// and ResolveLock): such a record is never found again by Reader.GetWriteByStartTs, so the
// committed transaction could still be rolled back.
func lockLifetimeGuards(c *Ctx, rule string) {
	c.Rule(rule, "percolator.prewriteMutation stores into Lock.MinCommitTs max(request, stored lock) – builtin max, or a value that takes the stored lock's MinCommitTs exactly when it is larger (order-sign evaluation) – unless the lock write is unreachable once GetLock found a lock; commitKey reaches no write when commitVersion < lock.Ts, or each of its callers refuses CommitVersion < StartVersion before calling it")
	cfLock := cfValue(c, "CFLock")
	if fn := c.Fn("percolator", "prewriteMutation"); fn != nil {
		isOld := func(v ssa.Value) bool { return isFieldLoad(v, "percolator.Lock", "MinCommitTs") }
		isNew := func(v ssa.Value) bool {
			if isFieldLoad(v, "pb.PrewriteRequest", "MinCommitTs") {
				return true
			}
			call, ok := Unwrap(v).(*ssa.Call)
			return ok && Named("(*pb.PrewriteRequest).GetMinCommitTs")(call.Common())
		}
		role := func(v ssa.Value) string {
			switch {
			case isOld(v):
				return "old"
			case isNew(v):
				return "new"
			}
			return ""
		}
		var lockWrites []ssa.Instruction
		for _, w := range Calls(fn, false, Named("NoKV.(*DB).SetVersionedEntry")) {
			if cf, ok := ConstInt(w.Common().Args[1]); ok && cf == cfLock {
				lockWrites = append(lockWrites, w.(ssa.Instruction))
			}
		}
		c.Floor(rule, len(lockWrites), 1, "lock column writes in prewriteMutation")
		// duplicate prewrite returns before writing a lock?
		dupSkips := len(lockWrites) > 0
		var lockVal ssa.Value
		for _, g := range Calls(fn, false, Named("percolator.(*Reader).GetLock")) {
			for _, r := range *g.Value().Referrers() {
				if ex, ok := r.(*ssa.Extract); ok && ex.Index == 0 {
					lockVal = ex
				}
			}
		}
		if lockVal == nil {
			dupSkips = false
		} else {
			for _, e := range NilEdges(fn, map[ssa.Value]bool{lockVal: true}) {
				for _, w := range lockWrites {
					if reach, _ := reachFromBlock(fn, e.NonNil[1], w, nil); reach {
						dupSkips = false
					}
				}
			}
		}
		keeps, n := false, 0
		for _, st := range fieldStoresIn(fn, false, "percolator.Lock", "MinCommitTs") {
			sv, ok := st.(*ssa.Store)
			if !ok {
				continue
			}
			n++
			switch v := Unwrap(sv.Val).(type) {
			case *ssa.Call:
				if bi, ok := v.Call.Value.(*ssa.Builtin); ok && bi.Name() == "max" {
					for _, a := range v.Call.Args {
						if isOld(a) {
							keeps = true
						}
						// max(req, m) with m = the stored lock's value when there is a lock
						if phi, ok := Unwrap(a).(*ssa.Phi); ok {
							for _, e := range phi.Edges {
								if isOld(e) {
									keeps = true
								}
							}
						}
					}
				}
			case *ssa.Phi:
				for i, e := range v.Edges {
					if !isOld(e) {
						continue
					}
					pred := v.Block().Preds[i]
					if len(pred.Instrs) == 0 {
						continue
					}
					reach := func(sg int) bool {
						signs := map[string]int{}
						SetSign(signs, "old", "new", sg)
						return (&SignEnv{Role: role, Signs: signs, Depth: 1}).Reaches(fn, pred.Instrs[0])
					}
					if reach(1) && !reach(-1) {
						keeps = true
					}
				}
			}
		}
		c.Decide(dupSkips || keeps, rule, key(fn, "lock.MinCommitTs#keeps-pushed-value"), fn.Pos(), n+2,
			ifs(dupSkips, "a prewrite that finds a lock writes no lock", "the lock keeps the larger of the stored and the requested minimum commit ts"),
			"prewriteMutation rebuilds the lock of its own transaction from the request alone: a repeated Prewrite resets a MinCommitTs that CheckTxnStatus pushed for a reader, and the transaction can then commit below the version that reader was promised not to see it at")
	}
	if fn := c.Fn("percolator", "commitKey"); fn != nil {
		var cv ssa.Value
		for _, p := range fn.Params {
			if strings.EqualFold(p.Name(), "commitVersion") || strings.EqualFold(p.Name(), "commitTs") {
				cv = p
			}
		}
		if cv == nil && len(fn.Params) > 0 {
			cv = fn.Params[len(fn.Params)-1]
		}
		role := func(v ssa.Value) string {
			if Unwrap(v) == cv {
				return "cv"
			}
			if isFieldLoad(v, "percolator.Lock", "Ts") {
				return "start"
			}
			return ""
		}
		writes := effectSites(c, fn, func(ci ssa.CallInstruction) bool {
			return Named("NoKV.(*DB).SetVersionedEntry", "NoKV.(*DB).DeleteVersionedEntry")(ci.Common())
		}, 1)
		reach := func(sg int) bool {
			signs := map[string]int{}
			SetSign(signs, "cv", "start", sg)
			env := &SignEnv{Role: role, Signs: signs, Depth: 1}
			for _, w := range writes {
				if env.Reaches(fn, w.(ssa.Instruction)) {
					return true
				}
			}
			return false
		}
		inKey := !reach(-1) && reach(0) && reach(1)
		// otherwise every caller refuses CommitVersion < StartVersion before the call
		callers, guarded := 0, 0
		var open []string
		for _, cs := range c.P.CallersOf(fn) {
			if cs.Site == nil {
				continue
			}
			callers++
			g := Root(cs.Caller)
			rrole := func(v ssa.Value) string {
				v = Unwrap(v)
				if call, ok := v.(*ssa.Call); ok {
					if o := CalleeObj(call.Common()); o != nil {
						switch o.Name() {
						case "GetCommitVersion":
							return "cv"
						case "GetStartVersion":
							return "start"
						}
					}
				}
				if _, f, ok := FieldOf(v); ok {
					_ = f
				}
				if u, ok := v.(*ssa.UnOp); ok && u.Op == token.MUL {
					if _, f, ok := FieldOf(u.X); ok {
						switch f {
						case "CommitVersion":
							return "cv"
						case "StartVersion":
							return "start"
						}
					}
				}
				return ""
			}
			signs := map[string]int{}
			SetSign(signs, "cv", "start", -1)
			if !(&SignEnv{Role: rrole, Signs: signs, Depth: 1}).Reaches(g, cs.Site.(ssa.Instruction)) {
				guarded++
			} else {
				open = append(open, FuncName(g))
			}
		}
		c.Decide(inKey || callers > 0 && guarded == callers, rule, key(fn, "commitVersion<lock.Ts→no-write"), fn.Pos(), 4+callers,
			ifs(inKey, "commitKey refuses a commit version below the lock's start version before any write", "every caller refuses CommitVersion < StartVersion before calling commitKey"),
			"a lock can be turned into a commit record below its start version (unguarded in commitKey and in "+strings.Join(open, ", ")+"): Reader.GetWriteByStartTs never finds that record again, so CheckTxnStatus later rolls the committed transaction back")
	}
}

// everyKeyLatchedGroup (C20): exclusion is promised for every shared key, the empty key included
// (the property quantifies over key sets with empty keys).  Necessary condition: inside
// Manager.Acquire (or the helper that builds the stripe indices) the hash of a key is computed
// whatever the key's length – the hashing call is reachable when len(key) == 0.
func everyKeyLatchedGroup(c *Ctx, rule string) {
	c.Rule(rule, "in latch.Manager.Acquire (or the same-package helper that builds the stripe indices) the call that hashes a key (kv.MemHash) is reachable when len(key) == 0 and when len(key) > 0 (order-sign evaluation): no key of the request is left unlatched")
	fn := c.Fn("percolator/latch", "Manager.Acquire")
	if fn == nil {
		return
	}
	body := fn
	if len(Calls(fn, false, Named("kv.MemHash"))) == 0 {
		for _, cs := range Calls(fn, false, func(*ssa.CallCommon) bool { return true }) {
			if cal := cs.Common().StaticCallee(); cal != nil && cal.Blocks != nil && cal.Pkg == fn.Pkg && len(Calls(cal, false, Named("kv.MemHash"))) > 0 {
				body = cal
			}
		}
	}
	hs := Calls(body, false, Named("kv.MemHash"))
	c.Floor(rule, len(hs), 1, "key hashing calls")
	role := func(v ssa.Value) string {
		call, ok := Unwrap(v).(*ssa.Call)
		if !ok {
			return ""
		}
		bi, ok := call.Call.Value.(*ssa.Builtin)
		if !ok || bi.Name() != "len" || len(call.Call.Args) != 1 {
			return ""
		}
		// len of a key: an element of a [][]byte (range value or indexed element)
		if t, ok := call.Call.Args[0].Type().Underlying().(*types.Slice); ok {
			if b, ok := t.Elem().Underlying().(*types.Basic); ok && b.Kind() == types.Byte {
				for _, h := range hs {
					if len(h.Common().Args) == 1 && Unwrap(h.Common().Args[0]) == Unwrap(call.Call.Args[0]) {
						return "len(key)"
					}
				}
			}
		}
		return ""
	}
	empty, nonEmpty := false, false
	for _, h := range hs {
		s0 := map[string]int{}
		SetSign(s0, "len(key)", "0", 0)
		if (&SignEnv{Role: role, Signs: s0, Depth: 1}).Reaches(body, h.(ssa.Instruction)) {
			empty = true
		}
		s1 := map[string]int{}
		SetSign(s1, "len(key)", "0", 1)
		if (&SignEnv{Role: role, Signs: s1, Depth: 1}).Reaches(body, h.(ssa.Instruction)) {
			nonEmpty = true
		}
	}
	c.Decide(empty && nonEmpty, rule, key(body, "hash-reached-for-the-empty-key"), body.Pos(), 2*len(hs)+1, "every key of the request, the empty one included, is mapped to a stripe", "zero-length keys are skipped before they are hashed: a request whose only key is empty gets the no-op guard, and two requests sharing the empty key hold their latches at the same time")
}
