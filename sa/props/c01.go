package props

import (
	"fmt"
	"go/token"
	"strings"

	"golang.org/x/tools/go/ssa"

	. "nokvsa/core"
)

func init() {
	register("C01", C01)
	register("C02", C02)
}

// indexForm classifies how a slice index evolves: "asc", "desc" or "?".
func indexForm(idx ssa.Value, depth int) string {
	if depth <= 0 || idx == nil {
		return "?"
	}
	switch x := idx.(type) {
	case *ssa.BinOp:
		switch x.Op {
		case token.ADD:
			if ph, ok := x.X.(*ssa.Phi); ok && phiSelfStep(ph) != 0 {
				if k, ok := ConstInt(x.Y); ok && k == 1 {
					return "asc" // rangeindex: t = phi + 1
				}
			}
			return indexForm(x.X, depth-1)
		case token.SUB:
			// last - i
			if f := indexForm(x.Y, depth-1); f == "asc" {
				return "desc"
			} else if f == "desc" {
				return "asc"
			}
			if ph, ok := x.X.(*ssa.Phi); ok && phiSelfStep(ph) != 0 {
				if k, ok := ConstInt(x.Y); ok && k == 1 {
					return "desc"
				}
			}
		}
	case *ssa.Phi:
		switch phiSelfStep(x) {
		case 1:
			return "asc"
		case -1:
			return "desc"
		}
	}
	return "?"
}

// phiSelfStep: +1 / -1 when one edge of the phi is phi±1, else 0.
func phiSelfStep(ph *ssa.Phi) int {
	for _, e := range ph.Edges {
		if bo, ok := e.(*ssa.BinOp); ok && bo.X == ph {
			if k, ok := ConstInt(bo.Y); ok && k == 1 {
				if bo.Op == token.ADD {
					return 1
				}
				if bo.Op == token.SUB {
					return -1
				}
			}
		}
	}
	return 0
}

// loopVisits: for every IndexAddr in fn whose sliced value is a load of owner.field (or a
// local copy named like it), the index form.
func loopVisits(fn *ssa.Function, owner, field string) []string {
	var out []string
	// range-over-func forms: slices.Backward(f) visits descending, slices.All/Values ascending
	for _, ci := range Calls(fn, false, func(cc *ssa.CallCommon) bool {
		o := CalleeObj(cc)
		return o != nil && o.Pkg() != nil && o.Pkg().Path() == "slices" && (o.Name() == "Backward" || o.Name() == "All" || o.Name() == "Values")
	}) {
		if len(ci.Common().Args) == 1 && (isFieldLoad(ci.Common().Args[0], owner, field) || derivedFromField(ci.Common().Args[0], owner, field, 3) || (owner == "" && field == "")) {
			if CalleeObj(ci.Common()).Name() == "Backward" {
				out = append(out, "desc")
			} else {
				out = append(out, "asc")
			}
		}
	}
	AllInstrs(fn, false, func(in ssa.Instruction) {
		ia, ok := in.(*ssa.IndexAddr)
		if !ok || !blockInLoop(ia.Block()) {
			return
		}
		if !isFieldLoad(ia.X, owner, field) && !derivedFromField(ia.X, owner, field, 3) {
			return
		}
		out = append(out, indexForm(ia.Index, 5))
	})
	return out
}

// sortKey inspects the comparator closure passed to sort.Slice in fn's branch and
// returns (key, direction) e.g. ("fid","asc"), ("MinKey","asc").
func sortComparators(fn *ssa.Function) []string {
	var out []string
	for _, s := range Calls(fn, false, Named("sort.Slice")) {
		mc, ok := s.Common().Args[1].(*ssa.MakeClosure)
		if !ok {
			out = append(out, "?")
			continue
		}
		cl := mc.Fn.(*ssa.Function)
		desc := "?"
		for _, r := range Returns(cl) {
			bo, ok := r.Results[0].(*ssa.BinOp)
			if !ok {
				continue
			}
			dir := map[token.Token]string{token.LSS: "asc", token.GTR: "desc"}[bo.Op]
			if dir == "" {
				continue
			}
			if f := fieldNameOf(bo.X); f != "?" {
				desc = f + ":" + dir
			} else if call, ok := bo.X.(*ssa.Call); ok {
				if o := CalleeObj(call.Common()); o != nil && o.Name() == "CompareKeys" {
					arg := "?"
					if c0, ok := call.Call.Args[0].(*ssa.Call); ok {
						if oo := CalleeObj(c0.Common()); oo != nil {
							arg = oo.Name()
						}
					} else if f := fieldNameOf(call.Call.Args[0]); f != "?" {
						arg = f
					}
					desc = "key(" + arg + "):" + dir
				}
			}
		}
		out = append(out, desc)
	}
	return out
}

// recencySites evaluates the version-tie recency facts shared by C01, C02, C08 and C19.
func recencySites(c *Ctx, rule string) {
	// tie policy of table.Search
	strict := false
	if fn := c.Fn("lsm", "table.Search"); fn != nil {
		// decided by order-sign evaluation: with candidate == best > 0, is the accepting clone reachable?
		// the accepting exits are the returns that hand back an entry
		var accepts []*ssa.Return
		for _, r := range Returns(fn) {
			if len(r.Results) >= 1 && !IsNilConst(RetVal(r, 0)) && !(fn.Recover != nil && r.Block() == fn.Recover) {
				accepts = append(accepts, r)
			}
		}
		if len(accepts) == 0 || len(fn.Params) < 3 {
			c.Fail(rule, key(fn, "tie-policy"), fn.Pos(), 1, "cannot find the accepting path (a return handing back an entry) of table.Search")
		} else {
			mv := fn.Params[2]
			env := &SignEnv{Depth: 2, Signs: map[string]int{"0:best": -1, "0:cand": -1, "best:cand": 0},
				Role: func(v ssa.Value) string {
					if call, ok := v.(*ssa.Call); ok && Named("kv.ParseTs")(call.Common()) {
						return "cand"
					}
					if u, ok := v.(*ssa.UnOp); ok && u.Op == token.MUL && u.X == mv {
						return "best"
					}
					return ""
				}}
			strict = true
			for _, a := range accepts {
				if env.Reaches(fn, a) {
					strict = false
				}
			}
			c.Pass(rule, key(fn, "tie-policy"), accepts[0].Pos(), env.Visited, "a table hit replaces the running best only for a %s greater version ⇒ among equal versions the FIRST table visited wins", ifs(strict, "strictly", "non-strictly"))
			if !strict {
				c.Fail(rule, key(fn, "tie-policy#strict"), accepts[0].Pos(), env.Visited, "table.Search accepts an equal (non-zero) version: the last visited table wins ties, every visiting-order fact below is inverted")
			}
		}
	}
	// --- site A: memtables in LSM.Get -------------------------------------------------
	if gm := c.Fn("lsm", "LSM.GetMemTables"); gm != nil {
		forms := loopVisits(gm, "lsm.LSM", "immutables")
		okA := len(forms) > 0
		for _, f := range forms {
			if f != "desc" {
				okA = false
			}
		}
		rot := c.Fn("lsm", "LSM.rotateLocked")
		appendEnd := false
		if rot != nil {
			for _, st := range fieldStoresIn(rot, false, "lsm.LSM", "immutables") {
				if s, ok := st.(*ssa.Store); ok {
					if call, ok := s.Val.(*ssa.Call); ok {
						if bi, ok := call.Call.Value.(*ssa.Builtin); ok && bi.Name() == "append" && isFieldLoad(call.Call.Args[0], "lsm.LSM", "immutables") {
							appendEnd = true
						}
					}
				}
			}
		}
		// active memtable appended first
		activeFirst := false
		for _, b := range gm.Blocks {
			for _, in := range b.Instrs {
				if call, ok := in.(*ssa.Call); ok {
					if bi, ok := call.Call.Value.(*ssa.Builtin); ok && bi.Name() == "append" && !blockInLoop(b) {
						activeFirst = true
					}
				}
			}
		}
		c.Decide(okA && appendEnd && activeFirst, rule, "site-A:memtables#newest-first", gm.Pos(), 4,
			"GetMemTables lists the active memtable, then immutables by descending index; rotateLocked appends at the end ⇒ newest first",
			fmt.Sprintf("memtable list is not newest-first (immutables visited %v, append-at-end=%v, active-first=%v): with first-hit-wins an older memtable shadows a newer one", forms, appendEnd, activeFirst))
	}
	if g := c.Fn("lsm", "LSM.Get"); g != nil {
		// (which hit wins is decided by K10.newest-version-across-sources: strictly greater version
		// replaces, so among equal versions the first source visited wins)
		lv := Calls(g, false, Named("lsm.(*levelManager).Get"))
		c.Decide(len(lv) == 1, rule, "site-A:memtables#before-levels", g.Pos(), 1, "levels are consulted only after every memtable missed", "LSM.Get does not consult the levels exactly once after the memtables")
	}
	// --- site B: L0 -----------------------------------------------------------------
	if fn := c.Fn("lsm", "levelHandler.searchL0SST"); fn != nil {
		visit := loopVisits(fn, "lsm.levelHandler", "tables")
		sorts := []string{}
		if st := c.Fn("lsm", "levelHandler.sortTablesLocked"); st != nil {
			sorts = sortComparators(st)
		}
		l0sort := "?"
		for _, s := range sorts {
			if strings.HasPrefix(s, "fid:") {
				l0sort = s
			}
		}
		v := "?"
		if len(visit) > 0 {
			v = visit[0]
		}
		// newest-first ⇔ (fid asc & desc visit) or (fid desc & asc visit); first visited wins when strict
		newestFirst := (l0sort == "fid:asc" && v == "desc") || (l0sort == "fid:desc" && v == "asc")
		wins := newestFirst == strict
		if l0sort == "?" || v == "?" {
			c.Undec(rule, "site-B:L0-search#recency", fn.Pos(), 3, "cannot extract L0 order facts (sort=%s visit=%s)", l0sort, v)
		} else {
			c.Decide(wins, rule, "site-B:L0-search#recency", fn.Pos(), 3,
				"L0 tables sorted "+l0sort+", visited "+v+", first-wins="+fmt.Sprint(strict)+" ⇒ the table with the highest file id wins a version tie",
				"L0 tables are sorted "+l0sort+" and visited "+v+" with first-hit-wins="+fmt.Sprint(strict)+": among tables holding the same internal key the one with the LOWEST file id (the oldest flush) wins – Set k v1; flush; Set k v2; flush; Get k returns v1")
		}
		// the pre-filter must not skip a table that could hold an equal version when last-wins is intended
	}
	// --- site C: Ln ingest before main ---------------------------------------------
	if fn := c.Fn("lsm", "levelHandler.Get"); fn != nil {
		ing := Calls(fn, false, Named("lsm.(*levelHandler).searchIngestSST", "lsm.(ingestBuffer).search", "lsm.(*ingestBuffer).search"))
		ln := Calls(fn, false, Named("lsm.(*levelHandler).searchLNSST"))
		good := len(ing) == 1 && len(ln) == 1
		if good {
			ok, _ := MustPrecede(fn, ln[0].(ssa.Instruction), instrs(ing))
			same := ing[0].Common().Args[len(ing[0].Common().Args)-1] == ln[0].Common().Args[len(ln[0].Common().Args)-1]
			good = ok && same && strict
		}
		c.Decide(good, rule, "site-C:Ln#ingest-before-main", fn.Pos(), 3, "the ingest buffer (newer data moved down) is searched before the level's main tables with one shared running version ⇒ ingest wins ties",
			"levelHandler.Get no longer searches the ingest buffer before the main tables with a shared running max version")
	}
	// --- site D: within an ingest shard --------------------------------------------
	if fn := c.Fn("lsm", "ingestBuffer.search"); fn != nil {
		rr := c.Fn("lsm", "ingestShard.rebuildRanges")
		order := "?"
		if rr != nil {
			for _, s := range sortComparators(rr) {
				order = s
			}
		}
		recency := strings.HasPrefix(order, "fid:") || strings.HasPrefix(order, "seq:") || strings.HasPrefix(order, "CreatedAt:")
		c.Decide(recency, rule, "site-D:ingest-shard-search#recency", fn.Pos(), 2,
			"ingest tables of a shard are visited in a recency order ("+order+")",
			"within an ingest shard tables are visited in "+order+" order (key range position), which is unrelated to recency; the first hit sets the running version and equal versions in later tables are skipped ⇒ an older ingest table can win a tie")
	}
	if fn := c.Fn("lsm", "ingestBuffer.iterators"); fn != nil {
		ss := c.Fn("lsm", "ingestBuffer.sortShards")
		order := "?"
		if ss != nil {
			for _, s := range sortComparators(ss) {
				order = s
			}
		}
		recency := strings.HasPrefix(order, "fid:") || strings.HasPrefix(order, "seq:")
		c.Decide(recency, rule, "site-D:ingest-shard-iterators#recency", fn.Pos(), 2,
			"ingest iterators are listed in a recency order ("+order+")",
			"ingest-buffer iterators are listed by reversed "+order+" order (key position), unrelated to recency; the merge iterator keeps the earlier source on equal keys ⇒ an older ingest table can win")
	}
	// --- site E: iterators -----------------------------------------------------------
	if fn := c.Fn("lsm", "LSM.NewIterators"); fn != nil {
		forms := []string{}
		AllInstrs(fn, false, func(in ssa.Instruction) {
			if ia, ok := in.(*ssa.IndexAddr); ok && blockInLoop(ia.Block()) {
				// the local copy `immutables := append(nil, lsm.immutables...)`
				if call, ok := ia.X.(*ssa.Call); ok {
					if bi, ok := call.Call.Value.(*ssa.Builtin); ok && bi.Name() == "append" && len(call.Call.Args) == 2 && isFieldLoad(call.Call.Args[1], "lsm.LSM", "immutables") {
						forms = append(forms, indexForm(ia.Index, 5))
					}
				}
			}
		})
		desc := len(forms) > 0
		for _, f := range forms {
			if f != "desc" {
				desc = false
			}
		}
		// order of the three appends: mem, immutables loop, levels
		memIt := Calls(fn, false, Named("lsm.(*memTable).NewIterator"))
		lv := Calls(fn, false, Named("lsm.(*levelManager).iterators"))
		orderOK := len(memIt) == 2 && len(lv) == 1 && !blockInLoop(memIt[0].Block()) && blockInLoop(memIt[1].Block()) &&
			blockReaches(memIt[0].Block(), memIt[1].Block()) && blockReaches(memIt[1].Block(), lv[0].Block()) && !blockReaches(lv[0].Block(), memIt[1].Block())
		c.Decide(desc && orderOK, rule, "site-E:iterators#memtables-newest-first", fn.Pos(), 4,
			"iterator list = active memtable, immutables newest first, then levels",
			fmt.Sprintf("iterator list is not active → immutables newest-first → levels (immutables visited %v, order-ok=%v): the merge keeps the earlier source on equal keys, so an older memtable wins while Get prefers the newer", forms, orderOK))
	}
	if fn := c.Fn("lsm", "MergeIterator.fix"); fn != nil {
		// on cmp == 0 the right node is advanced
		adv := ""
		for _, b := range fn.Blocks {
			if ifi := ifOf(b); ifi != nil {
				if bo, ok := ifi.Cond.(*ssa.BinOp); ok && bo.Op == token.EQL {
					if z, ok := ConstInt(bo.Y); ok && z == 0 {
						for _, in := range b.Succs[0].Instrs {
							if call, ok := in.(*ssa.Call); ok && Named("lsm.(*node).next")(call.Common()) {
								_, adv, _ = FieldOf(call.Call.Args[0])
							}
						}
					}
				}
			}
		}
		c.Decide(adv == "right", rule, "site-E:merge#left-wins", fn.Pos(), 2, "on equal keys the right source is advanced ⇒ the earlier (left) source wins", "on equal keys MergeIterator.fix advances `"+adv+"` (expected right): the later source in the list would win ties")
	}
	if fn := c.Fn("lsm", "NewMergeIterator"); fn != nil {
		// left = iters[:mid], right = iters[mid:]
		okSplit := false
		AllInstrs(fn, false, func(in ssa.Instruction) {
			if sl, ok := in.(*ssa.Slice); ok && sl.High != nil && sl.Low == nil {
				okSplit = true
			}
		})
		c.Decide(okSplit, rule, "site-E:merge#tree-preserves-order", fn.Pos(), 1, "the merge tree keeps list order (left = first half)", "NewMergeIterator no longer builds left from the first half of the list")
	}
	if fn := c.Fn("lsm", "levelHandler.iterators"); fn != nil {
		rev := Calls(fn, false, Named("lsm.iteratorsReversed"))
		ing := Calls(fn, false, Named("lsm.(*ingestBuffer).iterators", "lsm.(ingestBuffer).iterators"))
		cc := Calls(fn, false, Named("lsm.NewConcatIterator"))
		good := len(rev) == 1 && len(ing) == 1 && len(cc) == 1 && blockReaches(ing[0].Block(), cc[0].Block())
		c.Decide(good, rule, "site-E:level-iterators#L0-reversed,ingest-before-main", fn.Pos(), 3, "L0 iterators newest file id first; ingest iterators before the main concat iterator", "levelHandler.iterators no longer lists L0 reversed / ingest before main tables")
	}
	if fn := c.Fn("lsm", "iteratorsReversed"); fn != nil {
		forms := []string{}
		AllInstrs(fn, false, func(in ssa.Instruction) {
			if ia, ok := in.(*ssa.IndexAddr); ok && ia.X == fn.Params[0] {
				forms = append(forms, indexForm(ia.Index, 5))
			}
		})
		for _, ci := range Calls(fn, false, func(cc *ssa.CallCommon) bool {
			o := CalleeObj(cc)
			return o != nil && o.Pkg() != nil && o.Pkg().Path() == "slices" && o.Name() == "Backward"
		}) {
			if len(ci.Common().Args) == 1 && ci.Common().Args[0] == ssa.Value(fn.Params[0]) {
				forms = append(forms, "desc")
			}
		}
		c.Decide(len(forms) == 1 && forms[0] == "desc", rule, "site-E:iteratorsReversed#desc", fn.Pos(), 1, "walks the slice from the end", fmt.Sprintf("iteratorsReversed walks %v", forms))
	}
	// --- site F: compaction input order -----------------------------------------------
	if fn := c.Fn("lsm", "levelManager.compactBuildTables"); fn != nil {
		good := false
		for _, cl := range fn.AnonFuncs {
			rev := Calls(cl, false, Named("lsm.iteratorsReversed"))
			cc := Calls(cl, false, Named("lsm.NewConcatIterator"))
			if len(rev) >= 1 && len(cc) == 1 {
				good = true
				for _, r := range rev {
					if !blockReaches(r.Block(), cc[0].Block()) {
						good = false
					}
				}
			}
		}
		c.Decide(good, rule, "site-F:compaction#top-before-bottom", fn.Pos(), 3, "compaction merges the upper level's tables (reversed) before the lower level's ⇒ the upper (newer) level wins ties", "compaction input iterators no longer list the upper level's tables before the lower level's")
	}
}

func loopBodyReturn(fn *ssa.Function, r *ssa.Return) bool {
	// the return's block is reachable from a loop header and can't reach it back, but an
	// immediate predecessor is in the loop
	for _, p := range r.Block().Preds {
		if blockInLoop(p) {
			return true
		}
	}
	return false
}

func C01(c *Ctx) {
	c.Note("that flush/compaction/GC preserve contents; expiry; schedules. Only the version-tie recency at each multi-source lookup/merge site, the sentinel version and the key-size guards are decided; `higher file id = newer` holds only between flush outputs (compaction outputs get fresh ids)")
	const r1 = "K10.version-tie-recency"
	c.Rule(r1, "plain writes of a key always carry the same internal key (version MaxUint64), so wherever two sources may hold equal internal keys the more recent source must win: memtables newest first with first-hit-wins; L0 tables; ingest buffer before the level's main tables; tables inside an ingest shard; the iterator list and the merge iterator's tie-break; compaction input order")
	recencySites(c, r1)

	const r4 = "K2.gc-liveness-guard"
	gcLivenessGroup(c, r4)
	const r5 = "K1.compaction-keeps-every-entry"
	compactionKeepsAllGroup(c, r5)
	const r7 = "K2.table-cut-at-key-boundary"
	tableCutGroup(c, r7)
	seekGapGroup(c, "K2.seek-continues-into-next-block")
	versionAccumulatorGroup(c, "K2.version-accumulator-orderings")
	newestAcrossSourcesGroup(c, "K10.newest-version-across-sources")
	c.Rule("K5.empty-value-is-a-value", "Txn.Get decides found-ness by the lookup error and the meta/expiry bits, never by `Value == nil` (an empty value read back from an SST is a nil slice)")
	txnGetFoundnessRule(c, "K5.empty-value-is-a-value")
	levelDisjointGroup(c, "K2.level-tables-disjoint")
	const r6 = "K2.delete-and-expiry-semantics"
	deleteSemanticsGroup(c, r6)
	const r2 = "K12.sentinel-version"
	c.Rule(r2, "every non-transactional entry point builds its internal key with the one constant nonTxnMaxVersion (MaxUint64): DB.setEntry, DB.GetCF, DBIterator.Seek")
	for _, n := range []string{"DB.setEntry", "DB.GetCF", "DBIterator.Seek"} {
		if fn := c.Fn("", n); fn != nil {
			for i, ik := range need(c, r2, fn, false, "kv.InternalKey", Named("kv.InternalKey"), 1) {
				k, ok := ik.Common().Args[2].(*ssa.Const)
				c.Decide(ok && k.Value != nil && k.Value.ExactString() == "18446744073709551615", r2, key(fn, fmt.Sprintf("InternalKey[%d]#version=MaxUint64", i+1)), ik.Pos(), 1, "sentinel version", "the plain API no longer uses the MaxUint64 sentinel version here (reads and writes would address different internal keys)")
			}
		}
	}
	const r3 = "K16.key-argument-checks-agree"
	c.Rule(r3, "every write entry point through which a caller-supplied key reaches the memtable (DB.setEntry, DB.SetVersionedEntry, Txn.modify) rejects empty keys and keys longer than maxKeySize, because memtable nodes and table headers store the key length in 16 bits")
	maxKey := int64(-1)
	if k := c.P.LookupObj("", "maxKeySize"); k != nil {
		if kc, ok := k.(interface {
			Val() interface{ ExactString() string }
		}); ok {
			_ = kc
		}
	}
	for _, n := range []string{"DB.setEntry", "DB.SetVersionedEntry", "Txn.modify"} {
		fn := c.Fn("", n)
		if fn == nil {
			continue
		}
		empty, big := false, false
		for _, b := range fn.Blocks {
			ifi := ifOf(b)
			if ifi == nil {
				continue
			}
			bo, ok := ifi.Cond.(*ssa.BinOp)
			if !ok {
				continue
			}
			call, ok := bo.X.(*ssa.Call)
			if !ok {
				continue
			}
			bi, ok := call.Call.Value.(*ssa.Builtin)
			if !ok || bi.Name() != "len" {
				continue
			}
			k, isC := ConstInt(bo.Y)
			if !isC {
				continue
			}
			if bo.Op == token.EQL && k == 0 && rejects(b.Succs[0]) {
				empty = true
			}
			if bo.Op == token.GTR && k > 1000 && k <= 65535 && rejects(b.Succs[0]) {
				big = true
				maxKey = k
			}
		}
		c.Decide(empty, r3, key(fn, "rejects:empty-key"), fn.Pos(), 1, "empty keys rejected", n+" does not reject empty keys")
		c.Decide(big, r3, key(fn, "rejects:oversize-key"), fn.Pos(), 1, "keys above the 16-bit limit rejected", n+" accepts keys whose length does not fit the 16-bit key-length fields (accepted, then unreadable)")
	}
	_ = maxKey
	if fn := c.Fn("utils", "newNode"); fn != nil {
		nar := 0
		AllInstrs(fn, false, func(in ssa.Instruction) {
			if cv, ok := in.(*ssa.Convert); ok && cv.Type().String() == "uint16" {
				nar++
			}
		})
		c.Decide(nar >= 1, r3, key(fn, "stores:uint16(len(key))"), fn.Pos(), 1, "the 16-bit narrowing that the entry-point guards protect", "anchor drift: newNode no longer narrows the key length to 16 bits (the guard rule may be obsolete)")
	}
}

func C02(c *Ctx) {
	c.Note("that a seek lands on the greatest version <= v (comparator semantics on all inputs); GC/compaction invariance; the property's `most recently written among equal versions` clause is decided only through the C01 recency sites")
	const r1 = "K10.version-tie-recency"
	c.Rule(r1, "repeated writes of one (key, version) – prewrite delete-then-put, lock column – produce equal internal keys in several sources; the same recency sites as C01 decide which one a versioned read returns")
	recencySites(c, r1)

	const r4 = "K2.table-cut-at-key-boundary"
	tableCutGroup(c, r4)
	seekGapGroup(c, "K2.seek-continues-into-next-block")
	versionAccumulatorGroup(c, "K2.version-accumulator-orderings")
	newestAcrossSourcesGroup(c, "K10.newest-version-across-sources")
	levelDisjointGroup(c, "K2.level-tables-disjoint")
	reportedVersionGroup(c, "K2.reported-version-is-found-version")
	const r5 = "K1.compaction-keeps-every-entry"
	compactionKeepsAllGroup(c, r5)
	const r2 = "K8.search-accepts-only-same-key"
	c.Rule(r2, "the three point-lookup implementations (Skiplist.Search, ART.Get/Search, table.Search) position at the first entry >= (key, v) and accept it only if kv.SameKey(sought, found) holds – so the newest version <= v of THAT key is returned, never a neighbour key's entry")
	for _, t := range [][2]string{{"utils", "Skiplist.Search"}, {"lsm", "table.Search"}} {
		fn := c.Fn(t[0], t[1])
		if fn == nil {
			continue
		}
		sameKeyGuard(c, r2, fn)
	}
	if fn := c.Fn("utils", "artTree.Get"); fn != nil {
		sameKeyGuard(c, r2, fn)
	}
	if fn := c.Fn("utils", "ART.Search"); fn != nil {
		need(c, r2, fn, false, "artTree.Get", Named("utils.(*artTree).Get"), 1)
	}
	const r3 = "K1.versioned-read-path"
	c.Rule(r3, "DB.GetVersionedEntry builds the internal key from (cf, key, version) and reads through loadBorrowedEntry → LSM.Get; SetVersionedEntry writes the same triple")
	if fn := c.Fn("", "DB.GetVersionedEntry"); fn != nil {
		for i, ik := range need(c, r3, fn, false, "kv.InternalKey", Named("kv.InternalKey"), 1) {
			a := ik.Common().Args
			c.Decide(a[0] == fn.Params[1] && a[1] == fn.Params[2] && a[2] == fn.Params[3], r3, key(fn, fmt.Sprintf("InternalKey[%d]#(cf,key,version)", i+1)), ik.Pos(), 1, "reads exactly the requested triple", "GetVersionedEntry does not seek (cf, key, version) as given")
		}
		need(c, r3, fn, false, "loadBorrowedEntry", Named("NoKV.(*DB).loadBorrowedEntry"), 1)
	}
	if fn := c.Fn("", "DB.SetVersionedEntry"); fn != nil {
		for i, ik := range need(c, r3, fn, false, "kv.InternalKey", Named("kv.InternalKey"), 1) {
			c.Decide(ik.Common().Args[2] == fn.Params[3], r3, key(fn, fmt.Sprintf("InternalKey[%d]#version", i+1)), ik.Pos(), 1, "writes at the caller's version", "SetVersionedEntry does not write at the caller's version")
		}
	}
}

// sameKeyGuard: every return of fn with a non-nil data result lies behind the true edge of kv.SameKey(sought, …).
func sameKeyGuard(c *Ctx, rule string, fn *ssa.Function) {
	sk := Calls(fn, false, Named("kv.SameKey"))
	if len(sk) == 0 {
		c.Fail(rule, key(fn, "has:SameKey"), fn.Pos(), 1, "%s no longer checks kv.SameKey on the entry it lands on", FuncName(fn))
		return
	}
	n := 0
	for i, r := range Returns(fn) {
		if len(r.Results) == 0 || (fn.Recover != nil && r.Block() == fn.Recover) {
			continue
		}
		v := RetVal(r, 0)
		if IsNilConst(v) || isZeroValue(v) {
			continue
		}
		n++
		g, _ := guardedByCall(fn, r, Named("kv.SameKey"), true)
		c.Decide(g, rule, key(fn, fmt.Sprintf("hit-return[%d]<-SameKey", i+1)), r.Pos(), 2, "a hit is returned only when the landed entry has the sought user key", FuncName(fn)+" can return the entry it landed on without checking that it has the sought key")
	}
	// first operand is the sought key (a parameter)
	for i, s := range sk {
		_, isP := s.Common().Args[0].(*ssa.Parameter)
		c.Decide(isP, rule, key(fn, fmt.Sprintf("SameKey[%d]#sought-first", i+1)), s.Pos(), 1, "compares against the sought key", "kv.SameKey is not given the sought key")
	}
	if n == 0 {
		c.Fail(rule, key(fn, "has:hit-return"), fn.Pos(), 1, "no data-returning exit found in %s", FuncName(fn))
	}
}

func isZeroValue(v ssa.Value) bool {
	if k, ok := v.(*ssa.Const); ok {
		return k.Value == nil || k.IsNil()
	}
	return false
}
