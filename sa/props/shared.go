package props

import (
	"fmt"
	"go/constant"
	"go/token"
	"go/types"
	"strings"

	"golang.org/x/tools/go/ssa"

	. "nokvsa/core"
)

// Rule groups that are necessary conditions of more than one property.  Each takes the
// rule id under which its obligations are recorded, so the evidence of every property
// that includes the group shows them.

// gcLivenessGroup: value-log GC re-inserts a scanned record only when it is still the live copy.
func gcLivenessGroup(c *Ctx, rule string) {
	c.Rule(rule, "valueLog.rewrite re-inserts a scanned record only when the LSM's current pointer for that key is in the same bucket and is not newer than the scanned position (fid, offset); the re-inserted entry's Key, Value and ExpiresAt are copied from the scanned record; records whose LSM entry is deleted/expired/inline are discarded (kv.DiscardEntry); the GC sampler (doRunGC) classifies records with the same comparisons")
	if fn := c.Fn("", "valueLog.rewrite"); fn != nil {
		proc := gcDeciderOf(fn, false)
		if proc == nil {
			c.Fail(rule, key(fn, "has:process-closure"), fn.Pos(), 1, "no re-insert closure calling kv.DiscardEntry found in rewrite")
		} else {
			gcLiveness(c, rule, proc)
		}
	}
	// The sampling callback of doRunGC only estimates how much of a segment is garbage; rewrite
	// re-decides liveness per record, so the sampler carries no obligation.
}

// compactionKeepsAllGroup: the compaction loop adds every entry it visits to the output builder.
func compactionKeepsAllGroup(c *Ctx, rule string) {
	c.Rule(rule, "levelManager.subcompact's inner loop adds every entry the merge iterator yields inside the key range to the output table (AddKeyWithLen, or AddStaleEntryWithLen for deleted/expired ones): no path from the loop body to it.Next() skips both, so compaction never drops a version and cannot expose an older one")
	fn := c.Fn("lsm", "levelManager.subcompact")
	if fn == nil {
		return
	}
	found := false
	for _, cl := range fn.AnonFuncs {
		adds := Calls(cl, false, Named("lsm.(*tableBuilder).AddKeyWithLen", "lsm.(*tableBuilder).AddStaleEntryWithLen", "lsm.(*tableBuilder).AddKey", "lsm.(*tableBuilder).AddStaleKey"))
		nexts := Calls(cl, false, MethodNamed("utils.Iterator", "Next"))
		if len(adds) == 0 || len(nexts) == 0 {
			continue
		}
		found = true
		c.Touch(cl)
		for i, n := range nexts {
			ok, k := MustPrecede(cl, n.(ssa.Instruction), instrs(adds))
			c.Decide(ok, rule, key(cl, fmt.Sprintf("it.Next[%d]<-builder.Add*", i+1)), n.Pos(), k, "every visited entry is written to the output table before the iterator advances", "the compaction loop can advance past an entry without adding it to the output table (a version is silently dropped)")
		}
		// both Add forms present: stale entries are kept too
		st := Calls(cl, false, Named("lsm.(*tableBuilder).AddStaleEntryWithLen", "lsm.(*tableBuilder).AddStaleKey"))
		c.Decide(len(st) >= 1, rule, key(cl, "keeps:stale-entries"), cl.Pos(), 1, "tombstones/expired entries are carried over (they still shadow older tables)", "deleted/expired entries are no longer written to the compaction output: a tombstone disappears while older versions remain in lower tables")
	}
	c.Decide(found, rule, key(fn, "has:add-loop"), fn.Pos(), 1, "compaction copy loop found", "cannot find the loop that copies entries into the output builder")
}

// deleteSemanticsGroup: deletes are tombstones and tombstones/expired entries read as not found.
func deleteSemanticsGroup(c *Ctx, rule string) {
	c.Rule(rule, "DB.DelCF writes an entry with Meta = BitDelete; DB.GetCF returns ErrKeyNotFound when isDeletedOrExpired(meta, expiresAt) holds; isDeletedOrExpired tests the delete bit and expiresAt <= now (0 = never)")
	if fn := c.Fn("", "DB.DelCF"); fn != nil {
		ok := false
		AllInstrs(fn, false, func(in ssa.Instruction) {
			if st, isSt := in.(*ssa.Store); isSt {
				if o, f, isF := FieldOf(st.Addr); isF && o == "kv.Entry" && f == "Meta" {
					if k, isK := ConstInt(st.Val); isK && k == bitDelete(c) {
						ok = true
					}
				}
			}
		})
		c.Decide(ok, rule, key(fn, "Meta=BitDelete"), fn.Pos(), 1, "deletes are written as tombstones", "DelCF no longer marks its entry with kv.BitDelete")
		need(c, rule, fn, false, "setEntry", Named("NoKV.(*DB).setEntry"), 1)
	}
	if fn := c.Fn("", "DB.GetCF"); fn != nil {
		d := need(c, rule, fn, false, "isDeletedOrExpired", Named("NoKV.isDeletedOrExpired"), 1)
		for i, x := range d {
			g := false
			for _, r := range *x.Value().Referrers() {
				if ifi, isIf := r.(*ssa.If); isIf && returnsSentinel(fn, ifi.Block().Succs[0], "ErrKeyNotFound") {
					g = true
				}
			}
			c.Decide(g, rule, key(fn, fmt.Sprintf("isDeletedOrExpired[%d]→ErrKeyNotFound", i+1)), x.Pos(), 1, "tombstones and expired entries read as not found", "GetCF no longer maps a deleted/expired entry to ErrKeyNotFound")
			// arguments are the entry's own Meta and ExpiresAt
			a := x.Common().Args
			c.Decide(isFieldLoad(a[0], "kv.Entry", "Meta") && isFieldLoad(a[1], "kv.Entry", "ExpiresAt"), rule, key(fn, fmt.Sprintf("isDeletedOrExpired[%d]#args", i+1)), x.Pos(), 1, "judged on the entry's Meta and ExpiresAt", "isDeletedOrExpired is not given the entry's Meta and ExpiresAt")
		}
		// every data return lies behind the false edge
		for i, r := range Returns(fn) {
			if IsNilConst(RetVal(r, 0)) || (fn.Recover != nil && r.Block() == fn.Recover) {
				continue
			}
			g, _ := guardedByCall(fn, r, Named("NoKV.isDeletedOrExpired"), false)
			c.Decide(g, rule, key(fn, fmt.Sprintf("data-return[%d]<-!isDeletedOrExpired", i+1)), r.Pos(), 2, "data is returned only for live entries", "GetCF can return an entry without the deleted/expired test")
		}
	}
	if fn := c.Fn("", "isDeletedOrExpired"); fn != nil {
		bit, leq, zero := false, false, false
		AllInstrs(fn, false, func(in ssa.Instruction) {
			bo, ok := in.(*ssa.BinOp)
			if !ok {
				return
			}
			if bo.Op == token.AND {
				if k, isK := ConstInt(bo.Y); isK && k == bitDelete(c) {
					bit = true
				}
			}
			if bo.Op == token.LEQ {
				if _, isP := bo.X.(*ssa.Parameter); isP {
					leq = true
				}
			}
			if bo.Op == token.EQL {
				if _, isP := bo.X.(*ssa.Parameter); isP {
					if z, isK := ConstInt(bo.Y); isK && z == 0 {
						zero = true
					}
				}
			}
		})
		c.Decide(bit && leq && zero, rule, key(fn, "delete-bit|expiresAt<=now|0=never"), fn.Pos(), 3, "tests the delete bit, expiry at-or-before now, and 0 = never expires", "isDeletedOrExpired no longer tests {delete bit, expiresAt <= now, expiresAt == 0 ⇒ live}")
	}
}

func bitDelete(c *Ctx) int64 {
	return cfValue(c, "BitDelete")
}

// flushOrderGroup: the manifest log pointer is used as a watermark ("every WAL segment at or
// below it is flushed") by LSM.recovery; that is sound only if memtable flushes complete in
// rotation order, i.e. with a single flush worker.
func flushOrderGroup(c *Ctx, rule string) {
	c.Rule(rule, "lsm.NewLSM starts exactly one flush worker (startFlushWorkers(1)): LSM.recovery removes every WAL segment at or below the manifest log pointer without replaying it, which is sound only while flushes complete in rotation order; flush.Manager hands tasks out in submission order")
	fn := c.Fn("lsm", "NewLSM")
	if fn == nil {
		return
	}
	for i, s := range need(c, rule, fn, false, "startFlushWorkers", Named("lsm.(*LSM).startFlushWorkers"), 1) {
		n, ok := ConstInt(s.Common().Args[len(s.Common().Args)-1])
		c.Decide(ok && n == 1, rule, key(fn, fmt.Sprintf("startFlushWorkers[%d]#n=1", i+1)), s.Pos(), 1, "single flush worker ⇒ flushes complete in rotation order",
			fmt.Sprintf("NewLSM starts %d flush workers (constant=%v): a younger memtable can record its log pointer before an older one is flushed, and recovery then deletes the older segment without replaying it", n, ok))
	}
	if sw := c.Fn("lsm", "LSM.startFlushWorkers"); sw != nil {
		onlyCallers(c, rule, sw, map[string]string{"lsm.NewLSM": "single start site"}, 1)
	}
}

// tableCutGroup: compaction output tables are cut only between distinct user keys.
func tableCutGroup(c *Ctx, rule string) {
	c.Rule(rule, "levelManager.subcompact ends an output table (builder.ReachedCapacity / right-bound break) only when the iterator has moved to a different user key (inside the `!kv.SameKey(key, lastKey)` branch): L1+ lookups pick one table per level by key range and search only it, so all versions of a user key must live in one table of a level")
	fn := c.Fn("lsm", "levelManager.subcompact")
	if fn == nil {
		return
	}
	found := false
	for _, cl := range fn.AnonFuncs {
		rc := Calls(cl, false, Named("lsm.(*tableBuilder).ReachedCapacity"))
		sk := Calls(cl, false, Named("kv.SameKey"))
		if len(rc) == 0 {
			continue
		}
		found = true
		for i, r := range rc {
			g, _ := guardedByCall(cl, r.(ssa.Instruction), Named("kv.SameKey"), false)
			c.Decide(g && len(sk) >= 1, rule, key(cl, fmt.Sprintf("ReachedCapacity[%d]<-!SameKey(key,lastKey)", i+1)), r.Pos(), 2, "the capacity cut is taken only at a user-key boundary", "the output table can be cut in the middle of one user key's version chain (the capacity test is not inside the new-key branch): older versions land in the next table and become unreachable for L1+ point reads")
		}
		// every loop-exiting break inside the copy loop lies in the new-key branch too
		for _, b := range cl.Blocks {
			ifi := ifOf(b)
			if ifi == nil || !blockInLoop(b) {
				continue
			}
			bo, ok := ifi.Cond.(*ssa.BinOp)
			if !ok || bo.Op != token.GEQ {
				continue
			}
			if call, ok := bo.X.(*ssa.Call); ok && Named("utils.CompareKeys")(call.Common()) {
				g, _ := guardedByCall(cl, ifi, Named("kv.SameKey"), false)
				c.Decide(g, rule, key(cl, "right-bound-break<-!SameKey"), ifi.Pos(), 2, "the right-bound stop is evaluated only at a user-key boundary", "the right-bound stop can end a table in the middle of a user key's versions")
			}
		}
	}
	c.Decide(found, rule, key(fn, "has:capacity-cut"), fn.Pos(), 1, "capacity cut found", "cannot find the ReachedCapacity cut in subcompact")
	if g := c.Fn("lsm", "levelHandler.getTableForKey"); g != nil {
		// the assumption this protects: one table per level is consulted
		c.Pass(rule, key(g, "one-table-per-level-lookup"), g.Pos(), 1, "L1+ lookups select a single table by user-key range (the reason for the rule)")
	}
}

// watermarkWindowGroup: sliding the watermark window keeps every pending count at or above the new base.
func watermarkWindowGroup(c *Ctx, rule string) {
	c.Rule(rule, "WaterMark.rebuildWindowLocked carries over the counter of every index >= newBase, where newBase (the base of the rebuilt window) is DoneUntil() or DoneUntil()+1: the only indices dropped are those strictly below the new base (`idx < newBase`) or beyond the new size; addIndex ignores only offsets outside the window")
	fn := c.Fn("utils", "WaterMark.rebuildWindowLocked")
	if fn == nil {
		return
	}
	// newBase = the value that becomes the rebuilt window's base
	var newBaseVal ssa.Value
	for _, st := range fieldStoresIn(fn, false, "utils.watermarkWindow", "base") {
		if sv, ok := st.(*ssa.Store); ok {
			newBaseVal = Unwrap(sv.Val)
		}
	}
	isDonePlusOne := func(v ssa.Value) bool { return v != nil && newBaseVal != nil && Unwrap(v) == newBaseVal }
	ops := []string{}
	for _, b := range fn.Blocks {
		ifi := ifOf(b)
		if ifi == nil || !blockInLoop(b) {
			continue
		}
		bo, ok := ifi.Cond.(*ssa.BinOp)
		if !ok {
			continue
		}
		// idx (= base + i) compared with newBase (= done + 1)
		if isAddOf(bo.X, "base") && isDonePlusOne(bo.Y) {
			ops = append(ops, bo.Op.String())
		}
	}
	// where does the carry-over loop start?  slot i holds index base+i, and index newBase
	// (= doneUntil+1, the oldest possibly unfinished one) must be visited: the first visited
	// slot is 0, or (newBase - base) + K with K <= 0
	startK, startKnown := int64(0), false
	for _, ld := range Calls(fn, false, Named("(*sync/atomic.Int32).Load")) {
		ia, ok := ld.Common().Args[0].(*ssa.IndexAddr)
		if !ok || fieldNameOf(ia.X) != "slots" {
			continue
		}
		var inits []ssa.Value
		switch x := Unwrap(ia.Index).(type) {
		case *ssa.BinOp: // range loop: phi(-1, self)+1
			if ph, ok := x.X.(*ssa.Phi); ok && x.Op == token.ADD {
				for _, e := range ph.Edges {
					if e != ssa.Value(x) {
						inits = append(inits, e)
					}
				}
				startKnown = true
				for _, e := range inits {
					if k, ok := ConstInt(e); !ok || k+1 > 0 {
						startKnown = false
					}
				}
			}
		case *ssa.Phi: // index loop: phi(start, i+1)
			startKnown = true
			var walk func(v ssa.Value, depth int)
			walk = func(v ssa.Value, depth int) {
				v = Unwrap(v)
				if bo, ok := v.(*ssa.BinOp); ok && bo.Op == token.ADD && Unwrap(bo.X) == ssa.Value(x) {
					return // i++
				}
				if k, ok := ConstInt(v); ok {
					if k > 0 {
						startKnown = false
					}
					return
				}
				if ph, ok := v.(*ssa.Phi); ok && ph != x && depth < 4 {
					for _, e := range ph.Edges {
						walk(e, depth+1)
					}
					return
				}
				af := AffineOf(v, newBaseVal)
				okShape := len(af.Terms) == 2
				for t, k := range af.Terms {
					if !(t == newBaseVal && k == 1) && !(fieldNameOf(t) == "base" && k == -1) {
						okShape = false
					}
				}
				if !okShape {
					startKnown = false
					return
				}
				if af.K > startK {
					startK = af.K
				}
			}
			for _, e := range x.Edges {
				walk(e, 0)
			}
		}
	}
	// the filter, decided by order-sign evaluation (shape and polarity independent): the slot copy
	// (the Store into the new slots) must stay reachable when idx == newBase and when idx > newBase
	filterOK := true
	var copies []ssa.Instruction
	for _, st := range Calls(fn, false, Named("(*sync/atomic.Int32).Store")) {
		copies = append(copies, st.(ssa.Instruction))
	}
	if len(copies) > 0 {
		role := func(v ssa.Value) string {
			switch {
			case isAddOf(v, "base"):
				return "idx"
			case isDonePlusOne(v):
				return "newBase"
			}
			return ""
		}
		for _, sg := range []int{0, 1} {
			env := &SignEnv{Depth: 1, Role: role, Signs: map[string]int{"idx:newBase": sg}}
			reach := false
			for _, cp := range copies {
				if env.Reaches(fn, cp) {
					reach = true
				}
			}
			if !reach {
				filterOK = false
				ops = append(ops, map[int]string{0: "drops idx==newBase", 1: "drops idx>newBase"}[sg])
			}
		}
	} else {
		filterOK = false
	}
	c.Decide(filterOK && startKnown && startK <= 0, rule, key(fn, "drop-only:idx<newBase"), fn.Pos(), len(ops)+2, "the carry-over loop reaches the slot of index newBase and drops only indices strictly below the new base", fmt.Sprintf("the window rebuild does not carry over index newBase = doneUntil+1 (filter `idx %v newBase`, first visited slot (newBase-base)%+d, start derivable: %v): the pending mark of the oldest unfinished index is lost and doneUntil advances past it", ops, startK, startKnown))
	// newBase = DoneUntil() + K with K <= 1: nothing above the watermark falls below the new base
	nb := false
	if newBaseVal != nil {
		for _, dc := range Calls(fn, false, Named("utils.(*WaterMark).DoneUntil")) {
			af := AffineOf(newBaseVal, dc.Value())
			if len(af.Terms) == 1 && af.Terms[dc.Value()] == 1 && af.K <= 1 && af.K >= 0 {
				nb = true
			}
		}
	}
	c.Decide(nb, rule, key(fn, "newBase=doneUntil+1"), fn.Pos(), 1, "the new window starts at or right above doneUntil", "the rebuilt window no longer starts at doneUntil or doneUntil+1 (indices above the watermark can fall below the new base and lose their pending mark)")

	// the rebuilt window contains the index that forced the rebuild: the size-doubling loop
	// stops only once size >= index - newBase + 1 (affine normal form of its exit condition)
	var baseVal ssa.Value
	for _, st := range fieldStoresIn(fn, false, "utils.watermarkWindow", "base") {
		if sv, ok := st.(*ssa.Store); ok {
			baseVal = Unwrap(sv.Val)
		}
	}
	decided := false
	for _, b := range fn.Blocks {
		ifi := ifOf(b)
		if ifi == nil {
			continue
		}
		bo, ok := ifi.Cond.(*ssa.BinOp)
		if !ok {
			continue
		}
		isSize := func(v ssa.Value) bool {
			ph, ok := Unwrap(v).(*ssa.Phi)
			if !ok {
				return false
			}
			// the test must be the header of the doubling loop itself: the phi lives in this
			// block and the shift in the successor taken while the loop continues
			if ph.Block() != b {
				return false
			}
			for _, e := range ph.Edges {
				if sh, ok := e.(*ssa.BinOp); ok && sh.Op == token.SHL && sh.Block() == b.Succs[0] {
					return true
				}
			}
			return false
		}
		var bound ssa.Value
		extra := int64(0)
		switch {
		case isSize(bo.X) && bo.Op == token.LSS:
			bound = bo.Y
		case isSize(bo.X) && bo.Op == token.LEQ:
			bound, extra = bo.Y, 1
		case isSize(bo.Y) && bo.Op == token.GTR:
			bound = bo.X
		case isSize(bo.Y) && bo.Op == token.GEQ:
			bound, extra = bo.X, 1
		default:
			continue
		}
		decided = true
		af := AffineOf(bound, baseVal)
		af.K += extra
		var plus, minus ssa.Value
		shape := len(af.Terms) == 2
		for v, k := range af.Terms {
			switch k {
			case 1:
				plus = v
			case -1:
				minus = v
			default:
				shape = false
			}
		}
		okIdx := false
		if plus != nil {
			switch x := plus.(type) {
			case *ssa.Parameter:
				okIdx = x.Name() == "index"
			case *ssa.Call:
				// index = max(index, newBase)
				if bi, ok := x.Call.Value.(*ssa.Builtin); ok && bi.Name() == "max" {
					okIdx = true
					hasParam := false
					for _, a := range x.Call.Args {
						a = Unwrap(a)
						if p, ok := a.(*ssa.Parameter); ok && p.Name() == "index" {
							hasParam = true
						} else if a != baseVal {
							okIdx = false
						}
					}
					okIdx = okIdx && hasParam
				}
			case *ssa.Phi:
				okIdx = true
				hasParam := false
				for _, e := range x.Edges {
					e = Unwrap(e)
					if p, ok := e.(*ssa.Parameter); ok && p.Name() == "index" {
						hasParam = true
					} else if e != baseVal {
						okIdx = false
					}
				}
				okIdx = okIdx && hasParam
			}
		}
		good := shape && okIdx && minus != nil && minus == baseVal && af.K >= 1
		c.Decide(good, rule, key(fn, "size>=index-newBase+1"), ifi.Cond.Pos(), 3, "the rebuilt window is large enough to hold the index that forced the rebuild", fmt.Sprintf("the size-doubling loop stops at size >= (index - newBase) %+d: the rebuilt window can end short of the index that forced the rebuild, addIndex then drops its pending count and doneUntil runs past an unfinished index", af.K))
	}
	c.Decide(decided, rule, key(fn, "has:size-doubling-loop"), fn.Pos(), 1, "window growth loop found", "rebuildWindowLocked has no recognisable size-doubling loop bounded by the forcing index")
}

func valueOf(in ssa.Instruction) ssa.Value {
	v, _ := in.(ssa.Value)
	return v
}

func isAddOf(v ssa.Value, field string) bool {
	bo, ok := v.(*ssa.BinOp)
	if !ok || bo.Op != token.ADD {
		return false
	}
	return fieldNameOf(bo.X) == field || fieldNameOf(bo.Y) == field
}

// headPersistGroup: the value-log head recorded in the manifest is what reconcileManifest
// uses after a crash to tell tracked segments from orphans; it must be persisted whenever
// the head moves to another file.
func headPersistGroup(c *Ctx, rule string) {
	c.Rule(rule, "DB.shouldPersistHead answers true whenever the new head's Fid differs from the last logged one (every return reachable from the Fid-differs edge is the constant true); DB.updateHead logs the head (LSM.LogValueLogHead) on the branch where shouldPersistHead is true with no further condition, and records lastLoggedHeads only after LogValueLogHead returned nil")
	if fn := c.Fn("", "DB.shouldPersistHead"); fn != nil {
		n := 0
		for _, b := range fn.Blocks {
			ifi := ifOf(b)
			if ifi == nil {
				continue
			}
			bo, ok := ifi.Cond.(*ssa.BinOp)
			if !ok || (bo.Op != token.NEQ && bo.Op != token.EQL) {
				continue
			}
			if !isFieldLoad(bo.X, "kv.ValuePtr", "Fid") || !isFieldLoad(bo.Y, "kv.ValuePtr", "Fid") {
				continue
			}
			n++
			differ := b.Succs[0]
			if bo.Op == token.EQL {
				differ = b.Succs[1]
			}
			allTrue, rets := true, 0
			seen := map[*ssa.BasicBlock]bool{}
			var walk func(x *ssa.BasicBlock)
			walk = func(x *ssa.BasicBlock) {
				if seen[x] {
					return
				}
				seen[x] = true
				if len(x.Instrs) > 0 {
					if r, ok := x.Instrs[len(x.Instrs)-1].(*ssa.Return); ok {
						rets++
						v := RetVal(r, 0)
						if k, ok := v.(*ssa.Const); !ok || k.Value == nil || k.Value.String() != "true" {
							allTrue = false
						}
					}
				}
				for _, s := range x.Succs {
					walk(s)
				}
			}
			walk(differ)
			c.Decide(allTrue && rets > 0, rule, key(fn, fmt.Sprintf("Fid-differs[%d]=>true", n)), ifi.Cond.Pos(), len(seen)+1, "a head in another file is always persisted", "shouldPersistHead can answer false although the head moved to another value-log file: the manifest keeps pointing at the old file and reconcileManifest treats the new segment as an orphan after a crash")
		}
		c.Decide(n >= 1, rule, key(fn, "compares:next.Fid,last.Fid"), fn.Pos(), 1, "the file id of the new head is compared with the last logged one", "shouldPersistHead no longer compares the head's file id with the last logged head: a rotation to a new value-log file is not guaranteed to be persisted")
	}
	if fn := c.Fn("", "DB.updateHead"); fn != nil {
		sp := need(c, rule, fn, false, "shouldPersistHead", Named("NoKV.(*DB).shouldPersistHead"), 1)
		lg := need(c, rule, fn, false, "LogValueLogHead", Named("lsm.(*LSM).LogValueLogHead"), 1)
		for i, l := range lg {
			good := false
			for _, s := range sp {
				call, _ := s.(*ssa.Call)
				if call == nil {
					continue
				}
				ifi := ifOf(s.Block())
				if ifi == nil || Unwrap(ifi.Cond) != ssa.Value(call) {
					// `if !x` is compiled as If(x) with swapped successors or as UnOp NOT
					if u, ok := ifi.Cond.(*ssa.UnOp); !ok || u.Op != token.NOT || u.X != ssa.Value(call) {
						continue
					}
					// negated: persist edge is the false successor
					if straightTo(s.Block().Succs[1], l.Block()) {
						good = true
					}
					continue
				}
				if straightTo(s.Block().Succs[0], l.Block()) {
					good = true
				}
			}
			c.Decide(good, rule, key(fn, fmt.Sprintf("LogValueLogHead[%d]<=shouldPersistHead", i+1)), l.Pos(), 2, "logged exactly when shouldPersistHead says so", "between shouldPersistHead()==true and LogValueLogHead there is another condition (or the call is not on the true branch)")
		}
		n := 0
		AllInstrs(fn, false, func(in ssa.Instruction) {
			mu, ok := in.(*ssa.MapUpdate)
			if !ok || !isFieldLoad(mu.Map, "NoKV.DB", "lastLoggedHeads") {
				return
			}
			n++
			succOK(c, rule, key(fn, fmt.Sprintf("lastLoggedHeads-update[%d]<-ok(LogValueLogHead)", n)), fn, lg, "LogValueLogHead", mu, "the lastLoggedHeads update")
		})
		c.Decide(n >= 1, rule, key(fn, "has:lastLoggedHeads-update"), fn.Pos(), 1, "last logged head is tracked", "updateHead no longer records the last logged head")
	}
}

// straightTo: to is reached from from through blocks with a single successor (no further branch).
func straightTo(from, to *ssa.BasicBlock) bool {
	for i := 0; i < 8; i++ {
		if from == to {
			return true
		}
		if len(from.Succs) != 1 {
			return false
		}
		from = from.Succs[0]
	}
	return false
}

// partialAckCoverageGroup: when applyRequests fails at request #failedAt, every request from
// failedAt on (the failing one included) gets the error; only the prefix before it is
// acknowledged with nil.
func partialAckCoverageGroup(c *Ctx, rule string) {
	c.Rule(rule, "DB.commitWorker, partial failure: the per-request error map handed to finishCommitRequests is filled for requests[failedAt:] — the lower bound of the index loop / sub-slice is failedAt+K with K <= 0 (affine normal form; failedAt is applyRequests' first result or 0 after a failed sync) — so the request whose apply failed is never acknowledged with a nil error")
	fn, sites := ackSites(c)
	if fn == nil {
		return
	}
	aps := Calls(fn, false, Named("NoKV.(*DB).applyRequests"))
	if len(aps) == 0 {
		return
	}
	var fa ssa.Value
	for _, r := range *aps[0].Value().Referrers() {
		if ex, ok := r.(*ssa.Extract); ok && ex.Index == 0 {
			fa = ex
		}
	}
	if fa == nil {
		c.Fail(rule, key(fn, "has:failedAt"), fn.Pos(), 1, "applyRequests' first result (failedAt) is unused")
		return
	}
	// atoms: failedAt itself and phis that merge it with the constant 0
	isFA := func(v ssa.Value) bool {
		v = Unwrap(v)
		if v == fa {
			return true
		}
		if ph, ok := v.(*ssa.Phi); ok {
			for _, e := range ph.Edges {
				e = Unwrap(e)
				if e == fa {
					continue
				}
				if k, ok := ConstInt(e); ok && k == 0 {
					continue
				}
				return false
			}
			return true
		}
		return false
	}
	n := 0
	for _, s := range sites {
		if IsNilConst(s.per) {
			continue
		}
		// map updates into the per-request map
		AllInstrs(fn, false, func(in ssa.Instruction) {
			mu, ok := in.(*ssa.MapUpdate)
			if !ok || mu.Map != s.per {
				return
			}
			n++
			lows := lowerBoundsOfKey(mu.Key)
			good := len(lows) > 0
			worst := int64(0)
			for _, lo := range lows {
				var atoms []ssa.Value
				af := AffineOf(lo)
				okShape := len(af.Terms) == 1
				for v, k := range af.Terms {
					if k != 1 || !isFA(v) {
						okShape = false
					}
					atoms = append(atoms, v)
				}
				if !okShape || af.K > 0 {
					good = false
					if af.K > worst {
						worst = af.K
					}
				}
			}
			c.Decide(good, rule, key(fn, fmt.Sprintf("perReqErr-fill[%d]#from:failedAt", n)), mu.Pos(), len(lows)+1, "the error map covers requests[failedAt:]", fmt.Sprintf("the error map does not start at failedAt (lower bound failedAt%+d or not derived from it): the request whose apply failed is acknowledged with a nil error although it was never applied", worst))
		})
	}
	c.Decide(n >= 1, rule, key(fn, "has:perReqErr-fill"), fn.Pos(), 1, "per-request error map is filled", "no fill of the per-request error map found although a partial acknowledgement exists")
}

// lowerBoundsOfKey: key is requests[i]; returns the possible initial values of i (index
// loops: the non-increment phi edges; range over a sub-slice: the slice's low bound).
func lowerBoundsOfKey(k ssa.Value) []ssa.Value {
	u, ok := k.(*ssa.UnOp)
	if !ok || u.Op != token.MUL {
		return nil
	}
	ia, ok := u.X.(*ssa.IndexAddr)
	if !ok {
		return nil
	}
	var out []ssa.Value
	// range over requests[lo:]: the indexed slice is a Slice instruction
	if sl, ok := ia.X.(*ssa.Slice); ok {
		if sl.Low != nil {
			return []ssa.Value{sl.Low}
		}
		return nil
	}
	if ph, ok := ia.Index.(*ssa.Phi); ok {
		for _, e := range ph.Edges {
			if bo, ok := e.(*ssa.BinOp); ok && bo.Op == token.ADD && bo.X == ssa.Value(ph) {
				continue // i++
			}
			out = append(out, e)
		}
	}
	return out
}

// entryRefOwnershipGroup: a write request owns one reference of each entry it carries
// and drops it when the request is recycled (request.DecrRef, reached from request.Wait).
// A caller may therefore release its hand-over reference on an error edge only if the
// failing callee is known not to have recycled a request that still carried the entries;
// otherwise the release is a second one and kv.Entry.DecrRef panics (refcount underflow)
// instead of the write returning its error.
func entryRefOwnershipGroup(c *Ctx, rule string) {
	c.Rule(rule, "ownership of entry references on the write path: (a) in DB.sendToWriteCh every request.DecrRef on a path that returns an error is dominated by `req.Entries = nil` (a rejected request leaves the entries with the caller); (b) in the root package, a kv.Entry.DecrRef that is dominated by the error edge of a call is legal only if that callee cannot recycle a request carrying entries (it reaches neither request.Wait nor an undetached request.DecrRef); the success path hands the reference to request.Wait")
	reqDecr := Named("NoKV.(*request).DecrRef")
	reqWait := Named("NoKV.(*request).Wait")
	// detached(f, d): d (a request.DecrRef in f) is dominated by a nil store to request.Entries
	detached := func(f *ssa.Function, d ssa.Instruction) bool {
		for _, st := range fieldStoresIn(f, false, "NoKV.request", "Entries") {
			if sv, ok := st.(*ssa.Store); ok && IsNilConst(sv.Val) && Dominates(st, d) {
				return true
			}
		}
		return false
	}
	// consumes(f): f may recycle a request that still carries its entries
	memo := map[*ssa.Function]bool{}
	var consumes func(f *ssa.Function, depth int) bool
	consumes = func(f *ssa.Function, depth int) bool {
		if v, ok := memo[f]; ok {
			return v
		}
		memo[f] = false
		res := false
		AllInstrs(f, false, func(in ssa.Instruction) {
			ci, ok := in.(ssa.CallInstruction)
			if !ok || res {
				return
			}
			if reqWait(ci.Common()) {
				res = true
				return
			}
			if reqDecr(ci.Common()) && !detached(f, in) {
				res = true
				return
			}
			if depth > 0 {
				if sf := StaticFn(ci.Common()); sf != nil && sf.Blocks != nil && FuncPkgPath(sf) == Module && sf != f {
					if consumes(sf, depth-1) {
						res = true
					}
				}
			}
		})
		memo[f] = res
		return res
	}
	if fn := c.Fn("", "DB.sendToWriteCh"); fn != nil {
		n := 0
		for _, d := range Calls(fn, false, reqDecr) {
			n++
			c.Decide(detached(fn, d.(ssa.Instruction)), rule, key(fn, fmt.Sprintf("request.DecrRef[%d]<-Entries=nil", n)), d.Pos(), 2, "a request that was never enqueued is recycled without its entries", "sendToWriteCh recycles a rejected request that still carries the caller's entries: their reference is dropped although the call reports failure, and the caller's own release then underflows the refcount (panic instead of an error)")
		}
	}
	sites := 0
	for _, f := range c.P.ModFuncs {
		if FuncPkgPath(f) != Module {
			continue
		}
		for _, d := range Calls(f, false, Named("kv.(*Entry).DecrRef")) {
			din, ok := d.(*ssa.Call)
			if !ok {
				continue // deferred releases run on every exit; they balance the constructor's reference
			}
			// which call's error edge dominates this release?
			for _, b := range f.Blocks {
				for _, in := range b.Instrs {
					call, ok := in.(*ssa.Call)
					if !ok {
						continue
					}
					sf := StaticFn(call.Common())
					if sf == nil || sf.Blocks == nil || FuncPkgPath(sf) != Module {
						continue
					}
					ev := ErrResult(call)
					if ev == nil {
						continue
					}
					onErr := false
					for _, e := range NilEdges(f, FlowSet(ev)) {
						if EdgeDominates(e.NonNil[0], e.NonNil[1], din.Block()) {
							onErr = true
						}
					}
					if !onErr {
						continue
					}
					// only calls that were handed entries matter
					takes := false
					for _, a := range call.Call.Args {
						if strings.Contains(a.Type().String(), "kv.Entry") {
							takes = true
						}
					}
					if !takes {
						continue
					}
					sites++
					c.Decide(!consumes(sf, 3), rule, key(f, fmt.Sprintf("Entry.DecrRef[%d]@err(%s)", ordinalIn(f, d), sf.Name())), d.Pos(), 3, "released on the error edge of a callee that leaves the entries with the caller", "an entry reference is released on the error edge of "+sf.Name()+", which may already have recycled the request that owned it (request.Wait / undetached request.DecrRef): a failed write panics with a refcount underflow instead of returning its error")
				}
			}
		}
	}
	c.Floor(rule, sites, 2, "error-edge entry releases")
}

// gcReinsertAtomicGroup: value-log GC decides liveness (read the LSM pointer, compare)
// and later re-inserts the record through the write pipeline.  Writes are serialised only
// inside the single commit worker, and plain writes all carry the same version, so a
// plain overwrite committed between GC's check and GC's re-insert is shadowed by the
// re-inserted stale value.  The check-then-act is atomic only if the liveness decision is
// (re)made inside the serial section, or if no two writes of a key can carry the same version.
func gcReinsertAtomicGroup(c *Ctx, rule string) {
	c.Rule(rule, "value-log GC's liveness decision and its re-insert are atomic with respect to other writers: either the function that compares the LSM's current pointer with the scanned position is reachable from DB.commitWorker (the only section in which writes are serialised), or plain writes do not share one constant version (so a re-insert at the record's own version cannot shadow a later write)")
	rw := c.Fn("", "valueLog.rewrite")
	cw := c.Fn("", "DB.commitWorker")
	se := c.Fn("", "DB.setEntry")
	if rw == nil || cw == nil || se == nil {
		return
	}
	// the liveness decider: the closure of rewrite that decodes the live pointer
	decider := gcDeciderOf(rw, true)
	if decider == nil {
		c.Fail(rule, key(rw, "has:liveness-decider"), rw.Pos(), 1, "no liveness-deciding closure found in rewrite")
		return
	}
	reach := c.P.Reach([]*ssa.Function{cw}, nil)
	_, inSerial := reach[decider]
	// also accept a pointer comparison made by any function the commit worker reaches
	if !inSerial {
		for f := range reach {
			if f == nil || f.Blocks == nil || FuncPkgPath(f) != Module {
				continue
			}
			if len(Calls(f, false, Named("kv.(*ValuePtr).Decode"))) > 0 && len(Calls(f, false, Named("kv.DiscardEntry"))) > 0 {
				inSerial = true
			}
		}
	}
	// plain writes use one constant version?
	constVersion := false
	for _, ik := range Calls(se, false, Named("kv.InternalKey")) {
		args := ik.Common().Args
		if _, ok := args[len(args)-1].(*ssa.Const); ok {
			constVersion = true
		}
	}
	c.Decide(inSerial || !constVersion, rule, key(rw, "reinsert#atomic-with-liveness-check"), decider.Pos(), len(reach)+1,
		ifs(inSerial, "liveness is (re)decided inside the commit worker's serial section", "plain writes carry distinct versions"),
		"GC decides liveness in rewrite (outside the commit worker) and re-inserts later, while every plain write of a key uses the same constant version: an acknowledged plain overwrite committed between the check and the re-insert is shadowed by the stale re-inserted value")
}

// levelDisjointGroup: levels >= 1 are searched in exactly one table per key (binary search on
// MaxKey), which is only correct while the tables of a level have disjoint key ranges.  A
// compaction keeps that invariant only if it takes in every next-level table that overlaps
// the range it writes.
func levelDisjointGroup(c *Ctx, rule string) {
	c.Rule(rule, "compact.OverlappingTables returns the half-open interval of tables overlapping [kr.Left, kr.Right]: its first sort.Search predicate is `kr.Left <= tables[i].MaxKey` and its second `kr.Right < tables[i].MinKey` (first table that starts beyond the range), both through utils.CompareKeys; PlanForRegular, PlanForIngestShard and PlanForL0ToLbase take their bottom tables from it")
	fn := c.Fn("lsm/compact", "OverlappingTables")
	if fn == nil {
		return
	}
	searches := Calls(fn, false, Named("sort.Search"))
	c.Decide(len(searches) == 2, rule, key(fn, "two-binary-searches"), fn.Pos(), len(searches)+1, "left and right bound are binary searches", fmt.Sprintf("%d sort.Search calls in OverlappingTables (expected 2: left and right bound)", len(searches)))
	// which search feeds which result
	for _, r := range Returns(fn) {
		if len(r.Results) != 2 {
			continue
		}
		for ri, want := range [][3]string{{"Left", "MaxKey", "<="}, {"Right", "MinKey", "<"}} {
			v := RetVal(r, ri)
			var cl *ssa.Function
			for _, s := range searches {
				if s.Value() == v {
					if mc, ok := s.Common().Args[1].(*ssa.MakeClosure); ok {
						cl, _ = mc.Fn.(*ssa.Function)
					}
				}
			}
			name := []string{"left", "right"}[ri]
			if cl == nil {
				// the constant (0, 0) early return
				if k, ok := ConstInt(v); ok && k == 0 {
					continue
				}
				c.Fail(rule, key(fn, name+"-bound#predicate"), r.Pos(), 1, "the %s bound is not the result of a sort.Search with an inline predicate", name)
				continue
			}
			c.Touch(cl)
			krF, tbF, op, ok := boundPredicate(cl)
			good := ok && krF == want[0] && tbF == want[1] && op == want[2]
			c.Decide(good, rule, key(fn, name+"-bound#predicate"), cl.Pos(), 3, fmt.Sprintf("kr.%s %s tables[i].%s", want[0], want[2], want[1]),
				fmt.Sprintf("the %s bound is computed with `kr.%s %s tables[i].%s` (recognised: %v), expected `kr.%s %s tables[i].%s`: a next-level table that overlaps the compaction range only partly is left out, the level ends up with overlapping tables and keys that live only in the older one become unreadable", name, krF, op, tbF, ok, want[0], want[2], want[1]))
		}
	}
	for _, pl := range []string{"PlanForRegular", "PlanForIngestShard", "PlanForL0ToLbase"} {
		if pf := c.Fn("lsm/compact", pl); pf != nil {
			need(c, rule, pf, false, "OverlappingTables", Named("lsm/compact.OverlappingTables"), 1)
		}
	}
}

// boundPredicate decodes `return utils.CompareKeys(a, b) OP 0` into (KeyRange field,
// TableMeta field, OP) with the KeyRange operand on the left.
func boundPredicate(cl *ssa.Function) (krField, tblField, op string, ok bool) {
	for _, r := range Returns(cl) {
		bo, isB := RetVal(r, 0).(*ssa.BinOp)
		if !isB {
			return "", "", "", false
		}
		call, isC := bo.X.(*ssa.Call)
		z, isZ := ConstInt(bo.Y)
		o := bo.Op
		if !isC {
			// 0 OP cmp
			call, isC = bo.Y.(*ssa.Call)
			z, isZ = ConstInt(bo.X)
			o = flipOp(o)
		}
		if !isC || !isZ || z != 0 || !Named("utils.CompareKeys")(call.Common()) {
			return "", "", "", false
		}
		a, b := call.Call.Args[0], call.Call.Args[1]
		ao, af, _ := fieldOfLoad(a)
		bo2, bf, _ := fieldOfLoad(b)
		switch {
		case strings.HasSuffix(ao, "KeyRange") && strings.HasSuffix(bo2, "TableMeta"):
			return af, bf, o.String(), true
		case strings.HasSuffix(ao, "TableMeta") && strings.HasSuffix(bo2, "KeyRange"):
			return bf, af, flipOp(o).String(), true
		}
		return "", "", "", false
	}
	return "", "", "", false
}

func flipOp(o token.Token) token.Token {
	switch o {
	case token.LSS:
		return token.GTR
	case token.GTR:
		return token.LSS
	case token.LEQ:
		return token.GEQ
	case token.GEQ:
		return token.LEQ
	}
	return o
}

// fieldOfLoad: v is a load of (or a Field of) owner.field, possibly through an index.
func fieldOfLoad(v ssa.Value) (owner, field string, ok bool) {
	v = Unwrap(v)
	switch x := v.(type) {
	case *ssa.UnOp:
		if x.Op == token.MUL {
			return FieldOf(x.X)
		}
	case *ssa.Field:
		return FieldOf(x)
	}
	return "", "", false
}

// seekGapGroup: a table's forward Seek picks the last block whose base key is <= target and
// seeks inside it.  blockIterator.seek reports io.EOF when every entry of that block is below
// the target; the first entry at or after the target is then the first entry of the NEXT block.
// A table-level Seek that does not continue there turns "between two blocks" into "not found":
// an MVCC read at a timestamp between two versions that straddle a block boundary misses the
// older version.
func seekGapGroup(c *Ctx, rule string) {
	c.Rule(rule, "tableIterator.Seek (ascending): after seekHelper(idx-1, key) — idx being the first block whose base key is above the target — the iterator's error is compared with io.EOF and, on equality, seekHelper(idx, key) continues in the next block; blockIterator.seek yields that EOF by positioning at len(entryOffsets)")
	fn := c.Fn("lsm", "tableIterator.Seek")
	if fn == nil {
		return
	}
	sh := Calls(fn, false, Named("lsm.(*tableIterator).seekHelper"))
	searches := Calls(fn, false, Named("sort.Search"))
	isSearch := func(v ssa.Value) bool {
		for _, s := range searches {
			if s.Value() == v {
				return true
			}
		}
		return false
	}
	// EOF tests on tableIterator.err
	var eofEdges [][2]*ssa.BasicBlock
	for _, b := range fn.Blocks {
		ifi := ifOf(b)
		if ifi == nil {
			continue
		}
		var visit func(v ssa.Value, pol bool)
		visit = func(v ssa.Value, pol bool) {
			bo, ok := v.(*ssa.BinOp)
			if !ok {
				return
			}
			if bo.Op != token.EQL && bo.Op != token.NEQ {
				return
			}
			x, y := bo.X, bo.Y
			isErr := func(v ssa.Value) bool { return isFieldLoad(v, "lsm.tableIterator", "err") }
			isEOF := func(v ssa.Value) bool {
				u, ok := v.(*ssa.UnOp)
				if !ok {
					return false
				}
				g, ok := u.X.(*ssa.Global)
				return ok && g.Name() == "EOF" && g.Pkg != nil && g.Pkg.Pkg.Path() == "io"
			}
			if (isErr(x) && isEOF(y)) || (isErr(y) && isEOF(x)) {
				if (bo.Op == token.EQL) == pol {
					eofEdges = append(eofEdges, [2]*ssa.BasicBlock{b, b.Succs[0]})
				} else {
					eofEdges = append(eofEdges, [2]*ssa.BasicBlock{b, b.Succs[1]})
				}
			}
		}
		visit(ifi.Cond, true)
	}
	// errors.Is(it.err, io.EOF) form
	for _, ei := range Calls(fn, false, Named("errors.Is")) {
		if call, ok := ei.(*ssa.Call); ok && isFieldLoad(call.Call.Args[0], "lsm.tableIterator", "err") {
			for _, r := range *call.Referrers() {
				if ifi, ok := r.(*ssa.If); ok {
					eofEdges = append(eofEdges, [2]*ssa.BasicBlock{ifi.Block(), ifi.Block().Succs[0]})
				}
			}
		}
	}
	var prev, next []ssa.CallInstruction
	for _, s := range sh {
		arg := s.Common().Args[1]
		if bo, ok := arg.(*ssa.BinOp); ok && bo.Op == token.SUB && isSearch(bo.X) {
			if k, ok := ConstInt(bo.Y); ok && k == 1 {
				prev = append(prev, s)
			}
		}
		if isSearch(arg) {
			next = append(next, s)
		}
	}
	c.Decide(len(prev) >= 1, rule, key(fn, "has:seekHelper(idx-1)"), fn.Pos(), len(sh)+1, "candidate block is the last one whose base key is <= target", "tableIterator.Seek no longer seeks in block idx-1")
	// the ascending continuation: some seekHelper(idx) lies behind an EOF edge that follows a seekHelper(idx-1)
	good := false
	for _, nx := range next {
		for _, e := range eofEdges {
			if !EdgeDominates(e[0], e[1], nx.Block()) {
				continue
			}
			for _, pv := range prev {
				if Dominates(pv.(ssa.Instruction), nx.(ssa.Instruction)) {
					good = true
				}
			}
		}
	}
	c.Decide(good, rule, key(fn, "gap:EOF(idx-1)->seekHelper(idx)"), fn.Pos(), len(eofEdges)+len(next)+1, "a target beyond the last entry of block idx-1 continues with the first entry of block idx", "after seeking in block idx-1 the iterator's io.EOF (every entry of that block is below the target) is not followed by a seek into block idx: a target that falls between two blocks makes the iterator invalid, and table.Search reports `not found` for a version that exists in the next block")
	if bs := c.Fn("lsm", "blockIterator.seek"); bs != nil {
		need(c, rule, bs, false, "setIdx", Named("lsm.(*blockIterator).setIdx"), 1)
	}
}

// versionAccumulatorGroup: point lookups fold the newest version <= read timestamp over several
// tables into a uint64 accumulator that starts at 0, and 0 is also a storable version.  The
// acceptance test and the "this table cannot improve on what we have" pre-filters are decided
// by order-sign evaluation over the three quantities candidate, best and the constant 0.
func versionAccumulatorGroup(c *Ctx, rule string) {
	c.Rule(rule, "table.Search accepts a found entry iff its version supersedes the accumulator: for every ordering of (candidate, best, 0) — candidate > best ⇒ accepted, candidate < best ⇒ rejected, candidate == best == 0 (nothing found yet, entry stored at version 0) ⇒ accepted; the pre-filters in searchL0SST, searchLNSST and the ingest-shard search reach table.Search under the same orderings with candidate = the table's max version")
	type site struct {
		fn     *ssa.Function
		target ssa.Instruction
		cand   func(v ssa.Value) bool
		best   func(v ssa.Value) bool
		name   string
	}
	var sites []site
	if fn := c.Fn("lsm", "table.Search"); fn != nil {
		var mv ssa.Value
		if len(fn.Params) >= 3 {
			mv = fn.Params[2]
		}
		for _, ne := range Calls(fn, false, Named("kv.NewEntryWithCF")) {
			sites = append(sites, site{fn, ne.(ssa.Instruction),
				func(v ssa.Value) bool {
					call, ok := v.(*ssa.Call)
					return ok && Named("kv.ParseTs")(call.Common())
				},
				func(v ssa.Value) bool { u, ok := v.(*ssa.UnOp); return ok && u.Op == token.MUL && u.X == mv },
				"accept"})
		}
	}
	for _, f := range c.P.ModFuncs {
		if FuncPkgPath(f) != Module+"/lsm" || FuncName(f) == "(*lsm.table).Search" {
			continue
		}
		for _, sc := range Calls(f, false, Named("lsm.(*table).Search")) {
			acc := sc.Common().Args[2] // pointer to the accumulator
			if len(Calls(f, false, Named("lsm.(*table).MaxVersionVal"))) == 0 {
				continue
			}
			c.Touch(f)
			sites = append(sites, site{f, sc.(ssa.Instruction),
				func(v ssa.Value) bool {
					call, ok := v.(*ssa.Call)
					return ok && Named("lsm.(*table).MaxVersionVal")(call.Common())
				},
				func(v ssa.Value) bool {
					u, ok := v.(*ssa.UnOp)
					if !ok || u.Op != token.MUL {
						return false
					}
					return u.X == acc || sameSlot(u.X, acc)
				},
				"prefilter"})
		}
	}
	c.Floor(rule, len(sites), 3, "version-accumulator sites")
	sgn := func(a, b int) int {
		switch {
		case a < b:
			return -1
		case a > b:
			return 1
		}
		return 0
	}
	for i, s := range sites {
		bad := ""
		explored := 0
		for cand := 0; cand <= 2; cand++ {
			for best := 0; best <= 2; best++ {
				env := &SignEnv{Depth: 2, Signs: map[string]int{"0:best": sgn(0, best), "0:cand": sgn(0, cand), "best:cand": sgn(best, cand)},
					Role: func(v ssa.Value) string {
						switch {
						case s.cand(v):
							return "cand"
						case s.best(v):
							return "best"
						}
						return ""
					}}
				reach := env.Reaches(s.fn, s.target)
				explored += env.Visited
				want := cand > best || (cand == 0 && best == 0)
				mustNot := cand < best
				if want && !reach && bad == "" {
					bad = fmt.Sprintf("candidate version %s, best so far %s: not accepted", absVal(cand), absVal(best))
				}
				if s.name == "accept" && mustNot && reach && bad == "" {
					bad = fmt.Sprintf("candidate version %s below best so far %s: accepted", absVal(cand), absVal(best))
				}
			}
		}
		c.Decide(bad == "", rule, key(s.fn, fmt.Sprintf("%s[%d]#orderings(candidate,best,0)", s.name, i+1)), s.target.Pos(), explored,
			"all 9 orderings of (candidate, best, 0) behave as `candidate supersedes best`", "version accumulator mis-handles an ordering ("+bad+"): 0 is both the initial value and a storable version, so an entry stored at version 0 (or a table whose entries are all at version 0) can never be returned by a point lookup once it is in an SST")
	}
}

func absVal(v int) string {
	switch v {
	case 0:
		return "0"
	case 1:
		return "small>0"
	}
	return "large"
}

// sameSlot: two pointer values denote the same accumulator (same alloc/parameter, also through phi).
func sameSlot(a, b ssa.Value) bool {
	if a == b {
		return true
	}
	if p, ok := b.(*ssa.Phi); ok {
		for _, e := range p.Edges {
			if e == a {
				return true
			}
		}
	}
	if p, ok := a.(*ssa.Phi); ok {
		for _, e := range p.Edges {
			if e == b {
				return true
			}
		}
	}
	return false
}

// segmentNamesGroup: WAL segment files are created as Sprintf("%05d.wal", id) — five is a
// MINIMUM width — and must be found again for every id.  The discovery side therefore has to
// (a) match names literally (no glob pattern built from the directory path), (b) parse ids
// of any width (a scan verb's width is a maximum), and (c) order segments by id, not by name.
func segmentNamesGroup(c *Ctx, rule string) {
	c.Rule(rule, "package wal: segment names are produced by one Sprintf(\"%05d.wal\") (segmentPath); every function that enumerates segments does so through the package's lister, which lists with FS.ReadDir (not FS.Glob on Dir+pattern), parses ids with strconv.ParseUint (no fmt.Sscan* with a width) and sorts by id (sort.Slice/sort.Ints, not sort.Strings); openLatestSegment, ListSegments, Replay and VerifyDir all reach it (directly or through helpers)")
	pkg := Module + "/wal"
	var globs, scans, strSorts []string
	var globPos, scanPos, sortPos token.Pos
	for _, f := range c.P.ModFuncs {
		if FuncPkgPath(f) != pkg {
			continue
		}
		for _, ci := range Calls(f, false, func(cc *ssa.CallCommon) bool { return cc.IsInvoke() && cc.Method.Name() == "Glob" }) {
			globs = append(globs, FuncName(f))
			globPos = ci.Pos()
		}
		for _, ci := range Calls(f, false, Named("fmt.Sscanf", "fmt.Sscan", "fmt.Fscanf", "fmt.Sscanln")) {
			scans = append(scans, FuncName(f))
			scanPos = ci.Pos()
		}
		for _, ci := range Calls(f, false, Named("sort.Strings", "slices.Sort")) {
			if strings.Contains(ci.Common().Args[0].Type().String(), "string") {
				strSorts = append(strSorts, FuncName(f))
				sortPos = ci.Pos()
			}
		}
	}
	c.Decide(len(globs) == 0, rule, "wal#no-glob-on-directory", globPos, 1, "segments are not discovered through a glob pattern built from the directory path", "package wal lists files with FS.Glob (in "+strings.Join(globs, ", ")+"): a directory path containing [, *, ? or \\ is interpreted as a pattern, no segment is found, replay is empty and the reopened log truncates its first segment")
	// the value log writes its segment names with the same %05d and must read them back whole too
	var vscans []string
	var vscanPos token.Pos
	for _, f := range c.P.ModFuncs {
		if FuncPkgPath(f) != Module+"/vlog" {
			continue
		}
		for _, ci := range Calls(f, false, Named("fmt.Sscanf", "fmt.Sscan", "fmt.Fscanf", "fmt.Sscanln")) {
			vscans = append(vscans, FuncName(f))
			vscanPos = ci.Pos()
		}
	}
	c.Decide(len(vscans) == 0, rule, "vlog#no-width-limited-scan", vscanPos, 1, "value-log segment ids are not parsed with a width-limited scan verb", "package vlog parses segment names with fmt.Sscan* (in "+strings.Join(vscans, ", ")+"): `%05d` reads at most five digits, so after the log rotates into 100000.vlog a reopened value log no longer finds that segment (acknowledged values fail with `value log file not found`) and the next rotation re-creates it over the old data")
	c.Decide(len(scans) == 0, rule, "wal#no-width-limited-scan", scanPos, 1, "segment ids are not parsed with a width-limited scan verb", "package wal parses names with fmt.Sscan* (in "+strings.Join(scans, ", ")+"): `%05d` reads at most five digits, so segments with id >= 100000 are invisible to replay and resume")
	c.Decide(len(strSorts) == 0, rule, "wal#no-name-order", sortPos, 1, "segments are not ordered by name", "package wal orders segment paths as strings (in "+strings.Join(strSorts, ", ")+"): 100000.wal sorts before 99999.wal, so records would be replayed out of order")
	// the lister: whichever function of package wal reads the directory
	isReadDir := func(cc *ssa.CallCommon) bool { return cc.IsInvoke() && cc.Method.Name() == "ReadDir" }
	var listers []*ssa.Function
	for _, f := range c.P.ModFuncs {
		if FuncPkgPath(f) == pkg && len(Calls(f, false, isReadDir)) > 0 {
			listers = append(listers, Root(f))
		}
	}
	c.Decide(len(listers) >= 1, rule, "wal#lists-with-ReadDir", 0, len(listers)+1, "segments are listed with FS.ReadDir", "no function of package wal lists the directory with FS.ReadDir")
	for _, lf := range listers {
		c.Touch(lf)
		pu := Calls(lf, true, Named("strconv.ParseUint", "strconv.Atoi", "strconv.ParseInt"))
		so := Calls(lf, true, Named("sort.Slice", "sort.Ints", "slices.SortFunc", "sort.SliceStable"))
		c.Decide(len(pu) >= 1 && len(so) >= 1, rule, key(lf, "ParseUint+sort-by-id"), lf.Pos(), 3, "full-width parse, numeric order", fmt.Sprintf("%s no longer parses ids with strconv (%d site(s)) and sorts numerically (%d site(s))", FuncName(lf), len(pu), len(so)))
	}
	viaLister := deepMatcher(isReadDir, pkg, 3)
	for _, n := range []string{"Manager.openLatestSegment", "Manager.ListSegments", "Manager.Replay", "VerifyDir"} {
		if f := c.Fn("wal", n); f != nil {
			c.Decide(len(Calls(f, false, viaLister)) >= 1, rule, key(f, "enumerates-through-lister"), f.Pos(), 2, "segments come from the ReadDir-based lister", n+" does not obtain the segment list from the ReadDir-based lister")
		}
	}
	// the writer side: exactly one format
	if sp := c.Fn("wal", "Manager.segmentPath"); sp != nil {
		okFmt := false
		for _, s := range Calls(sp, false, Named("fmt.Sprintf")) {
			if k, ok := s.Common().Args[0].(*ssa.Const); ok && k.Value != nil && strings.Contains(k.Value.ExactString(), "%05d.wal") {
				okFmt = true
			}
		}
		c.Decide(okFmt, rule, key(sp, "format:%05d.wal"), sp.Pos(), 1, "names are <id padded to at least 5 digits>.wal", "segmentPath no longer formats names as %05d.wal (the reader strips `.wal` and parses a decimal id)")
	}
}

// newestAcrossSourcesGroup: a read at version v must return the newest version <= v that exists
// anywhere — in any memtable or any level.  Deeper places can hold newer versions than
// shallower ones (L0->L0 compaction renumbers old data, value-log GC re-inserts old versions
// into the active memtable, percolator writes rollback markers at old timestamps), so a
// lookup may stop at the first hit only when that hit is an exact version match.
func newestAcrossSourcesGroup(c *Ctx, rule string) {
	c.Rule(rule, "LSM.Get and levelManager.Get fold the newest version over every memtable and every level: a hit replaces the running best only when its Version is strictly greater (first source wins ties, sources are visited newest first), the loops are left early only on the true edge of `best.Version == ParseTs(key)` (exact match), and the memtable indexes report the version of the entry they found (Skiplist.Search and artTree.Get store ParseTs(found key) into ValueStruct.Version)")
	// the memtable indexes must report the found version
	for _, spec := range [][2]string{{"utils", "Skiplist.Search"}, {"utils", "artTree.Get"}} {
		fn := c.Fn(spec[0], spec[1])
		if fn == nil {
			continue
		}
		set := false
		for _, st := range fieldStoresIn(fn, false, "kv.ValueStruct", "Version") {
			if sv, ok := st.(*ssa.Store); ok {
				if call, ok := sv.Val.(*ssa.Call); ok && Named("kv.ParseTs")(call.Common()) {
					// the parsed key must not be the requested key (parameter)
					if _, isParam := call.Call.Args[0].(*ssa.Parameter); !isParam {
						set = true
					}
				}
			}
		}
		c.Decide(set, rule, key(fn, "Version=ParseTs(found-key)"), fn.Pos(), 1, "the index reports the version of the entry it found", spec[1]+" does not report the found entry's version (ValueStruct.Version is not serialized): the caller cannot compare hits from different memtables and levels and has to trust the first one")
	}
	isVersionLoad := func(v ssa.Value) bool { return isFieldLoad(v, "kv.Entry", "Version") }
	srcGet := map[string]Matcher{"LSM.Get": Named("lsm.(*memTable).Get"), "levelManager.Get": Named("lsm.(*levelHandler).Get")}
	for _, spec := range [][2]string{{"lsm", "LSM.Get"}, {"lsm", "levelManager.Get"}} {
		fn := c.Fn(spec[0], spec[1])
		if fn == nil {
			continue
		}
		// the fold may live in a same-package helper that owns the loop over the sources
		fn = loopOwner(c, fn, srcGet[spec[1]])
		// exact-match edges
		var eq [][2]*ssa.BasicBlock
		strictFold := false
		for _, b := range fn.Blocks {
			ifi := ifOf(b)
			if ifi == nil {
				continue
			}
			bo, ok := ifi.Cond.(*ssa.BinOp)
			if !ok {
				continue
			}
			isWant := func(v ssa.Value) bool {
				call, ok := Unwrap(v).(*ssa.Call)
				return ok && Named("kv.ParseTs")(call.Common())
			}
			if (isVersionLoad(bo.X) && isWant(bo.Y)) || (isVersionLoad(bo.Y) && isWant(bo.X)) {
				switch bo.Op {
				case token.EQL:
					eq = append(eq, [2]*ssa.BasicBlock{b, b.Succs[0]})
				case token.NEQ:
					eq = append(eq, [2]*ssa.BasicBlock{b, b.Succs[1]})
				}
			}
			if isVersionLoad(bo.X) && isVersionLoad(bo.Y) && (bo.Op == token.GTR || bo.Op == token.LSS) {
				strictFold = true
			}
		}
		c.Decide(strictFold, rule, key(fn, "fold:Version>best.Version"), fn.Pos(), 1, "hits are folded by strictly greater version", spec[1]+" does not compare the versions of hits from different sources: it returns the first source that has any version at or below the requested one, although a deeper source can hold a newer one")
		// early loop exits carrying a result
		hdrs := map[*ssa.BasicBlock]bool{}
		for _, b := range fn.Blocks {
			for _, p := range b.Preds {
				if b.Dominates(p) {
					hdrs[b] = true
				}
			}
		}
		n := 0
		for h := range hdrs {
			for _, ex := range LoopEarlyExits(h) {
				// error exits are fine: the exit block returns a non-nil error
				if ex[1] != nil && onlyErrorReturns(fn, ex[1]) {
					continue
				}
				if ex[1] == nil && returnsNonNilError(fn, ex[0]) {
					continue
				}
				n++
				guarded := false
				for _, e := range eq {
					if EdgeDominates(e[0], e[1], ex[0]) || (e[0] == ex[0] && e[1] == ex[1]) {
						guarded = true
					}
				}
				where := fn.Pos()
				for _, in := range ex[0].Instrs {
					if in.Pos().IsValid() {
						where = in.Pos()
					}
				}
				c.Decide(guarded, rule, key(fn, fmt.Sprintf("early-exit[%d]<-exact-version-match", n)), where, 2, "the search stops early only on an exact version match", spec[1]+" leaves the loop over its sources with a result that is not an exact version match: a newer version in a later source is never seen (after value-log GC or an L0->L0 compaction a read returns an older version than the newest one at or below its timestamp)")
			}
		}
		c.Decide(len(hdrs) >= 1, rule, key(fn, "has:source-loop"), fn.Pos(), 1, "loop over sources found", spec[1]+" has no loop over its sources")
	}
}

// onlyErrorReturns: every return reachable from b (without re-entering loops) has a non-nil error.
func onlyErrorReturns(fn *ssa.Function, b *ssa.BasicBlock) bool {
	ei := ErrorResultIndex(fn)
	if ei < 0 {
		return false
	}
	seen := map[*ssa.BasicBlock]bool{}
	ok := true
	var walk func(x *ssa.BasicBlock)
	walk = func(x *ssa.BasicBlock) {
		if seen[x] || !ok {
			return
		}
		seen[x] = true
		if len(x.Instrs) > 0 {
			if r, isR := x.Instrs[len(x.Instrs)-1].(*ssa.Return); isR {
				if !ProvablyNonNil(RetVal(r, ei), r, 0) {
					ok = false
				}
				return
			}
		}
		for _, s := range x.Succs {
			walk(s)
		}
	}
	walk(b)
	return ok
}

func returnsNonNilError(fn *ssa.Function, b *ssa.BasicBlock) bool {
	ei := ErrorResultIndex(fn)
	if ei < 0 || len(b.Instrs) == 0 {
		return false
	}
	r, ok := b.Instrs[len(b.Instrs)-1].(*ssa.Return)
	return ok && ProvablyNonNil(RetVal(r, ei), r, 0)
}

// tombstonePredicatesGroup: every predicate a read path uses to decide "this entry is not
// live" tests the delete bit.  Tombstones decoded from a memtable or an SST have an empty but
// non-nil value, so `Value == nil` alone does not recognise them.
func tombstonePredicatesGroup(c *Ctx, rule string) {
	c.Rule(rule, "sibling liveness predicates agree: kv.Entry.IsDeletedOrExpired and NoKV.isDeletedOrExpired each test Meta & kv.BitDelete; DBIterator.materialize filters through one of them before it materializes an entry")
	bit := bitDelete(c)
	n := 0
	// (lsm.IsDeletedOrExpired only feeds the compaction's stale-size accounting; both of its
	// outcomes keep the entry, so it is not a read-path predicate and is left out)
	for _, spec := range [][2]string{{"kv", "Entry.IsDeletedOrExpired"}, {"", "isDeletedOrExpired"}} {
		fn := c.FnOpt(spec[0], spec[1])
		if fn == nil {
			continue
		}
		n++
		has := false
		AllInstrs(fn, false, func(in ssa.Instruction) {
			if bo, ok := in.(*ssa.BinOp); ok && bo.Op == token.AND {
				if k, ok := ConstInt(bo.Y); ok && k == bit {
					has = true
				}
				if k, ok := ConstInt(bo.X); ok && k == bit {
					has = true
				}
			}
		})
		c.Decide(has, rule, key(fn, "tests:Meta&BitDelete"), fn.Pos(), 1, "the delete bit marks a tombstone", FuncName(fn)+" does not test the delete bit: a tombstone decoded from a memtable or SST (empty, non-nil value) passes as a live entry, so scans yield deleted keys that point reads report as not found")
	}
	c.Floor(rule, n, 2, "liveness predicates")
	if fn := c.Fn("", "DBIterator.materialize"); fn != nil {
		pr := Calls(fn, false, Named("kv.(*Entry).IsDeletedOrExpired", "NoKV.isDeletedOrExpired"))
		c.Decide(len(pr) >= 1, rule, key(fn, "filters-deleted"), fn.Pos(), len(pr)+1, "materialize filters deleted/expired entries", "DBIterator.materialize no longer filters deleted/expired entries")
	}
}

// iteratorBuffersGroup: iterator scratch buffers that are appended into (buf = append(buf[:0], …))
// must never alias memory owned by a memtable arena or an SST block, i.e. the Value slice of an
// entry handed out by an underlying iterator.
func iteratorBuffersGroup(c *Ctx, rule string) {
	c.Rule(rule, "in the root package's iterators (DBIterator, TxnIterator, Item): a field that is the destination of an in-place append (`f = append(f[:0], …)`) is never assigned the Value slice of a foreign entry (a *kv.Entry parameter or an underlying iterator's item), directly or through another field that holds such an alias")
	type fkey = string
	fieldKey := func(addr ssa.Value) fkey {
		// owner type + field of the innermost field; for a field of an embedded kv.Entry
		// the enclosing owner is part of the key (NoKV.TxnIterator.entry.Value)
		fa, ok := addr.(*ssa.FieldAddr)
		if !ok {
			return ""
		}
		o, f, _ := FieldOf(fa)
		if o == "kv.Entry" {
			if outer, ok := fa.X.(*ssa.FieldAddr); ok {
				oo, of, _ := FieldOf(outer)
				return oo + "." + of + "." + f
			}
			return ""
		}
		return o + "." + f
	}
	var fns []*ssa.Function
	for _, f := range c.P.ModFuncs {
		if FuncPkgPath(f) != Module {
			continue
		}
		n := FuncName(Root(f))
		if strings.Contains(n, "DBIterator") || strings.Contains(n, "TxnIterator") || strings.Contains(n, "NoKV.Item)") {
			fns = append(fns, f)
		}
	}
	// foreign value: load of field Value of a kv.Entry that is a parameter / call result (not a field of the iterator)
	isForeign := func(v ssa.Value) bool {
		u, ok := v.(*ssa.UnOp)
		if !ok || u.Op != token.MUL {
			return false
		}
		fa, ok := u.X.(*ssa.FieldAddr)
		if !ok {
			return false
		}
		o, f, _ := FieldOf(fa)
		if o != "kv.Entry" || f != "Value" {
			return false
		}
		switch fa.X.(type) {
		case *ssa.Parameter, *ssa.Call, *ssa.Extract:
			return true
		}
		return false
	}
	alias := map[fkey]token.Pos{}
	// tainted(f, v): v may be (a re-slice of) storage-owned memory.  A load of a field is
	// resolved through the closest dominating store to that field in the same function; only
	// when there is none does the field's global may-alias fact apply.
	var tainted func(f *ssa.Function, v ssa.Value, depth int) bool
	tainted = func(f *ssa.Function, v ssa.Value, depth int) bool {
		if depth > 6 {
			return false
		}
		if isForeign(v) {
			return true
		}
		switch x := v.(type) {
		case *ssa.Slice:
			return tainted(f, x.X, depth+1)
		case *ssa.Call:
			if bi, ok := x.Call.Value.(*ssa.Builtin); ok && bi.Name() == "append" {
				return tainted(f, x.Call.Args[0], depth+1)
			}
		case *ssa.Phi:
			for _, e := range x.Edges {
				if tainted(f, e, depth+1) {
					return true
				}
			}
		case *ssa.UnOp:
			if x.Op != token.MUL {
				return false
			}
			k := fieldKey(x.X)
			if k == "" {
				return false
			}
			var closest *ssa.Store
			AllInstrs(f, false, func(in ssa.Instruction) {
				st, ok := in.(*ssa.Store)
				if !ok || fieldKey(st.Addr) != k || !Dominates(st, x) {
					return
				}
				if closest == nil || Dominates(closest, st) {
					closest = st
				}
			})
			if closest != nil {
				return tainted(f, closest.Val, depth+1)
			}
			_, g := alias[k]
			return g
		}
		return false
	}
	changed := true
	for changed {
		changed = false
		for _, f := range fns {
			AllInstrs(f, false, func(in ssa.Instruction) {
				st, ok := in.(*ssa.Store)
				if !ok {
					return
				}
				k := fieldKey(st.Addr)
				if k == "" {
					return
				}
				if _, done := alias[k]; done {
					return
				}
				if tainted(f, st.Val, 0) {
					alias[k] = st.Pos()
					changed = true
				}
			})
		}
	}
	sinks := 0
	for _, f := range fns {
		AllInstrs(f, false, func(in ssa.Instruction) {
			call, ok := in.(*ssa.Call)
			if !ok {
				return
			}
			bi, ok := call.Call.Value.(*ssa.Builtin)
			if !ok || bi.Name() != "append" {
				return
			}
			sl, ok := call.Call.Args[0].(*ssa.Slice)
			if !ok {
				return
			}
			if h, ok := ConstInt(sl.High); !ok || h != 0 {
				return
			}
			u, ok := sl.X.(*ssa.UnOp)
			if !ok || u.Op != token.MUL {
				return
			}
			k := fieldKey(u.X)
			if k == "" {
				return
			}
			sinks++
			bad := tainted(f, u, 0)
			pos := alias[k]
			c.Decide(!bad, rule, key(f, fmt.Sprintf("append-into:%s@%d", k, ordinalIn(f, call))), call.Pos(), len(alias)+1, "the buffer appended into is owned by the iterator", fmt.Sprintf("`%s` is appended into in place, but it can alias the Value of an entry owned by a memtable arena or SST block (assigned at %s): the append overwrites stored entries (keys change under the scan, value pointers become garbage)", k, c.P.Pos(pos)))
		})
	}
	c.Floor(rule, sinks, 3, "in-place append sites in the iterators")
}

// concatPinGroup: a ConcatIterator references the tables it may visit for its whole lifetime.
func concatPinGroup(c *Ctx, rule string) {
	c.Rule(rule, "lsm.NewConcatIterator takes a reference (table.IncrRef) on every table it is given, in a loop over its own copy of the slice, and ConcatIterator.Close releases them (table.DecrRef / decrRefs): per-table iterators are opened lazily, so without the reference a compaction that completes in between deletes files the iterator has yet to visit")
	if fn := c.Fn("lsm", "NewConcatIterator"); fn != nil {
		inc := Calls(fn, false, Named("lsm.(*table).IncrRef"))
		inLoop := false
		for _, i := range inc {
			if blockInLoop(i.Block()) {
				inLoop = true
			}
		}
		c.Decide(inLoop, rule, key(fn, "pins-every-table"), fn.Pos(), len(inc)+1, "every table is referenced at creation", "NewConcatIterator does not reference its tables: an iterator created before a compaction finds the level's files deleted and yields nothing for that level")
	}
	if fn := c.Fn("lsm", "ConcatIterator.Close"); fn != nil {
		dec := Calls(fn, false, deepMatcher(Named("lsm.(*table).DecrRef"), Module+"/lsm", 2))
		c.Decide(len(dec) >= 1, rule, key(fn, "releases-tables"), fn.Pos(), len(dec)+1, "references are released on Close", "ConcatIterator.Close does not release the table references taken at creation (tables of closed iterators are never deleted)")
	}
}

// reverseDedupGroup: a reverse scan meets the versions of one user key oldest first (internal
// keys sort user key ascending, version descending), so keeping the first version seen per user
// key — correct for forward scans — returns the OLDEST visible version in reverse.
func reverseDedupGroup(c *Ctx, rule string) {
	c.Rule(rule, "TxnIterator.advance de-duplicates versions by remembering the last user key and skipping later entries with the same user key; in reverse mode that keeps the oldest visible version, so the de-duplication must be direction-aware (look ahead to the last entry of the same user key, or otherwise consult opt.Reverse on the path that records lastKey)")
	fn := c.Fn("", "TxnIterator.advance")
	if fn == nil {
		return
	}
	st := fieldStoresIn(fn, false, "NoKV.TxnIterator", "lastKey")
	aware := false
	for _, b := range fn.Blocks {
		ifi := ifOf(b)
		if ifi == nil {
			continue
		}
		if isFieldLoad(ifi.Cond, "NoKV.IteratorOptions", "Reverse") {
			for _, s := range st {
				if b.Dominates(s.Block()) {
					aware = true
				}
			}
		}
	}
	c.Decide(aware && len(st) > 0, rule, key(fn, "lastKey-dedup#direction-aware"), fn.Pos(), len(st)+1, "version de-duplication depends on the scan direction", "TxnIterator.advance keeps the first version it meets for a user key in both directions: a reverse scan returns the oldest visible version of every key and resurrects keys whose newest version is a tombstone")
}

// orphanSSTGroup: table ids are handed out from one counter seeded with the highest id the
// manifest references, and table creation adopts a file that already exists.  A table file the
// manifest does not reference (crash between table write and manifest edit) must therefore be
// removed, or the counter seeded above it, before ids are handed out again.
func orphanSSTGroup(c *Ctx, rule string) {
	c.Rule(rule, "levelManager.build enumerates the .sst files present in the work directory (utils.LoadIDMap / FS.ReadDir) and removes those the manifest does not reference (FS.Remove behind the failed lookup in the referenced-id set), or seeds maxFID from the ids on disk")
	fn := c.Fn("lsm", "levelManager.build")
	if fn == nil {
		return
	}
	lists := Calls(fn, false, Named("utils.LoadIDMap"))
	lists = append(lists, Calls(fn, false, func(cc *ssa.CallCommon) bool { return cc.IsInvoke() && cc.Method.Name() == "ReadDir" })...)
	rms := Calls(fn, false, func(cc *ssa.CallCommon) bool { return cc.IsInvoke() && cc.Method.Name() == "Remove" })
	guarded := false
	for _, r := range rms {
		// behind the miss edge of a comma-ok map lookup
		for _, b := range fn.Blocks {
			ifi := ifOf(b)
			if ifi == nil {
				continue
			}
			if ex, ok := ifi.Cond.(*ssa.Extract); ok && ex.Index == 1 {
				if lk, ok := ex.Tuple.(*ssa.Lookup); ok && lk.CommaOk && EdgeDominates(b, b.Succs[1], r.Block()) {
					guarded = true
				}
			}
		}
	}
	c.Decide(len(lists) >= 1 && guarded, rule, key(fn, "removes-unreferenced-sst"), fn.Pos(), len(lists)+len(rms)+1, "tables present on disk but absent from the manifest are removed while the levels are rebuilt", "levelManager.build does not look at the .sst files actually present: an orphan left by a crash keeps its id, the id is handed out again, the new table adopts the stale file and part of a later flush is lost")
}

// walBatchAtomicityGroup: C10 demands that no transaction is partially applied after a crash.
// The WAL is replayed record by record, so a request is atomic only if it reaches the WAL as one
// record or is closed by a marker that replay waits for.
func walBatchAtomicityGroup(c *Ctx, rule string) {
	c.Rule(rule, "a write request is one unit in the WAL: memTable.setBatch hands wal.AppendRecords one record per request (not one per entry), or replay (LSM.openMemTable) applies entries only when it meets a batch/commit marker record type")
	sb := c.Fn("lsm", "memTable.setBatch")
	om := c.Fn("lsm", "LSM.openMemTable")
	if sb == nil || om == nil {
		return
	}
	// records built inside a loop over the entries
	perEntry := false
	for _, ci := range Calls(sb, false, Named("kv.EncodeEntry", "kv.EncodeEntryTo", "wal.EncodeRecord")) {
		if blockInLoop(ci.Block()) {
			perEntry = true
		}
	}
	AllInstrs(sb, false, func(in ssa.Instruction) {
		if st, ok := in.(*ssa.Store); ok {
			if ia, ok := st.Addr.(*ssa.IndexAddr); ok && strings.Contains(ia.X.Type().String(), "wal.Record") && blockInLoop(st.Block()) {
				perEntry = true
			}
		}
		if fa, ok := in.(*ssa.FieldAddr); ok {
			if o, f, _ := FieldOf(fa); o == "wal.Record" && f == "Payload" && blockInLoop(fa.Block()) {
				perEntry = true
			}
		}
	})
	// a marker record type consulted by replay
	marker := false
	for _, name := range []string{"RecordTypeBatch", "RecordTypeBatchEnd", "RecordTypeCommit", "RecordTypeTxnEnd"} {
		if c.P.LookupObj("wal", name) != nil {
			marker = true
		}
	}
	c.Decide(!perEntry || marker, rule, key(sb, "request-is-one-wal-unit"), sb.Pos(), 3,
		ifs(marker, "replay waits for a batch marker", "one WAL record per request"),
		"memTable.setBatch appends one WAL record per entry and there is no batch/commit marker record type; openMemTable replays record by record, so a WAL prefix that ends inside a request (memtable rotation in the middle of LSM.SetBatch, or the 256 KiB buffered writer spilling mid-batch) is recovered as a partially applied transaction")
}

// vlogSegmentKnownGroup: recovery (valueLog.reconcileManifest) deletes value-log segments above
// the highest fid the manifest knows.  A segment must therefore be recorded in the manifest
// before a durable WAL record can point into it.
func vlogSegmentKnownGroup(c *Ctx, rule string) {
	c.Rule(rule, "a value-log segment is recorded in the manifest before any WAL record that points into it can become durable: between valueLog.write (which may rotate to a new segment) and applyRequests' WAL append, the commit path logs the new head/segment (LogValueLogHead / LogValueLogUpdate) whenever the file id changed; otherwise reconcileManifest's removal of segments above the highest known fid deletes referenced data")
	cw := commitWorkerBody(c)
	vw := c.Fn("", "valueLog.write")
	if cw == nil || vw == nil {
		return
	}
	logs := deepMatcher(Named("lsm.(*LSM).LogValueLogHead", "lsm.(*LSM).LogValueLogUpdate", "manifest.(*Manager).LogValueLogHead", "manifest.(*Manager).LogValueLogUpdate"), Module, 3)
	inWrite := len(Calls(vw, true, logs)) > 0
	// or in commitWorker between vlog.write and applyRequests
	between := false
	ws := Calls(cw, false, Named("NoKV.(*valueLog).write"))
	as := Calls(cw, false, Named("NoKV.(*DB).applyRequests"))
	for _, l := range Calls(cw, false, logs) {
		if Named("NoKV.(*DB).applyRequests")(l.Common()) {
			continue
		}
		for _, w := range ws {
			for _, a := range as {
				if Dominates(w.(ssa.Instruction), l.(ssa.Instruction)) && Dominates(l.(ssa.Instruction), a.(ssa.Instruction)) {
					between = true
				}
			}
		}
	}
	c.Decide(inWrite || between, rule, key(c.Fn("", "DB.commitWorker"), "segment-logged-before-wal-append"), cw.Pos(), len(ws)+len(as)+1, "a rotated-to segment is in the manifest before the batch's WAL records", "the manifest learns a new value-log segment only in updateHead, after writeToLSM appended (and possibly flushed) WAL records that point into it: a crash in between leaves durable pointers into a segment that reconcileManifest deletes on reopen (key present, value unreadable)")
}

// segmentIDAllocatorGroup: WAL segment ids and memtable/SST ids share one id space.
func segmentIDAllocatorGroup(c *Ctx, rule string) {
	c.Rule(rule, "only one component allocates WAL segment ids: every wal.switchSegmentLocked(id, truncate=true) gets its id from the LSM's file-id counter (NewMemtable → SwitchSegment) or is the initial segment 1; wal.Manager's own size-triggered rotation (ensureCapacity → rotateLocked → activeID+1) must not create ids the LSM will later hand out and truncate")
	rl := c.Fn("wal", "Manager.rotateLocked")
	ec := c.Fn("wal", "Manager.ensureCapacity")
	if rl == nil || ec == nil {
		return
	}
	selfAlloc := false
	for _, s := range Calls(rl, false, Named("wal.(*Manager).switchSegmentLocked")) {
		if bo, ok := s.Common().Args[1].(*ssa.BinOp); ok && bo.Op == token.ADD {
			if k, ok := ConstInt(bo.Y); ok && k == 1 && isFieldLoad(bo.X, "wal.Manager", "activeID") {
				selfAlloc = true
			}
		}
	}
	autoRotate := len(Calls(ec, false, Named("wal.(*Manager).rotateLocked"))) > 0
	// DB.Open sizes the WAL segment from the memtable size?
	sized := false
	if op := c.Fn("", "Open"); op != nil {
		AllInstrs(op, true, func(in ssa.Instruction) {
			if st, ok := in.(*ssa.Store); ok {
				if o, f, ok := FieldOf(st.Addr); ok && o == "wal.Config" && f == "SegmentSize" {
					sized = true
				}
			}
		})
	}
	c.Decide(!(selfAlloc && autoRotate) || sized, rule, key(ec, "single-segment-id-allocator"), ec.Pos(), 3, "the WAL does not allocate ids the LSM will reuse", "wal.Manager rotates on its own to activeID+1 when a segment exceeds its size (64 MiB, never configured by DB.Open) while lsm.NewMemtable allocates the next id from levels.maxFID and opens it with truncate=true: with MemTableSize above the segment size (or raft records sharing the WAL) the memtable's later records land in a segment that the next memtable truncates")
}

// loopOwner: fn if it calls m inside a loop, otherwise the same-package static callee of fn
// (depth 2) that does; fn itself when none is found.
func loopOwner(c *Ctx, fn *ssa.Function, m Matcher) *ssa.Function {
	has := func(f *ssa.Function) bool {
		for _, ci := range Calls(f, false, m) {
			if blockInLoop(ci.Block()) {
				return true
			}
		}
		return false
	}
	if has(fn) {
		return fn
	}
	var found *ssa.Function
	var walk func(f *ssa.Function, d int)
	walk = func(f *ssa.Function, d int) {
		if d <= 0 || found != nil {
			return
		}
		for _, ci := range Calls(f, false, func(cc *ssa.CallCommon) bool { return true }) {
			sf := StaticFn(ci.Common())
			if sf == nil || sf.Blocks == nil || FuncPkgPath(sf) != FuncPkgPath(fn) || sf == f {
				continue
			}
			if has(sf) {
				found = sf
				c.Touch(sf)
				return
			}
			walk(sf, d-1)
		}
	}
	walk(fn, 2)
	if found != nil {
		return found
	}
	return fn
}

// flushNeverSkippedGroup: the manifest log pointer is a high-water mark (recovery drops every
// WAL segment at or below it), so the single flush worker must never go on to a younger
// memtable after a failed flush.
func flushNeverSkippedGroup(c *Ctx, rule string) {
	c.Rule(rule, "in the flush worker started by LSM.startFlushWorkers, the error edge of levelManager.flush never leads back to flushMgr.Next (the next task) except through another call of levelManager.flush for the same memtable (retry loop) or the worker's exit when the LSM is closing")
	fn := c.Fn("lsm", "LSM.startFlushWorkers")
	if fn == nil {
		return
	}
	var flushFns []*ssa.Function
	var collect func(f *ssa.Function)
	collect = func(f *ssa.Function) {
		if len(Calls(f, false, Named("lsm.(*levelManager).flush"))) > 0 {
			flushFns = append(flushFns, f)
		}
		for _, a := range f.AnonFuncs {
			collect(a)
		}
	}
	collect(fn)
	c.Decide(len(flushFns) >= 1, rule, key(fn, "has:levels.flush"), fn.Pos(), 1, "flush call found", "the flush worker no longer calls levelManager.flush")
	for _, f := range flushFns {
		c.Touch(f)
		for i, fl := range Calls(f, false, Named("lsm.(*levelManager).flush")) {
			ev := ErrResult(fl)
			if ev == nil {
				c.Fail(rule, key(f, fmt.Sprintf("flush[%d]#error-examined", i+1)), fl.Pos(), 1, "the error of levelManager.flush is discarded")
				continue
			}
			// on the failure edge every path either reaches this flush call again (retry) or a return
			// that tells the worker to stop (dominated by a load of LSM.closed), never a plain return
			// that lets the worker continue with the next task
			bad := false
			for _, e := range NilEdges(f, FlowSet(ev)) {
				seen := map[*ssa.BasicBlock]bool{}
				var walk func(b *ssa.BasicBlock, closing bool)
				walk = func(b *ssa.BasicBlock, closing bool) {
					if seen[b] || b == fl.Block() {
						return // back at the flush call: a retry
					}
					seen[b] = true
					for _, in := range b.Instrs {
						if ci, ok := in.(ssa.CallInstruction); ok && Named("(*sync/atomic.Bool).Load")(ci.Common()) {
							if o, fld, ok := FieldOf(ci.Common().Args[0]); ok && o == "lsm.LSM" && fld == "closed" {
								closing = true
							}
						}
						if _, ok := in.(*ssa.Return); ok && !closing {
							bad = true
						}
					}
					for _, s := range b.Succs {
						walk(s, closing)
					}
				}
				walk(e.NonNil[1], false)
			}
			c.Decide(!bad, rule, key(f, fmt.Sprintf("flush[%d]#failure-retried-or-worker-stops", i+1)), fl.Pos(), 3, "a failed flush is retried; the worker only gives up when the LSM is closing", "after a failed levelManager.flush the worker returns to take the next task: a younger memtable's flush then advances the manifest log pointer past the unflushed segment, and recovery deletes that WAL segment without replaying it (acknowledged writes lost after a clean restart)")
		}
	}
}

// manifestCreateGroup: createNew truncates MANIFEST-000001; it may only run for a directory
// that has no CURRENT file.
func manifestCreateGroup(c *Ctx, rule string) {
	c.Rule(rule, "manifest.Open calls Manager.createNew (which opens MANIFEST-000001 with O_TRUNC) only on the true edge of errors.Is(err, os.ErrNotExist) for the error of loadCurrent; every other loadCurrent error is returned")
	fn := c.Fn("manifest", "Open")
	if fn == nil {
		return
	}
	for i, cn := range need(c, rule, fn, false, "createNew", Named("manifest.(*Manager).createNew"), 1) {
		guarded := false
		for _, is := range Calls(fn, false, Named("errors.Is")) {
			call, _ := is.(*ssa.Call)
			if call == nil {
				continue
			}
			if u, ok := call.Call.Args[1].(*ssa.UnOp); ok {
				if g, ok := u.X.(*ssa.Global); ok && g.Name() == "ErrNotExist" {
					for _, b := range fn.Blocks {
						ifi := ifOf(b)
						if ifi == nil || !condMentions(ifi.Cond, call, 3) {
							continue
						}
						// createNew must not be reachable from the edge on which errors.Is is false
						falseEdge := b.Succs[1]
						if u2, ok := ifi.Cond.(*ssa.UnOp); ok && u2.Op == token.NOT {
							falseEdge = b.Succs[0]
						}
						if !blockReaches(falseEdge, cn.Block()) && blockReaches(b, cn.Block()) {
							guarded = true
						}
					}
				}
			}
		}
		c.Decide(guarded, rule, key(fn, fmt.Sprintf("createNew[%d]<-ErrNotExist", i+1)), cn.Pos(), 2, "a new manifest is created only for a directory without CURRENT", "manifest.Open creates (truncates) a new manifest on any loadCurrent error: a transient failure to open the existing manifest empties it, every SST becomes unreferenced and is deleted")
	}
}

// vlogRewindGroup: the failure path of valueLog.write rewinds exactly the buckets recorded as
// touched; a bucket must be recorded before its (possibly partially effective) append.
func vlogRewindGroup(c *Ctx, rule string) {
	c.Rule(rule, "valueLog.write records a bucket in `touched` before calling Manager.AppendEntries on it (the map update dominates the call), so the failure path (fail → Manager.Rewind) also rewinds the bucket whose append failed after reserving space")
	fn := c.Fn("", "valueLog.write")
	if fn == nil {
		return
	}
	var marks []ssa.Instruction
	AllInstrs(fn, false, func(in ssa.Instruction) {
		if mu, ok := in.(*ssa.MapUpdate); ok && strings.Contains(mu.Map.Type().String(), "map[uint32]struct{}") {
			marks = append(marks, in)
		}
	})
	for i, ap := range need(c, rule, fn, false, "AppendEntries", Named("vlog.(*Manager).AppendEntries"), 1) {
		ok := false
		for _, m := range marks {
			if Dominates(m, ap.(ssa.Instruction)) {
				ok = true
			}
		}
		c.Decide(ok, rule, key(fn, fmt.Sprintf("AppendEntries[%d]<-touched[bucket]", i+1)), ap.Pos(), len(marks)+1, "the bucket is marked before the append", "the bucket is recorded as touched only after AppendEntries succeeded: a failed append that already reserved space is not rewound, the segment keeps a zero-filled hole, and the next Open truncates every value committed behind it")
	}
	rw := false
	for _, a := range fn.AnonFuncs {
		if len(Calls(a, false, Named("vlog.(*Manager).Rewind"))) > 0 {
			rw = true
		}
	}
	c.Decide(rw, rule, key(fn, "fail→Rewind"), fn.Pos(), 1, "the failure path rewinds touched buckets", "valueLog.write's failure path no longer rewinds the touched buckets")
}

// internalKeysHiddenGroup: keys the engine itself writes into the default column family (the
// value-log discard statistics under "!NoKV!…") are not part of a user's snapshot.
func internalKeysHiddenGroup(c *Ctx, rule string) {
	c.Rule(rule, "TxnIterator.advance skips the engine's own bookkeeping records (the discard-statistics key written by valueLog.flushDiscardStats) unless IteratorOptions.InternalAccess is set, and DBIterator.populate never emits them; the test hides exactly the engine's keys (equality with lfDiscardStatsKey, directly or in a helper) – a test on the whole \"!NoKV!\" prefix also hides live client keys, which Set and Get accept under that prefix – and DBIterator.populate applies utils.Options.Prefix like the transaction iterator does")
	if obj := c.P.LookupObj("", "lfDiscardStatsKey"); obj == nil {
		c.Errorf("UNRESOLVED-ANCHOR NoKV.lfDiscardStatsKey")
		return
	}
	isGlobal := func(v ssa.Value, name string) bool {
		u, ok := Unwrap(v).(*ssa.UnOp)
		if !ok {
			return false
		}
		g, ok := u.X.(*ssa.Global)
		return ok && g.Name() == name
	}
	// kind of a bookkeeping test call: "exact", "prefix" or ""
	var testKind func(call ssa.CallInstruction, depth int) string
	testKind = func(call ssa.CallInstruction, depth int) string {
		cc := call.Common()
		switch {
		case Named("bytes.Equal")(cc) && len(cc.Args) == 2 && (isGlobal(cc.Args[0], "lfDiscardStatsKey") || isGlobal(cc.Args[1], "lfDiscardStatsKey")):
			return "exact"
		case Named("bytes.HasPrefix")(cc) && len(cc.Args) == 2 && !isGlobal(cc.Args[1], "lfDiscardStatsKey") && func() bool {
			u, ok := Unwrap(cc.Args[1]).(*ssa.UnOp)
			if !ok {
				return false
			}
			_, isG := u.X.(*ssa.Global)
			return isG
		}():
			return "prefix"
		}
		if depth > 0 {
			if cal := cc.StaticCallee(); cal != nil && cal.Blocks != nil && cal.Pkg != nil && cal.Pkg.Pkg.Path() == Module && types.Identical(cal.Signature.Results().At(0).Type(), types.Typ[types.Bool]) {
				for _, in := range Calls(cal, false, func(*ssa.CallCommon) bool { return true }) {
					if k := testKind(in, depth-1); k != "" {
						return k
					}
				}
			}
		}
		return ""
	}
	tests := func(fn *ssa.Function) (out []ssa.CallInstruction, kind string) {
		for _, call := range Calls(fn, false, func(cc *ssa.CallCommon) bool { return cc.Signature().Results().Len() == 1 }) {
			if k := testKind(call, 1); k != "" {
				out = append(out, call)
				if kind == "" || k == "prefix" {
					kind = k
				}
			}
		}
		return
	}
	neverEmits := func(pf *ssa.Function, cond ssa.Value, onTrue bool, owner string) bool {
		ok := false
		for e := range boolValueEdges(pf, cond, onTrue) {
			emit := false
			for _, st := range fieldStoresIn(pf, false, owner, "valid") {
				if sv, isSt := st.(*ssa.Store); isSt {
					if k, isC := sv.Val.(*ssa.Const); isC && k.Value != nil && k.Value.String() == "true" {
						if reach, _ := reachFromBlock(pf, e[1], st, instrs(Calls(pf, false, MethodNamed("utils.Iterator", "Next")))); reach {
							emit = true
						}
					}
				}
			}
			if !emit {
				ok = true
			} else {
				return false
			}
		}
		return ok
	}
	const prefixMsg = "the iterator hides every key under the \"!NoKV!\" prefix, not just the engine's own record: Set/Txn.Set accept client keys under that prefix and Get returns them, but scans silently leave them out"
	if fn := c.Fn("", "TxnIterator.advance"); fn != nil {
		ts, kind := tests(fn)
		access := false
		for _, b := range fn.Blocks {
			if ifi := ifOf(b); ifi != nil && condMentionsField(ifi.Cond, "NoKV.IteratorOptions", "InternalAccess", 3) {
				access = true
			}
		}
		c.Decide(len(ts) > 0 && access, rule, key(fn, "skips-internal-prefix-unless-InternalAccess"), fn.Pos(), 2, "internal bookkeeping keys are not yielded to users", "TxnIterator.advance yields keys with the engine's internal prefix: the discard-statistics record written by the engine shows up in user scans")
		c.Decide(kind != "prefix", rule, key(fn, "hides-only-the-engine's-keys"), fn.Pos(), 2, "only the engine's own record is hidden", prefixMsg)
	}
	// the plain DB iterator hides them as well (it has no internal-access mode)
	if pf := c.Fn("", "DBIterator.populate"); pf != nil {
		ts, kind := tests(pf)
		hides := false
		for _, t := range ts {
			if neverEmits(pf, t.Value(), true, "NoKV.DBIterator") {
				hides = true
			}
		}
		c.Decide(hides, rule, key(pf, "skips-internal-prefix"), pf.Pos(), 2, "internal bookkeeping keys are not yielded by the DB iterator", "DBIterator.populate yields keys with the engine's internal prefix: after value-log discard statistics were flushed a full scan shows one key more than the client wrote")
		c.Decide(kind != "prefix", rule, key(pf, "hides-only-the-engine's-keys"), pf.Pos(), 2, "only the engine's own record is hidden", prefixMsg)
		if c.Prop == "C06" {
			// Options.Prefix: a key without the requested prefix is never emitted
			filtered := false
			for _, hp := range Calls(pf, false, Named("bytes.HasPrefix")) {
				if a := hp.Common().Args; len(a) == 2 && isFieldLoad(a[1], "NoKV.DBIterator", "prefix") && neverEmits(pf, hp.Value(), false, "NoKV.DBIterator") {
					filtered = true
				}
			}
			// or through a boolean helper of the iterator that tests the prefix: one of its two
			// answers never reaches the emit
			for _, h := range Calls(pf, false, func(*ssa.CallCommon) bool { return true }) {
				cal := h.Common().StaticCallee()
				if cal == nil || cal.Blocks == nil || cal.Pkg != pf.Pkg || h.Value() == nil || !types.Identical(h.Value().Type(), types.Typ[types.Bool]) {
					continue
				}
				onPrefix := false
				for _, hp := range Calls(cal, false, Named("bytes.HasPrefix")) {
					if a := hp.Common().Args; len(a) == 2 && isFieldLoad(a[1], "NoKV.DBIterator", "prefix") {
						onPrefix = true
					}
				}
				if onPrefix && (neverEmits(pf, h.Value(), true, "NoKV.DBIterator") || neverEmits(pf, h.Value(), false, "NoKV.DBIterator")) {
					filtered = true
				}
			}
			reads := false
			if ni := c.Fn("", "DB.NewIterator"); ni != nil {
				AllInstrs(ni, false, func(in ssa.Instruction) {
					if v, ok := in.(ssa.Value); ok && isFieldLoad(v, "utils.Options", "Prefix") {
						reads = true
					}
				})
			}
			c.Decide(filtered && reads, rule, key(pf, "applies-Options.Prefix"), pf.Pos(), 3, "keys outside the requested prefix are never emitted", "DB.NewIterator ignores utils.Options.Prefix (the transaction iterator honours it): a prefix scan returns every key of the store")
		}
	}
}

// condMentionsField: cond is (a boolean combination containing) a load of owner.field.
func condMentionsField(cond ssa.Value, owner, field string, depth int) bool {
	if isFieldLoad(cond, owner, field) {
		return true
	}
	if depth <= 0 {
		return false
	}
	switch x := cond.(type) {
	case *ssa.UnOp:
		return condMentionsField(x.X, owner, field, depth-1)
	case *ssa.Phi:
		for _, e := range x.Edges {
			if condMentionsField(e, owner, field, depth-1) {
				return true
			}
		}
	case *ssa.BinOp:
		return condMentionsField(x.X, owner, field, depth-1) || condMentionsField(x.Y, owner, field, depth-1)
	}
	return false
}

// reportedVersionGroup: the entry handed to the caller reports the version of the record
// that was found.  A memtable hit keeps the search key (it carries the REQUESTED version)
// and records the found version in Entry.Version; cloneEntry must therefore prefer
// src.Version to the timestamp of src.Key.  Decided by term evaluation: with a found version
// sv > 0 and a key timestamp ts > sv, every path of cloneEntry stores sv into the copy.
func reportedVersionGroup(c *Ctx, rule string) {
	c.Rule(rule, "NoKV.cloneEntry reports the version recorded in src.Version (the record that was found) whenever it is set, never the timestamp of src.Key, which for a memtable hit is the search key; memTable.Get records the version found by the index in Entry.Version")
	if fn := c.Fn("", "cloneEntry"); fn != nil && len(fn.Params) > 0 {
		atom := func(v ssa.Value) string {
			v = Unwrap(v)
			if u, ok := v.(*ssa.UnOp); ok && u.Op == token.MUL {
				if fa, ok := u.X.(*ssa.FieldAddr); ok && fa.X == fn.Params[0] {
					if _, f, _ := FieldOf(fa); f == "Version" {
						return "sv"
					}
				}
			}
			if ex, ok := v.(*ssa.Extract); ok && ex.Index == 2 {
				if call, ok := ex.Tuple.(*ssa.Call); ok && Named("kv.SplitInternalKey")(call.Common()) {
					return "ts"
				}
			}
			if call, ok := v.(*ssa.Call); ok && Named("kv.ParseTs")(call.Common()) {
				return "ts"
			}
			return ""
		}
		env := &TermEnv{Atom: atom, Depth: 1, Facts: []Fact{{"sv", 0, "", 0, 1}, {"ts", 0, "", 0, 1}, {"ts", 0, "sv", 0, 1}}}
		paths, complete := env.StoredOnPaths(fn, func(st *ssa.Store) bool {
			fa, ok := st.Addr.(*ssa.FieldAddr)
			if !ok {
				return false
			}
			if _, isAlloc := fa.X.(*ssa.Alloc); !isAlloc {
				return false
			}
			o, f, _ := FieldOf(fa)
			return o == "kv.Entry" && f == "Version"
		})
		bad, n := "", 0
		for _, p := range paths {
			for _, t := range p {
				n++
				if !(t.Known && t.Atom == "sv" && t.K == 0) && bad == "" {
					bad = t.String()
				}
			}
		}
		switch {
		case !complete:
			c.Fail(rule, key(fn, "Version=src.Version-when-set"), fn.Pos(), 1, "cloneEntry has a loop: the selection cannot be evaluated")
		case n == 0:
			c.Fail(rule, key(fn, "Version=src.Version-when-set"), fn.Pos(), 1, "cloneEntry no longer fills the copy's Version field")
		default:
			c.Decide(bad == "", rule, key(fn, "Version=src.Version-when-set"), fn.Pos(), env.Visited, fmt.Sprintf("with a found version set, every path stores it (%d stores on %d paths evaluated)", n, len(paths)),
				"with src.Version set (found version sv) and a key timestamp ts > sv, cloneEntry reports "+bad+": a memtable hit is reported with the requested version and the same entry with its real version once flushed")
		}
	}
	if fn := c.Fn("lsm", "memTable.Get"); fn != nil {
		ok := false
		for _, st := range fieldStoresIn(fn, false, "kv.Entry", "Version") {
			if s, isSt := st.(*ssa.Store); isSt {
				if _, f, isF := FieldOf(Unwrap(s.Val)); isF && f == "Version" {
					ok = true
				}
			}
		}
		c.Decide(ok, rule, key(fn, "records:found-version"), fn.Pos(), 1, "the version found by the index is recorded in the entry", "memTable.Get no longer records the version found by the index in Entry.Version")
	}
}

// manifestAppendRollbackGroup: an edit batch whose append or sync fails is reported as failed and
// is not applied to the in-memory version, so nothing of it may stay in the manifest file: a
// complete record would be replayed by the next Open, a torn one swallows every edit appended
// after it.  From the failure edge of the manifest Write and of the Sync in logEditsLocked,
// every path to a return passes a Truncate of the manifest (directly or in a helper).
func manifestAppendRollbackGroup(c *Ctx, rule string) {
	c.Rule(rule, "manifest.Manager.logEditsLocked: the failure edges of the manifest append (Write) and of its Sync reach a return only through a Truncate of the manifest file back to the offset at which the append started (directly or in a helper)")
	fn := c.Fn("manifest", "Manager.logEditsLocked")
	if fn == nil {
		return
	}
	onManifest := func(ci ssa.CallInstruction) bool {
		cc := ci.Common()
		var recv ssa.Value
		if cc.IsInvoke() {
			recv = cc.Value
		} else if len(cc.Args) > 0 {
			recv = cc.Args[0]
		}
		return recv != nil && isFieldLoad(recv, "manifest.Manager", "manifest")
	}
	truncM := Named("(vfs.File).Truncate")
	truncs := effectSites(c, fn, func(ci ssa.CallInstruction) bool { return truncM(ci.Common()) }, 2)
	// the fallible steps that put bytes into the manifest: every call with an error result that is
	// invoked on, or handed, the manifest file (Write, Sync, an encoder streaming into it), other
	// than the positioning calls of the roll-back itself
	var steps []ssa.CallInstruction
	AllInstrs(fn, false, func(in ssa.Instruction) {
		ci, ok := in.(ssa.CallInstruction)
		if !ok || ErrResult(ci) == nil {
			return
		}
		o := CalleeObj(ci.Common())
		if o == nil {
			return
		}
		switch o.Name() {
		case "Seek", "Truncate", "Stat", "Close":
			return
		}
		touches := onManifest(ci)
		for _, a := range ci.Common().Args {
			if isFieldLoad(a, "manifest.Manager", "manifest") {
				touches = true
			}
			if mi, isMI := a.(*ssa.MakeInterface); isMI && isFieldLoad(mi.X, "manifest.Manager", "manifest") {
				touches = true
			}
		}
		if touches {
			steps = append(steps, ci)
		}
	})
	if len(steps) < 1 {
		c.Fail(rule, key(fn, "has:manifest-append+sync"), fn.Pos(), len(steps)+1, "no fallible write of the manifest file found in logEditsLocked")
		return
	}
	for i, st := range steps {
		name := CalleeObj(st.Common()).Name()
		k := key(fn, fmt.Sprintf("%s[%d]#failure→Truncate→return", name, i+1))
		ev := ErrResult(st)
		if ev == nil {
			c.Fail(rule, k, st.Pos(), 1, "the error of the manifest %s is discarded", name)
			continue
		}
		bad, n := false, 0
		edges := NilEdges(fn, FlowSet(ev))
		for _, e := range edges {
			blk := e.NonNil[1]
			if len(blk.Instrs) == 0 {
				continue
			}
			for _, r := range Returns(fn) {
				reach, m := reachFromBlock(fn, blk, r, instrs(truncs))
				n += m
				if reach {
					bad = true
				}
			}
		}
		if len(edges) == 0 {
			c.Fail(rule, k, st.Pos(), 1, "the error of the manifest %s is never tested", name)
			continue
		}
		c.Decide(!bad, rule, k, st.Pos(), n+len(truncs), "a failed "+name+" cuts the manifest back before the error is returned",
			"a failed manifest "+name+" returns the error (the edits are not applied in memory) but leaves the appended bytes in the file: a complete record is replayed by the next Open although it was reported as failed, a torn one swallows every later edit – after a failed compaction edit the next restart deletes the old tables as unreferenced and the new ones are already gone")
	}
}

// snapshotLosslessGroup: a manifest rewrite replaces the edit history by a snapshot of the
// in-memory version, so the records the snapshot writes for a ValueLogs entry must carry every
// field of ValueLogMeta: an edit type whose encoding (writeEdit's case for it) leaves a field
// out lets that field change on reload.
func snapshotLosslessGroup(c *Ctx, rule string) {
	c.Rule(rule, "manifest writeSnapshot: every edit written for an entry of Version.ValueLogs uses an edit type whose writeEdit case encodes all fields of ValueLogMeta (Bucket, FileID, Offset, Valid)")
	ws := c.FnOpt("manifest", "Manager.writeSnapshot")
	if ws == nil {
		ws = c.Fn("manifest", "writeSnapshot")
	}
	we := c.Fn("manifest", "writeEdit")
	if ws == nil || we == nil {
		return
	}
	consts := enumConsts(c, "manifest", "EditType")
	nameOf := map[int64]string{}
	for n, v := range consts {
		nameOf[v] = n
	}
	// fields of ValueLogMeta read under writeEdit's case for type t
	encoded := func(t int64) map[string]bool {
		out := map[string]bool{}
		for _, b := range we.Blocks {
			ifi := ifOf(b)
			if ifi == nil {
				continue
			}
			bo, ok := ifi.Cond.(*ssa.BinOp)
			if !ok || bo.Op != token.EQL {
				continue
			}
			k, ok := bo.Y.(*ssa.Const)
			if !ok || k.Value == nil || TypeName(bo.X.Type()) != "manifest.EditType" {
				continue
			}
			if v, ok := constant.Int64Val(constant.ToInt(k.Value)); !ok || v != t {
				continue
			}
			for _, d := range we.Blocks {
				if !EdgeDominates(b, b.Succs[0], d) {
					continue
				}
				for _, in := range d.Instrs {
					if v, ok := in.(ssa.Value); ok {
						if o, f, ok := FieldOf(v); ok && o == "manifest.ValueLogMeta" {
							out[f] = true
						}
					}
				}
			}
		}
		return out
	}
	var fromValueLogs func(v ssa.Value, depth int) bool
	fromValueLogs = func(v ssa.Value, depth int) bool {
		if depth <= 0 || v == nil {
			return false
		}
		switch x := v.(type) {
		case *ssa.Lookup:
			return isFieldLoad(x.X, "manifest.Version", "ValueLogs") || fromValueLogs(x.X, depth-1)
		case *ssa.Extract:
			return fromValueLogs(x.Tuple, depth-1)
		case *ssa.UnOp:
			return fromValueLogs(x.X, depth-1)
		case *ssa.FieldAddr:
			_, f, _ := FieldOf(x)
			return f == "ValueLogs"
		case *ssa.Phi:
			for _, e := range x.Edges {
				if fromValueLogs(e, depth-1) {
					return true
				}
			}
		case *ssa.Alloc:
			if x.Referrers() != nil {
				for _, r := range *x.Referrers() {
					if st, ok := r.(*ssa.Store); ok && st.Addr == x && fromValueLogs(st.Val, depth-1) {
						return true
					}
				}
			}
		}
		return false
	}
	var typeConsts func(v ssa.Value, depth int) []int64
	typeConsts = func(v ssa.Value, depth int) []int64 {
		if depth <= 0 {
			return nil
		}
		switch x := v.(type) {
		case *ssa.Const:
			if x.Value != nil {
				if k, ok := constant.Int64Val(constant.ToInt(x.Value)); ok {
					return []int64{k}
				}
			}
		case *ssa.Phi:
			var out []int64
			for _, e := range x.Edges {
				out = append(out, typeConsts(e, depth-1)...)
			}
			return out
		case *ssa.Convert:
			return typeConsts(x.X, depth-1)
		}
		return nil
	}
	n := 0
	AllInstrs(ws, false, func(in ssa.Instruction) {
		a, ok := in.(*ssa.Alloc)
		if !ok {
			return
		}
		if pt, isP := a.Type().Underlying().(*types.Pointer); !isP || TypeName(pt.Elem()) != "manifest.Edit" {
			return
		}
		var types_ []int64
		payload := false
		for _, r := range *a.Referrers() {
			fa, ok := r.(*ssa.FieldAddr)
			if !ok || fa.Referrers() == nil {
				continue
			}
			_, f, _ := FieldOf(fa)
			for _, rr := range *fa.Referrers() {
				st, ok := rr.(*ssa.Store)
				if !ok || st.Addr != fa {
					continue
				}
				switch f {
				case "Type":
					types_ = append(types_, typeConsts(st.Val, 3)...)
				case "ValueLog":
					if fromValueLogs(st.Val, 6) {
						payload = true
					}
				}
			}
		}
		if !payload {
			return
		}
		for _, t := range types_ {
			n++
			enc := encoded(t)
			var missing []string
			for _, f := range []string{"Bucket", "FileID", "Offset", "Valid"} {
				if !enc[f] {
					missing = append(missing, f)
				}
			}
			c.Decide(len(missing) == 0, rule, key(ws, "ValueLogs-entry→"+nameOf[t]), a.Pos(), len(enc)+1, nameOf[t]+" carries every field of the entry",
				fmt.Sprintf("the snapshot writes a ValueLogs entry as %s, whose record does not carry %v: after a rewrite the reloaded entry differs from the in-memory one (an invalidated segment loses its offset)", nameOf[t], missing))
		}
	})
	if n == 0 {
		c.Fail(rule, key(ws, "has:ValueLogs-edits"), ws.Pos(), 1, "no edit built from Version.ValueLogs found in writeSnapshot")
	}
}

// manifestOpenersVerifyGroup: Manager.replay treats the io.ErrUnexpectedEOF of a record that was
// being appended when the process died as fatal; only manifest.Verify cuts such a torn tail.
// Every opener of a manifest directory therefore has to run Verify first (in the same function,
// or – for the engine – in DB.runRecoveryChecks, which NoKV.Open runs before lsm.NewLSM).
func manifestOpenersVerifyGroup(c *Ctx, rule string) {
	c.Rule(rule, "every non-test caller of manifest.Open is preceded by manifest.Verify on the same directory: in the same function, or (lsm.levelManager.loadManifest) by DB.runRecoveryChecks which NoKV.Open runs before lsm.NewLSM; otherwise a crash inside an edit append leaves a directory that caller cannot open")
	openM, verM := Named("manifest.Open"), Named("manifest.Verify")
	n := 0
	for _, f := range c.P.ModFuncs {
		if strings.HasSuffix(FuncPkgPath(f), "/manifest") {
			continue
		}
		opens := Calls(f, false, openM)
		if len(opens) == 0 {
			continue
		}
		root := Root(f)
		for i, o := range opens {
			n++
			k := fmt.Sprintf("%s#manifest.Open[%d]<-manifest.Verify", FuncName(root), i+1)
			if ok, m := MustPrecede(f, o.(ssa.Instruction), instrs(Calls(f, false, verM))); ok {
				c.Pass(rule, k, o.Pos(), m, "Verify runs first in the same function")
				continue
			}
			if strings.HasSuffix(FuncPkgPath(f), "/lsm") {
				// the engine: NoKV.Open → runRecoveryChecks (Verify) before NewLSM
				good := false
				if op := c.Fn("", "Open"); op != nil {
					rc := Calls(op, false, Named("NoKV.(*DB).runRecoveryChecks"))
					nl := Calls(op, false, Named("lsm.NewLSM"))
					if len(rc) > 0 && len(nl) > 0 {
						pre, _ := MustPrecede(op, nl[0].(ssa.Instruction), instrs(rc))
						if rcf := c.Fn("", "DB.runRecoveryChecks"); rcf != nil && pre && len(Calls(rcf, false, verM)) > 0 {
							good = true
						}
					}
				}
				c.Decide(good, rule, k, o.Pos(), 3, "the engine verifies the manifest (runRecoveryChecks) before NewLSM opens it", "the engine opens its manifest without a preceding manifest.Verify")
				continue
			}
			c.Fail(rule, k, o.Pos(), 2, "%s opens a manifest directory without running manifest.Verify first: a record torn by a crash makes manifest.Open fail with unexpected EOF instead of opening to the acknowledged prefix", FuncName(root))
		}
	}
	c.Floor(rule, n, 3, "callers of manifest.Open")
}

// gcDeciderOf finds the per-record callback of value-log GC: the function that calls
// kv.DiscardEntry (and, when needDecode, decodes the live pointer) among rewrite's closures,
// its same-package callees and the functions or bound methods it passes around as values.
func gcDeciderOf(rw *ssa.Function, needDecode bool) *ssa.Function {
	ok := func(f *ssa.Function) bool {
		if f == nil || f.Blocks == nil || len(Calls(f, false, Named("kv.DiscardEntry"))) == 0 {
			return false
		}
		return !needDecode || len(Calls(f, false, Named("kv.(*ValuePtr).Decode"))) > 0
	}
	for _, a := range rw.AnonFuncs {
		if ok(a) {
			return a
		}
	}
	var cands []*ssa.Function
	add := func(f *ssa.Function) {
		if f == nil {
			return
		}
		// a bound-method or thunk wrapper: look at what it calls
		if f.Synthetic != "" {
			AllInstrs(f, false, func(in ssa.Instruction) {
				if ci, isCall := in.(ssa.CallInstruction); isCall {
					if t := StaticFn(ci.Common()); t != nil {
						cands = append(cands, t)
					}
				}
			})
			return
		}
		cands = append(cands, f)
	}
	AllInstrs(rw, true, func(in ssa.Instruction) {
		if ci, isCall := in.(ssa.CallInstruction); isCall {
			add(StaticFn(ci.Common()))
		}
		var ops []*ssa.Value
		for _, op := range in.Operands(ops) {
			if op == nil || *op == nil {
				continue
			}
			switch x := (*op).(type) {
			case *ssa.Function:
				add(x)
			case *ssa.MakeClosure:
				if f, isF := x.Fn.(*ssa.Function); isF {
					add(f)
				}
			}
		}
	})
	for _, f := range cands {
		if FuncPkgPath(f) == FuncPkgPath(rw) && ok(f) {
			return f
		}
	}
	return nil
}

// watermarkHoldGroup: an index can be begun again while it IS the watermark (a reader starting at
// the timestamp every earlier reader has finished with; a reader at 0 on a fresh store).  Such an
// index is pending at doneUntil, not above it, so before the watermark moves from doneUntil to
// doneUntil+1 tryAdvance has to look at the counter of doneUntil as well as that of doneUntil+1,
// and addIndex must count every index (also 0).  Decided on the affine normal form of the slot
// offsets tested on the way to the CompareAndSwap.
func watermarkHoldGroup(c *Ctx, rule string) {
	c.Rule(rule, "utils.WaterMark.tryAdvance reaches the CompareAndSwap that advances doneUntil only behind `slot <= 0` tests of both the next index (doneUntil+1-base) and the watermark's own index (doneUntil-base); addIndex counts every index it is given (no index is silently ignored); the rebuilt window keeps the watermark's own slot (newBase <= doneUntil)")
	fn := c.Fn("utils", "WaterMark.tryAdvance")
	if fn == nil {
		return
	}
	cas := need(c, rule, fn, false, "CompareAndSwapUint64(doneUntil)", Named("sync/atomic.CompareAndSwapUint64"), 1)
	dus := Calls(fn, false, Named("utils.(*WaterMark).DoneUntil"))
	if len(cas) == 0 || len(dus) == 0 {
		return
	}
	du := dus[0].Value()
	offsets := map[int64]bool{}
	for _, ld := range Calls(fn, false, Named("(*sync/atomic.Int32).Load")) {
		ia, ok := ld.Common().Args[0].(*ssa.IndexAddr)
		if !ok || fieldNameOf(ia.X) != "slots" {
			continue
		}
		// the load's result is tested `> 0` and the CAS lies on the not-greater edge
		guards := false
		if ld.Value() != nil && ld.Value().Referrers() != nil {
			for _, r := range *ld.Value().Referrers() {
				bo, ok := r.(*ssa.BinOp)
				if !ok || bo.Referrers() == nil {
					continue
				}
				for _, rr := range *bo.Referrers() {
					ifi, ok := rr.(*ssa.If)
					if !ok {
						continue
					}
					b := ifi.Block()
					// on the edge where the counter is positive the CompareAndSwap is not reachable
					// before the counter is read again (the function returns or starts over)
					for _, cs := range cas {
						for si, succ := range b.Succs {
							pendingEdge := (bo.Op == token.GTR && si == 0) || (bo.Op == token.LEQ && si == 1)
							if !pendingEdge {
								continue
							}
							if reach, _ := reachFromBlock(fn, succ, cs.(ssa.Instruction), []ssa.Instruction{ld.(ssa.Instruction)}); !reach {
								guards = true
							}
						}
					}
				}
			}
		}
		if !guards {
			continue
		}
		af := AffineOf(ia.Index, du)
		if af.Terms[du] != 1 {
			continue
		}
		okShape := true
		for t, k := range af.Terms {
			if t == du {
				continue
			}
			if !(fieldNameOf(t) == "base" && k == -1) {
				okShape = false
			}
		}
		if okShape {
			offsets[af.K] = true
		}
	}
	c.Decide(offsets[1], rule, key(fn, "advance<-slot[doneUntil+1]<=0"), cas[0].Pos(), len(offsets)+1, "the next index must be finished", "tryAdvance advances without testing the counter of doneUntil+1")
	c.Decide(offsets[0], rule, key(fn, "advance<-slot[doneUntil]<=0"), cas[0].Pos(), len(offsets)+1, "an index pending AT the watermark holds it back",
		"tryAdvance tests only the counter of doneUntil+1: an index begun again while it equals doneUntil (a reader starting at the timestamp all earlier readers finished with, or the first reader after reopen) does not hold the watermark back, so cleanupCommittedTransactions prunes conflict records newer than an active transaction's read timestamp and a conflicting commit succeeds (lost update)")
	if ai := c.Fn("utils", "WaterMark.addIndex"); ai != nil {
		// no early return that ignores an index value: every return lies after the slot update or on
		// an out-of-window edge
		ignores := false
		for _, b := range ai.Blocks {
			ifi := ifOf(b)
			if ifi == nil {
				continue
			}
			bo, ok := ifi.Cond.(*ssa.BinOp)
			if !ok || bo.Op != token.EQL {
				continue
			}
			if _, isP := Unwrap(bo.X).(*ssa.Parameter); !isP {
				continue
			}
			if k, isK := ConstInt(bo.Y); isK && k == 0 {
				for _, r := range Returns(ai) {
					if EdgeDominates(b, b.Succs[0], r.Block()) {
						ignores = true
					}
				}
			}
		}
		c.Decide(!ignores, rule, key(ai, "counts-index-0"), ai.Pos(), 1, "index 0 is counted like any other", "addIndex ignores index 0: the first transaction of a fresh store (read timestamp 0) is not registered with the read watermark")
	}
}

// vlogRemovalGroup: two necessary conditions of removing a value-log segment during GC.
// (1) The decision that nothing live is left rests on LSM entries whose WAL records may still be
// buffered: removeValueLogFile makes the WAL durable (wal.Sync()==nil) before it logs the delete
// and removes the file.  (2) An open iterator resolves the value pointers of its snapshot lazily:
// iterator constructors register with valueLog.numActiveIterators, Close unregisters, and the
// last one to go performs the removals rewrite had to postpone (filesToBeDeleted).
func vlogRemovalGroup(c *Ctx, rule string) {
	c.Rule(rule, "valueLog.removeValueLogFile reaches LogValueLogDelete / Manager.Remove only behind wal.Sync()==nil (or without a WAL); DB.NewIterator and Txn.NewIterator increment valueLog.numActiveIterators, DBIterator.Close and TxnIterator.Close decrement it, and the decrementing function removes the postponed segments when the count reaches zero")
	if fn := c.Fn("", "valueLog.removeValueLogFile"); fn != nil {
		syncs := Calls(fn, false, Named("wal.(*Manager).Sync"))
		for i, d := range need(c, rule, fn, false, "LogValueLogDelete", Named("lsm.(*LSM).LogValueLogDelete"), 1) {
			k := key(fn, fmt.Sprintf("LogValueLogDelete[%d]<-ok(wal.Sync)", i+1))
			if len(syncs) == 0 {
				c.Fail(rule, k, d.Pos(), 1, "the segment is logged as deleted and removed without making the WAL durable first: the overwrites and GC re-inserts that made it garbage can still be in the WAL's buffer, and a crash leaves recovered keys pointing into a file that no longer exists (value log file not found)")
				continue
			}
			succOK(c, rule, k, fn, syncs, "wal.Sync", d.(ssa.Instruction), "LogValueLogDelete", nilFieldEdges(fn, "NoKV.DB", "wal"))
		}
	}
	delta := func(want int64) func(ssa.CallInstruction) bool {
		return func(ci ssa.CallInstruction) bool {
			cc := ci.Common()
			if !Named("sync/atomic.AddInt32")(cc) || len(cc.Args) != 2 {
				return false
			}
			o, f, ok := FieldOf(cc.Args[0])
			k, isK := ConstInt(cc.Args[1])
			return ok && o == "NoKV.valueLog" && f == "numActiveIterators" && isK && k == want
		}
	}
	for _, n := range []string{"DB.NewIterator", "Txn.NewIterator"} {
		if fn := c.Fn("", n); fn != nil {
			sites := effectSites(c, fn, delta(1), 2)
			c.Decide(len(sites) >= 1, rule, key(fn, "registers-with:numActiveIterators"), fn.Pos(), len(sites)+1, "an open iterator holds back segment removal", n+" does not register the iterator with valueLog.numActiveIterators: GC removes a segment the iterator's snapshot still points into, and the iterator silently skips those live keys (value log file not found is treated as `skip this key`)")
		}
	}
	for _, n := range []string{"DBIterator.Close", "TxnIterator.Close"} {
		if fn := c.Fn("", n); fn != nil {
			sites := effectSites(c, fn, delta(-1), 2)
			c.Decide(len(sites) >= 1, rule, key(fn, "unregisters-from:numActiveIterators"), fn.Pos(), len(sites)+1, "a closed iterator no longer holds segments back", n+" does not unregister the iterator from valueLog.numActiveIterators")
		}
	}
	// the decrementing function drains the postponed removals
	drains := false
	for _, f := range c.P.ModFuncs {
		if FuncPkgPath(f) != Module {
			continue
		}
		dec := false
		AllInstrs(f, false, func(in ssa.Instruction) {
			if ci, ok := in.(ssa.CallInstruction); ok && delta(-1)(ci) {
				dec = true
			}
		})
		if dec && len(effectSites(c, f, func(ci ssa.CallInstruction) bool { return Named("NoKV.(*valueLog).removeValueLogFile")(ci.Common()) }, 1)) > 0 {
			drains = true
			c.Touch(f)
		}
	}
	c.Decide(drains, rule, "NoKV.valueLog.filesToBeDeleted#drained-by-last-iterator", token.NoPos, 2, "the last iterator to close removes the postponed segments", "no function that decrements numActiveIterators removes the segments queued in filesToBeDeleted: postponed removals never happen (or nothing ever postpones)")
}

// compactionOutcomeGroup (C11 / C09 / C15): two ways a compaction lost data although every step
// "succeeded".  (a) manifest.logEditsLocked must not return an error once the edits are applied
// (callers read an error as `nothing was logged` and delete the tables they registered): every
// return reachable from Manager.apply is the nil constant.  (b) the goroutine that builds an
// output table reports to the throttle with the outcome of lsm.openTable: a function that calls
// openTable never reports Throttle.Done with the constant nil.
func compactionOutcomeGroup(c *Ctx, rule string) {
	c.Rule(rule, "manifest.Manager.logEditsLocked returns the nil constant on every path that has applied the edits (a failed automatic rewrite is not the edit's error); no function that calls lsm.openTable reports utils.Throttle.Done with a constant nil (a table that could not be built fails the compaction)")
	if fn := c.Fn("manifest", "Manager.logEditsLocked"); fn != nil {
		applies := Calls(fn, false, Named("manifest.(*Manager).apply"))
		bad, n := 0, 0
		for _, r := range Returns(fn) {
			reached := false
			for _, a := range applies {
				if rr, _ := CutReach(fn, a.(ssa.Instruction), r, nil, nil); rr {
					reached = true
				}
			}
			if !reached {
				continue
			}
			n++
			if !IsNilConst(RetVal(r, 0)) {
				bad++
			}
		}
		c.Decide(len(applies) > 0 && n > 0 && bad == 0, rule, key(fn, "applied-edits→nil"), fn.Pos(), n+1, "edits that were logged and applied are reported as logged",
			"logEditsLocked can return an error after the edits were made durable and applied (the error of the automatic rewrite): the caller treats the edit as not logged – a compaction deletes the output tables it has just registered, and after a restart the inputs are removed as unreferenced (flushed keys are gone)")
	}
	n := 0
	for _, f := range c.P.ModFuncs {
		if FuncPkgPath(f) != Module+"/lsm" || len(Calls(f, false, Named("lsm.openTable"))) == 0 {
			continue
		}
		for _, d := range Calls(f, false, Named("utils.(*Throttle).Done")) {
			n++
			arg := d.Common().Args[len(d.Common().Args)-1]
			c.Decide(!IsNilConst(arg), rule, FuncName(f)+"#Throttle.Done<-openTable-outcome", d.Pos(), 2, "the builder reports what openTable returned",
				"the table-building goroutine reports success to the throttle unconditionally (Done(nil)) although openTable can fail: compactBuildTables sees no error and runCompactDef replaces the inputs with an incomplete set of outputs – the entries of the table that was not built are lost while the compaction reports DONE")
		}
	}
}

// watermarkSlotExclusionGroup (C05, C32, C37): a Begin/Done updates a slot of the window it
// picked, a rebuild copies the counts of the old window into a new one and publishes it.  When
// the two can overlap, an update that lands on the old window after its slot was copied is lost:
// a lost Done leaves the index pending for ever (every later read timestamp waits for it), a
// lost Begin lets the watermark pass a commit that is still being applied.  The structural
// necessary condition: some lock L of the WaterMark is held (shared suffices) from the point
// where the window is picked to the slot update, and held exclusively where the rebuilt window
// is copied and published.
func watermarkSlotExclusionGroup(c *Ctx, rule string) {
	c.Rule(rule, "every (*atomic.Int32).Add on a slot of a utils.watermarkWindow happens with one lock of the WaterMark held (shared or exclusive) both where the window was obtained and at the update, and WaterMark.rebuildWindowLocked reads the old slots and publishes the rebuilt window (window.Store) with that same lock held exclusively (directly or by every caller): slot updates and window rebuilds cannot overlap")
	isSlotAddr := func(v ssa.Value) (ssa.Value, bool) {
		ia, ok := Unwrap(v).(*ssa.IndexAddr)
		if !ok {
			return nil, false
		}
		if !isFieldLoad(Unwrap(ia.X), "utils.watermarkWindow", "slots") {
			return nil, false
		}
		// the window the slots belong to
		if u, ok := Unwrap(ia.X).(*ssa.UnOp); ok {
			if fa, ok := u.X.(*ssa.FieldAddr); ok {
				return Unwrap(fa.X), true
			}
		}
		return nil, true
	}
	type site struct {
		fn  *ssa.Function
		in  ssa.Instruction
		win ssa.Value
	}
	var adds []site
	for _, f := range c.P.ModFuncs {
		if FuncPkgPath(f) != Module+"/utils" {
			continue
		}
		for _, a := range Calls(f, false, Named("(*sync/atomic.Int32).Add")) {
			if len(a.Common().Args) == 0 {
				continue
			}
			if win, ok := isSlotAddr(a.Common().Args[0]); ok {
				c.Touch(f)
				adds = append(adds, site{f, a.(ssa.Instruction), win})
			}
		}
	}
	c.Floor(rule, len(adds), 1, "slot updates (atomic Add on watermarkWindow.slots)")
	// the lock: held at every update
	var cand map[string]bool
	for _, a := range adds {
		held := map[string]bool{}
		for _, h := range ComputeLockSets(a.fn).HeldAt(a.in) {
			held[strings.TrimSuffix(h, "(r)")] = true
		}
		if cand == nil {
			cand = held
			continue
		}
		for k := range cand {
			if !held[k] {
				delete(cand, k)
			}
		}
	}
	lock := ""
	for k := range cand {
		if strings.Contains(k, "WaterMark.") && (lock == "" || k < lock) {
			lock = k
		}
	}
	for i, a := range adds {
		k := key(a.fn, fmt.Sprintf("slot-update[%d]@window-lock", i+1))
		if lock == "" {
			c.Fail(rule, k, a.in.Pos(), 2, "a window slot is updated without any lock of the WaterMark held: the window was picked earlier and may have been replaced by a rebuild whose copy no longer sees this update (a lost Done blocks every later reader in WaitForMark, a lost Begin lets the watermark pass a commit that is still being applied)")
			continue
		}
		ls := ComputeLockSets(a.fn)
		pickedUnder := true
		if def, ok := a.win.(ssa.Instruction); ok && a.win != nil {
			pickedUnder = ls.Holds(def, lock, true)
		}
		c.Decide(pickedUnder, rule, k, a.in.Pos(), 2, "the window is picked and its slot updated under "+lock, "the slot is updated under "+lock+" but the window was picked before the lock was taken: it may already have been replaced")
	}
	fn := c.Fn("utils", "WaterMark.rebuildWindowLocked")
	if fn == nil || lock == "" {
		return
	}
	ls := ComputeLockSets(fn)
	var pts []ssa.Instruction
	pts = append(pts, instrs(Calls(fn, false, Named("(*sync/atomic.Value).Store")))...)
	for _, l := range Calls(fn, false, Named("(*sync/atomic.Int32).Load")) {
		if len(l.Common().Args) > 0 {
			if _, ok := isSlotAddr(l.Common().Args[0]); ok {
				pts = append(pts, l.(ssa.Instruction))
			}
		}
	}
	c.Floor(rule, len(pts), 2, "old-slot reads and window publication in rebuildWindowLocked")
	callersHold := false
	if ok, n := heldAtEveryCall(c, fn, lock, 3); ok && n > 0 {
		callersHold = true
	}
	for i, p := range pts {
		k := key(fn, fmt.Sprintf("rebuild-step[%d]@%s(exclusive)", i+1, lock))
		c.Decide(callersHold || ls.Holds(p, lock, false), rule, k, p.Pos(), 2, "the copy and the publication exclude slot updates", "the window rebuild reads the old slots / publishes the new window without holding "+lock+" exclusively: a slot update can land on the old window after it was copied")
	}
}

// compactionReservationGroup (C37): compact.State.CompareAndAdd reserves the key ranges of a
// compaction, State.Delete releases them when it is over.  A range that is reserved and never
// released keeps that part of the level "under compaction" for ever: no L0->Lbase compaction is
// scheduled again, the L0 write throttle is never lifted and every write waits in sendToWriteCh.
// Every ingest-buffer compaction is a same-level entry (ThisLevel == NextLevel) with two different
// ranges, so the release has to cover that case as well.  Decided by sign evaluation of both
// functions over (levels equal?, ranges equal?): Delete reaches the release of NextRange exactly
// when CompareAndAdd reaches its reservation (equal level and equal range: either answer is fine,
// the release of ThisRange may drop both copies).
func compactionReservationGroup(c *Ctx, rule string) {
	c.Rule(rule, "lsm/compact.State.Delete calls levelState.remove(entry.NextRange) in every (ThisLevel ? NextLevel) x (NextRange equals ThisRange ?) case with a non-empty NextRange in which State.CompareAndAdd stores entry.NextRange into a level's reserved ranges, and in no case in which it does not (a missing reservation ends in log.Fatal); the case `same level and same range` is free")
	del := c.Fn("lsm/compact", "State.Delete")
	add := c.Fn("lsm/compact", "State.CompareAndAdd")
	if del == nil || add == nil {
		return
	}
	isNextRange := func(v ssa.Value) bool { return isFieldLoad(v, "lsm/compact.StateEntry", "NextRange") }
	isThisRange := func(v ssa.Value) bool { return isFieldLoad(v, "lsm/compact.StateEntry", "ThisRange") }
	role := func(v ssa.Value) string {
		switch {
		case isFieldLoad(v, "lsm/compact.StateEntry", "ThisLevel"):
			return "this"
		case isFieldLoad(v, "lsm/compact.StateEntry", "NextLevel"):
			return "next"
		}
		return ""
	}
	var removes []ssa.Instruction
	for _, r := range Calls(del, false, Named("lsm/compact.(*levelState).remove")) {
		if a := r.Common().Args; len(a) == 2 && isNextRange(a[1]) {
			removes = append(removes, r.(ssa.Instruction))
		}
	}
	var reserves []ssa.Instruction
	AllInstrs(add, false, func(in ssa.Instruction) {
		if st, ok := in.(*ssa.Store); ok && isNextRange(st.Val) {
			reserves = append(reserves, in)
		}
	})
	c.Floor(rule, len(reserves), 1, "reservations of entry.NextRange in CompareAndAdd")
	if len(removes) == 0 {
		c.Fail(rule, key(del, "releases:NextRange"), del.Pos(), 1, "State.Delete never releases entry.NextRange")
		return
	}
	n := 0
	var bad []string
	for _, lvlEq := range []bool{true, false} {
		for _, rngEq := range []bool{true, false} {
			if lvlEq && rngEq {
				continue
			}
			signs := map[string]int{}
			SetSign(signs, "this", "next", map[bool]int{true: 0, false: -1}[lvlEq])
			boolHook := func(v ssa.Value) Tri {
				call, ok := Unwrap(v).(*ssa.Call)
				if !ok {
					return Unknown
				}
				args := call.Call.Args
				switch {
				case Named("lsm/compact.(KeyRange).Equals")(call.Common()) && len(args) == 2 &&
					(isNextRange(args[0]) && isThisRange(args[1]) || isThisRange(args[0]) && isNextRange(args[1])):
					if rngEq {
						return True
					}
					return False
				case Named("lsm/compact.(KeyRange).IsEmpty")(call.Common()) && len(args) == 1 && isNextRange(args[0]):
					return False
				}
				return Unknown
			}
			env := func() *SignEnv { return &SignEnv{Role: role, Signs: signs, Bool: boolHook, Depth: 1} }
			reserved, released := false, false
			for _, r := range reserves {
				if env().Reaches(add, r) {
					reserved = true
				}
			}
			for _, r := range removes {
				if env().Reaches(del, r) {
					released = true
				}
			}
			n += len(reserves) + len(removes)
			desc := fmt.Sprintf("levels %s, ranges %s", map[bool]string{true: "equal", false: "different"}[lvlEq], map[bool]string{true: "equal", false: "different"}[rngEq])
			if reserved && !released {
				bad = append(bad, desc+": CompareAndAdd reserves NextRange but Delete never releases it (that part of the level stays under compaction for ever: L0 cannot drain, the write throttle is never lifted and writes wait in sendToWriteCh)")
			}
			if !reserved && released {
				bad = append(bad, desc+": Delete releases a NextRange that CompareAndAdd did not reserve (keyRange not found: log.Fatal)")
			}
		}
	}
	k := key(del, "releases:NextRange<->reserved-in-CompareAndAdd")
	if len(bad) > 0 {
		c.Fail(rule, k, removes[0].Pos(), n+1, "%s", strings.Join(bad, "; "))
	} else {
		c.Pass(rule, k, removes[0].Pos(), n+1, "release and reservation of NextRange agree in the 3 decided cases")
	}
}

// throttleErrorReportGroup (C37): utils.Throttle collects worker errors in errCh (capacity max)
// and Finish drains it only after wg.Wait().  Do() does not bound the number of workers, so a
// worker that reports its error with a blocking send waits for a reader that only comes after
// the worker itself has finished: with more than max failing workers (subcompact starts one per
// output table; a full disk fails them all) Finish, the compactor and DB.Close never return.
// Necessary condition: every send on errCh is non-blocking (select with default), or the workers
// in flight are bounded by a token channel acquired in Do and released in Done.
func throttleErrorReportGroup(c *Ctx, rule string) {
	c.Rule(rule, "every send on utils.Throttle.errCh is a non-blocking select case (a surplus error is dropped: Finish returns only the first one), unless Throttle.Do blocks on a token channel that Throttle.Done releases (workers in flight bounded by the channel capacity)")
	isErrCh := func(v ssa.Value) bool { return isFieldLoad(v, "utils.Throttle", "errCh") }
	chanField := func(v ssa.Value) string {
		if u, ok := Unwrap(v).(*ssa.UnOp); ok && u.Op == token.MUL {
			if o, f, ok := FieldOf(u.X); ok && o == "utils.Throttle" {
				return f
			}
		}
		return ""
	}
	// bounded in-flight workers: Do sends on a token channel, Done receives from it
	bounded := false
	if do, done := c.FnOpt("utils", "Throttle.Do"), c.FnOpt("utils", "Throttle.Done"); do != nil && done != nil {
		tokens := map[string]bool{}
		AllInstrs(do, false, func(in ssa.Instruction) {
			if sd, ok := in.(*ssa.Send); ok {
				if f := chanField(sd.Chan); f != "" && f != "errCh" {
					tokens[f] = true
				}
			}
		})
		AllInstrs(done, true, func(in ssa.Instruction) {
			if u, ok := in.(*ssa.UnOp); ok && u.Op == token.ARROW && tokens[chanField(u.X)] {
				bounded = true
			}
		})
	}
	n := 0
	for _, f := range c.P.ModFuncs {
		if FuncPkgPath(f) != Module+"/utils" {
			continue
		}
		AllInstrs(f, false, func(in ssa.Instruction) {
			switch x := in.(type) {
			case *ssa.Send:
				if !isErrCh(x.Chan) {
					return
				}
				n++
				c.Touch(f)
				c.Decide(bounded, rule, key(f, fmt.Sprintf("errCh-send[%d]#cannot-block", n)), x.Pos(), 2, "workers in flight are bounded by a token channel, the error channel has room for each", "a worker reports its error with a blocking send on errCh, which Finish drains only after wg.Wait(): with more failing workers than the channel's capacity the send never completes, wg.Done is never reached and Finish / the compactor / DB.Close wait for ever")
			case *ssa.Select:
				for _, st := range x.States {
					if st.Dir == types.SendOnly && isErrCh(st.Chan) {
						n++
						c.Touch(f)
						c.Decide(!x.Blocking || bounded, rule, key(f, fmt.Sprintf("errCh-send[%d]#cannot-block", n)), x.Pos(), 2, "non-blocking report (select with default)", "the select that reports a worker error on errCh has no default case: it blocks once the channel is full")
					}
				}
			}
		})
	}
	c.Floor(rule, n, 1, "sends on Throttle.errCh")
}

// levelReadLockGroup (C37): sync.RWMutex read locks must not be taken recursively: once a writer
// queues between the two RLock calls the second one waits for the writer and the writer for the
// first, and the level is dead for compactors, readers and Close.  compactDef.lockLevels holds the
// read locks of thisLevel and nextLevel, which are the same level for every ingest-buffer and
// max-level compaction.  (a) lockLevels/unlockLevels touch nextLevel's lock only when it is a
// different level (sign evaluation over thisLevel == nextLevel); (b) a function that holds the
// locks through lockLevels calls no levelHandler method on cd.thisLevel / cd.nextLevel that locks
// its receiver again.
func levelReadLockGroup(c *Ctx, rule string) {
	c.Rule(rule, "lsm.compactDef.lockLevels / unlockLevels do not reach the RLock / RUnlock of nextLevel when nextLevel == thisLevel and reach it otherwise; between lockLevels and unlockLevels no method that (R)Locks its levelHandler receiver is called on cd.thisLevel or cd.nextLevel")
	isLevelField := func(v ssa.Value, f string) bool { return isFieldLoad(v, "lsm.compactDef", f) }
	role := func(v ssa.Value) string {
		switch {
		case isLevelField(v, "thisLevel"):
			return "this"
		case isLevelField(v, "nextLevel"):
			return "next"
		}
		return ""
	}
	// receiver level of a (*sync.RWMutex) method call made through the embedded mutex
	lockedLevel := func(ci ssa.CallInstruction) ssa.Value {
		a := ci.Common().Args
		if len(a) == 0 {
			return nil
		}
		if fa, ok := Unwrap(a[0]).(*ssa.FieldAddr); ok {
			return Unwrap(fa.X)
		}
		return nil
	}
	for _, spec := range []struct{ fn, op string }{{"compactDef.lockLevels", "RLock"}, {"compactDef.unlockLevels", "RUnlock"}} {
		fn := c.Fn("lsm", spec.fn)
		if fn == nil {
			continue
		}
		var next []ssa.Instruction
		for _, l := range Calls(fn, false, Named("(*sync.RWMutex)."+spec.op)) {
			if lv := lockedLevel(l); lv != nil && isLevelField(lv, "nextLevel") {
				next = append(next, l.(ssa.Instruction))
			}
		}
		k := key(fn, "nextLevel."+spec.op+"#only-when-a-different-level")
		if len(next) == 0 {
			c.Fail(rule, k, fn.Pos(), 1, "%s no longer takes/releases nextLevel's lock at all", spec.fn)
			continue
		}
		same, diff := false, true
		for _, l := range next {
			eq := map[string]int{}
			SetSign(eq, "this", "next", 0)
			if (&SignEnv{Role: role, Signs: eq, Depth: 1}).Reaches(fn, l) {
				same = true
			}
			ne := map[string]int{}
			SetSign(ne, "this", "next", -1)
			if !(&SignEnv{Role: role, Signs: ne, Depth: 1}).Reaches(fn, l) {
				diff = false
			}
		}
		switch {
		case same:
			c.Fail(rule, k, next[0].Pos(), 3, "%s calls %s on nextLevel also when it is the same level as thisLevel (every ingest-buffer and max-level compaction): the level's RWMutex is read-locked twice by one goroutine, and a writer arriving in between (moveToIngest, replaceIngestTables) deadlocks the level for compactors, readers and Close", spec.fn, spec.op)
		case !diff:
			c.Fail(rule, k, next[0].Pos(), 3, "%s skips nextLevel's lock although it is a different level", spec.fn)
		default:
			c.Pass(rule, k, next[0].Pos(), 3, "nextLevel's lock is touched only when it is a different level")
		}
	}
	ll := c.FnOpt("lsm", "compactDef.lockLevels")
	if ll == nil {
		return
	}
	n := 0
	for _, cs := range c.P.CallersOf(ll) {
		if cs.Site == nil {
			continue
		}
		f := Root(cs.Caller)
		c.Touch(f)
		for _, call := range Calls(f, true, func(*ssa.CallCommon) bool { return true }) {
			cal := call.Common().StaticCallee()
			if cal == nil || cal.Blocks == nil || cal.Signature.Recv() == nil || len(call.Common().Args) == 0 || !strings.HasPrefix(FuncName(cal), "(*lsm.levelHandler).") {
				continue
			}
			recv := Unwrap(call.Common().Args[0])
			if !isLevelField(recv, "thisLevel") && !isLevelField(recv, "nextLevel") {
				continue
			}
			n++
			relock := false
			for _, l := range Calls(cal, false, Named("(*sync.RWMutex).RLock", "(*sync.RWMutex).Lock")) {
				if lv := lockedLevel(l); lv != nil && len(cal.Params) > 0 && lv == cal.Params[0] {
					relock = true
				}
			}
			c.Decide(!relock, rule, key(f, fmt.Sprintf("holds-level-locks#calls:%s", cal.Name())), call.Pos(), 2, "the method does not lock the level again", cal.Name()+" read-locks its level although "+FuncName(f)+" already holds that level's read lock through lockLevels: a recursive RLock deadlocks as soon as a writer queues in between")
		}
	}
	c.Floor(rule, n, 1, "levelHandler method calls on cd.thisLevel/cd.nextLevel under lockLevels")
}

// memTableSizePositiveGroup (C37): the LSM write path (LSM.Set / LSM.SetBatch) rotates the active
// memtable until the write fits `MemTableSize - walSize`.  With MemTableSize <= 0 nothing ever
// fits: the commit worker rotates for ever, the first write never returns and Close waits behind
// it.  Options.MemTableSize <= 0 means "not set" everywhere else, so the value that reaches the
// LSM has to be normalised first: NoKV.Open (or lsm.NewLSM) tests it for <= 0 and replaces it
// by a positive size before the LSM is built.
func memTableSizePositiveGroup(c *Ctx, rule string) {
	c.Rule(rule, "before lsm.NewLSM is called NoKV.Open tests Options.MemTableSize for <= 0 and stores a positive constant in its place on that edge (in the options themselves or in the local handed to lsm.Options.MemTableSize), or lsm.NewLSM does the same with its own options")
	positive := func(v ssa.Value) bool { k, ok := ConstInt(Unwrap(v)); return ok && k > 0 }
	normalises := func(fn *ssa.Function, owner string, before ssa.Instruction) bool {
		for _, b := range fn.Blocks {
			ifi := ifOf(b)
			if ifi == nil {
				continue
			}
			bo, ok := ifi.Cond.(*ssa.BinOp)
			if !ok || !isFieldLoad(bo.X, owner, "MemTableSize") {
				continue
			}
			k, isC := ConstInt(Unwrap(bo.Y))
			if !isC || !(bo.Op == token.LEQ && k == 0 || bo.Op == token.LSS && k == 1) {
				continue
			}
			if before != nil && !b.Dominates(before.Block()) {
				continue
			}
			edge := [2]*ssa.BasicBlock{b, b.Succs[0]}
			// (1) in place: a positive constant stored into the field on the `<= 0` edge
			for _, st := range fieldStoresIn(fn, false, owner, "MemTableSize") {
				if sv, ok := st.(*ssa.Store); ok && positive(sv.Val) && EdgeDominates(edge[0], edge[1], sv.Block()) {
					return true
				}
			}
			// (2) a local: a phi joining the field with a positive constant from that edge,
			// stored into lsm.Options.MemTableSize
			for _, st := range fieldStoresIn(fn, false, "lsm.Options", "MemTableSize") {
				sv, ok := st.(*ssa.Store)
				if !ok {
					continue
				}
				if phi, ok := Unwrap(sv.Val).(*ssa.Phi); ok {
					for i, e := range phi.Edges {
						if positive(e) && (phi.Block().Preds[i] == edge[1] || EdgeDominates(edge[0], edge[1], phi.Block().Preds[i])) {
							return true
						}
					}
				}
			}
		}
		return false
	}
	open := c.Fn("", "Open")
	if open == nil {
		return
	}
	nl := Calls(open, false, Named("lsm.NewLSM"))
	c.Floor(rule, len(nl), 1, "lsm.NewLSM calls in Open")
	ok := false
	for _, call := range nl {
		if normalises(open, "NoKV.Options", call.(ssa.Instruction)) {
			ok = true
		}
		// or in a same-package helper that Open calls on every path to NewLSM
		for _, h := range Calls(open, false, func(*ssa.CallCommon) bool { return true }) {
			cal := h.Common().StaticCallee()
			if cal == nil || cal.Blocks == nil || cal.Pkg != open.Pkg {
				continue
			}
			if pre, _ := MustPrecede(open, call.(ssa.Instruction), []ssa.Instruction{h.(ssa.Instruction)}); pre && normalises(cal, "NoKV.Options", nil) {
				ok = true
			}
		}
	}
	if !ok {
		if nf := c.FnOpt("lsm", "NewLSM"); nf != nil && normalises(nf, "lsm.Options", nil) {
			ok = true
		}
	}
	c.Decide(ok, rule, key(open, "MemTableSize<=0→default-before-NewLSM"), open.Pos(), 3, "an unset memtable size is replaced by a positive one before the LSM is built", "Options.MemTableSize is handed to the LSM as it is: with the zero value (documented as `not set` by every other user of the field) the LSM write path rotates memtables for ever, the first write never returns and Close hangs behind the commit worker")
}

// oracleSeedNoWrapGroup (C04, C12): Open seeds the oracle with lsm.MaxVersion()+1.  Plain
// (non-transactional) writes are stored at the sentinel version MaxUint64, so one plain write
// anywhere in the store makes MaxVersion() the sentinel and the seed wraps to 0: the next commit
// is assigned version 0, below every committed version, and dies in an assertion.  Necessary
// condition: the seed `committed + 1` is not computed when committed is MaxUint64.
func oracleSeedNoWrapGroup(c *Ctx, rule string) {
	c.Rule(rule, "oracle.initCommitState does not reach the store of committed+1 into nextTxnTs when committed == math.MaxUint64 (the version every plain write carries) and reaches it otherwise (order-sign evaluation)")
	fn := c.Fn("", "oracle.initCommitState")
	if fn == nil || len(fn.Params) < 2 {
		return
	}
	committed := fn.Params[1]
	isNext := func(v ssa.Value) bool {
		bo, ok := Unwrap(v).(*ssa.BinOp)
		if !ok || bo.Op != token.ADD {
			return false
		}
		k, ok := ConstInt(bo.Y)
		return ok && k == 1 && Unwrap(bo.X) == committed
	}
	var seeds []ssa.Instruction
	for _, st := range Calls(fn, false, Named("(*sync/atomic.Uint64).Store")) {
		if a := st.Common().Args; len(a) == 2 && isNext(a[1]) {
			seeds = append(seeds, st.(ssa.Instruction))
		}
	}
	c.Floor(rule, len(seeds), 1, "stores of committed+1 into the timestamp counter")
	role := func(v ssa.Value) string {
		if Unwrap(v) == committed {
			return "committed"
		}
		if k, ok := ConstUint(Unwrap(v)); ok && k == ^uint64(0) {
			return "max"
		}
		if isNext(v) {
			return "next"
		}
		return ""
	}
	scen := func(atMax bool) map[string]int {
		signs := map[string]int{}
		if atMax {
			SetSign(signs, "committed", "max", 0)
			SetSign(signs, "next", "0", 0)
			SetSign(signs, "next", "committed", -1)
		} else {
			SetSign(signs, "committed", "max", -1)
			SetSign(signs, "next", "0", 1)
			SetSign(signs, "next", "committed", 1)
		}
		SetSign(signs, "committed", "0", 1)
		return signs
	}
	wrap, normal := false, true
	for _, sd := range seeds {
		if (&SignEnv{Role: role, Signs: scen(true), Depth: 1}).Reaches(fn, sd) {
			wrap = true
		}
		if !(&SignEnv{Role: role, Signs: scen(false), Depth: 1}).Reaches(fn, sd) {
			normal = false
		}
	}
	k := key(fn, "seed-unreachable-when-recovered-version-is-the-plain-write-sentinel")
	switch {
	case wrap:
		c.Fail(rule, k, fn.Pos(), 2*len(seeds)+1, "the oracle is seeded with committed+1 also when committed is math.MaxUint64, the version of every plain DB.Set: after a reopen nextTxnTs is 0, the next commit gets version 0 (below every committed version) and the process dies in AssertTrue(ts >= lastCleanupTs)")
	case !normal:
		c.Fail(rule, k, fn.Pos(), 2*len(seeds)+1, "the oracle is not seeded although the recovered version is an ordinary one")
	default:
		c.Pass(rule, k, fn.Pos(), 2*len(seeds)+1, "no wrap: the seed is not computed from the sentinel version")
	}
}

// activeSegmentStateGroup (C10, C08): the value-log segment installed as Manager.active is
// appended to and remapped as it grows.  Readers of a *sealed* segment only pin it (no store
// lock), readers of the *active* one take the store's read lock, so a segment that becomes the
// active one while still marked sealed is remapped under its readers.  Typestate condition:
// every function that stores an already existing segment (looked up in Manager.files) into
// Manager.active either created it in the same function (Manager.create), is the constructor
// (Open: populate decides the states), or calls activate() on that very segment.
func activeSegmentStateGroup(c *Ctx, rule string) {
	c.Rule(rule, "every store of an existing segment (a Manager.files lookup) into vlog.Manager.active happens in a function that created the segment (Manager.create), in vlog.Open, or in a function that calls segment.activate() on that segment")
	n := 0
	for _, f := range c.P.ModFuncs {
		if FuncPkgPath(f) != Module+"/vlog" || f.Parent() != nil {
			continue
		}
		stores := fieldStoresIn(f, false, "vlog.Manager", "active")
		for i, st := range stores {
			sv, ok := st.(*ssa.Store)
			if !ok || IsNilConst(sv.Val) {
				continue
			}
			v := Unwrap(sv.Val)
			// looked up in m.files (map lookup, possibly the comma-ok form)
			fromFiles := false
			switch x := v.(type) {
			case *ssa.Lookup:
				fromFiles = isFieldLoad(x.X, "vlog.Manager", "files")
			case *ssa.Extract:
				if lk, ok := x.Tuple.(*ssa.Lookup); ok {
					fromFiles = isFieldLoad(lk.X, "vlog.Manager", "files")
				}
			}
			if !fromFiles {
				continue
			}
			n++
			c.Touch(f)
			k := key(f, fmt.Sprintf("active=files[..][%d]#segment-is-in-active-state", i+1))
			switch {
			case FuncName(f) == "vlog.Open":
				c.Pass(rule, k, st.Pos(), 1, "constructor: populate marks the newest segment active before the manager is shared")
			case len(Calls(f, false, Named("vlog.(*Manager).create"))) > 0:
				c.Pass(rule, k, st.Pos(), 1, "the segment was created in this function (fresh segments are active)")
			default:
				activated := false
				for _, a := range Calls(f, false, Named("vlog.(*segment).activate")) {
					if len(a.Common().Args) == 1 && sameSegment(a.Common().Args[0], v) {
						activated = true
					}
				}
				// or hands the segment to a same-package helper that activates its parameter
				for _, h := range Calls(f, false, func(*ssa.CallCommon) bool { return true }) {
					cal := h.Common().StaticCallee()
					if cal == nil || cal.Blocks == nil || cal.Pkg != f.Pkg {
						continue
					}
					for i, arg := range h.Common().Args {
						if i >= len(cal.Params) || !sameSegment(arg, v) {
							continue
						}
						for _, a := range Calls(cal, false, Named("vlog.(*segment).activate")) {
							if len(a.Common().Args) == 1 && Unwrap(a.Common().Args[0]) == cal.Params[i] {
								activated = true
							}
						}
					}
				}
				c.Decide(activated, rule, k, st.Pos(), 2, "the segment is reactivated before it is appended to", FuncName(f)+" makes an existing (sealed) segment the active one without activate(): its readers only pin it and take no store lock, so the next append grows and remaps the file under a reader that still holds mapped bytes")
			}
		}
	}
	c.Floor(rule, n, 3, "stores of an existing segment into Manager.active")
}

// sameSegment: a and b are the same segment value (directly, or both loaded from Manager.active,
// or a is a phi/alias of b).
func sameSegment(a, b ssa.Value) bool {
	a, b = Unwrap(a), Unwrap(b)
	if a == b {
		return true
	}
	if isFieldLoad(a, "vlog.Manager", "active") {
		return true
	}
	if phi, ok := a.(*ssa.Phi); ok {
		for _, e := range phi.Edges {
			if Unwrap(e) == b || isFieldLoad(e, "vlog.Manager", "active") {
				return true
			}
		}
	}
	return false
}
