package props

import (
	"fmt"
	"go/token"

	"golang.org/x/tools/go/ssa"

	. "nokvsa/core"
)

func init() { register("C28", C28) }

func C28(c *Ctx) {
	c.Note("atomic visibility across regions; lock resolution by readers after a client crash; retries across leader changes; idempotence of re-sent prewrites/commits")
	const r1 = "K1.two-phase-order"
	c.Rule(r1, "Client.TwoPhaseCommit: the primary region's prewrite precedes the secondary prewrites; every prewrite error returns before any commit; every prewrite site precedes every commit site (no path from a commit back to a prewrite); the primary commit precedes the secondary commits and its error returns before them; both secondary loops skip the primary region; the primary key's region must be among the mutation groups")
	fn := c.Fn("raftstore/client", "Client.TwoPhaseCommit")
	if fn == nil {
		return
	}
	pw := need(c, r1, fn, false, "prewriteRegion", Named("raftstore/client.(*Client).prewriteRegion"), 2)
	cm := need(c, r1, fn, false, "commitRegion", Named("raftstore/client.(*Client).commitRegion"), 2)
	if len(pw) < 2 || len(cm) < 2 {
		return
	}
	inLoop := func(ci ssa.CallInstruction) bool { return blockInLoop(ci.Block()) }
	var pwP, pwS, cmP, cmS []ssa.CallInstruction
	for _, p := range pw {
		if inLoop(p) {
			pwS = append(pwS, p)
		} else {
			pwP = append(pwP, p)
		}
	}
	for _, m := range cm {
		if inLoop(m) {
			cmS = append(cmS, m)
		} else {
			cmP = append(cmP, m)
		}
	}
	c.Decide(len(pwP) == 1 && len(pwS) == 1 && len(cmP) == 1 && len(cmS) == 1, r1, key(fn, "shape:primary+loop-per-phase"), fn.Pos(), 4,
		"one primary call and one secondary loop per phase", fmt.Sprintf("unexpected shape: prewrite primary/loop = %d/%d, commit primary/loop = %d/%d", len(pwP), len(pwS), len(cmP), len(cmS)))
	if len(pwP) != 1 || len(pwS) != 1 || len(cmP) != 1 || len(cmS) != 1 {
		return
	}
	// region id of the primary calls is the primary region's id (same value in both phases)
	c.Decide(pwP[0].Common().Args[2] == cmP[0].Common().Args[2], r1, key(fn, "primary-calls#same-region-id"), pwP[0].Pos(), 1, "primary prewrite and primary commit address the same region", "the out-of-loop prewrite and commit address different regions")
	pid := pwP[0].Common().Args[2]
	// (a) primary prewrite success precedes secondary prewrites
	succOK(c, r1, key(fn, "secondary-prewrite<-ok(primary-prewrite)"), fn, pwP, "primary prewrite", pwS[0].(ssa.Instruction), "secondary prewrite")
	// (b) errors returned
	for i, p := range pw {
		errPropagated(c, r1, key(fn, fmt.Sprintf("prewriteRegion[%d]#error-propagated", i+1)), fn, p)
		// failure edge never reaches a commit
		ev := ErrResult(p)
		bad := false
		if ev != nil {
			for _, e := range NilEdges(fn, FlowSet(ev)) {
				for _, m := range cm {
					if blockReaches(e.NonNil[1], m.Block()) {
						bad = true
					}
				}
			}
		}
		c.Decide(ev != nil && !bad, r1, key(fn, fmt.Sprintf("prewriteRegion[%d]#failure-never-commits", i+1)), p.Pos(), 2, "a failed prewrite never leads to a commit", "a commit is reachable after a prewrite failed")
	}
	// (c) phase separation
	for i, m := range cm {
		succOK(c, r1, key(fn, fmt.Sprintf("commitRegion[%d]<-ok(primary-prewrite)", i+1)), fn, pwP, "primary prewrite", m.(ssa.Instruction), "commit")
		for j, p := range pw {
			c.Decide(!blockReaches(m.Block(), p.Block()), r1, key(fn, fmt.Sprintf("no-path:commit[%d]→prewrite[%d]", i+1, j+1)), m.Pos(), 2, "no prewrite after a commit started", "a prewrite is reachable after a commit")
		}
		// the secondary prewrite loop has finished: commit not reachable from inside the loop body without passing the loop exit
		c.Decide(blockReaches(pwS[0].Block(), m.Block()), r1, key(fn, fmt.Sprintf("commit[%d]-after-secondary-prewrite-loop", i+1)), m.Pos(), 1, "commits follow the secondary prewrite loop", "a commit is not ordered after the secondary prewrite loop")
	}
	// (d)
	succOK(c, r1, key(fn, "secondary-commit<-ok(primary-commit)"), fn, cmP, "primary commit", cmS[0].(ssa.Instruction), "secondary commit")
	for i, m := range cm {
		errPropagated(c, r1, key(fn, fmt.Sprintf("commitRegion[%d]#error-propagated", i+1)), fn, m)
	}
	// (e) loops skip primary: an EQL test of the loop's region id against pid whose true edge does not reach the call
	for name, s := range map[string]ssa.CallInstruction{"prewrite": pwS[0], "commit": cmS[0]} {
		skip := false
		for _, b := range fn.Blocks {
			if ifi := ifOf(b); ifi != nil {
				if bo, ok := ifi.Cond.(*ssa.BinOp); ok && bo.Op == token.EQL && (bo.Y == pid || bo.X == pid) && b.Dominates(s.Block()) {
					if !blockReachesAvoiding(b.Succs[0], s.Block(), map[*ssa.BasicBlock]bool{loopHeaderOf(b): true}) {
						skip = true
					}
				}
			}
		}
		c.Decide(skip, r1, key(fn, "secondary-"+name+"-loop#skips-primary"), s.Pos(), 2, "the primary region is not handled twice", "the secondary "+name+" loop no longer skips the primary region")
	}
	// (f) primary group must exist
	g := false
	for _, b := range fn.Blocks {
		if ifi := ifOf(b); ifi != nil && b.Dominates(pwP[0].Block()) {
			if ex, ok := ifi.Cond.(*ssa.Extract); ok {
				if lk, ok := ex.Tuple.(*ssa.Lookup); ok && lk.CommaOk && lk.Index == pid {
					g = true
				}
			}
		}
	}
	c.Decide(g, r1, key(fn, "primary-group-present-guard"), fn.Pos(), 1, "the primary key must belong to one of the mutations' regions", "TwoPhaseCommit no longer requires the primary key's region among the mutation groups")

	const r2 = "K1.region-call-outcome"
	c.Rule(r2, "prewriteRegion returns nil only when the response carries neither a region error nor key errors; commitRegion returns nil only when the response carries neither a region error nor a key error; RPC errors are returned; all prewrites carry the caller's primary and start version, all commits the caller's start and commit versions")
	if f := c.Fn("raftstore/client", "Client.prewriteRegion"); f != nil {
		outcomeGuards(c, r2, f, "(*pb.KvPrewriteResponse).GetRegionError", "(*pb.PrewriteResponse).GetErrors")
		paramFlows(c, r2, f, "pb.PrewriteRequest", map[string]int{"PrimaryLock": 3, "StartVersion": 4, "LockTtl": 5, "Mutations": 6})
	}
	if f := c.Fn("raftstore/client", "Client.commitRegion"); f != nil {
		outcomeGuards(c, r2, f, "(*pb.KvCommitResponse).GetRegionError", "(*pb.CommitResponse).GetError")
		paramFlows(c, r2, f, "pb.CommitRequest", map[string]int{"StartVersion": 4, "CommitVersion": 5})
	}
	// TwoPhaseCommit passes its own parameters through
	p := fn.Params // c, ctx, primary, mutations, startVersion, commitVersion, lockTTL
	if len(p) >= 7 {
		for i, x := range pw {
			a := x.Common().Args
			c.Decide(a[3] == p[2] && a[4] == p[4] && a[5] == p[6], r2, key(fn, fmt.Sprintf("prewriteRegion[%d]#args(primary,startVersion,ttl)", i+1)), x.Pos(), 1, "same primary, start version and TTL in every prewrite", "a prewrite is sent with a different primary / start version / TTL than the caller's")
		}
		for i, x := range cm {
			a := x.Common().Args
			c.Decide(a[4] == p[4] && a[5] == p[5], r2, key(fn, fmt.Sprintf("commitRegion[%d]#args(startVersion,commitVersion)", i+1)), x.Pos(), 1, "same start and commit version in every commit", "a commit is sent with a different start / commit version than the caller's")
		}
	}
}

func loopHeaderOf(b *ssa.BasicBlock) *ssa.BasicBlock {
	// nearest dominator that b can reach back to
	for d := b.Idom(); d != nil; d = d.Idom() {
		if blockReaches(b, d) {
			return d
		}
	}
	return nil
}

// outcomeGuards: every `return nil` of f is preceded by calls to both response accessors.
func outcomeGuards(c *Ctx, rule string, f *ssa.Function, regionErrGetter, keyErrGetter string) {
	re := Calls(f, false, Named(regionErrGetter))
	ke := Calls(f, false, Named(keyErrGetter))
	c.Decide(len(re) >= 1 && len(ke) >= 1, rule, key(f, "has:outcome-accessors"), f.Pos(), 2, "region error and key error are consulted", "the response's region error / key error accessor is no longer consulted")
	n := 0
	for i, r := range Returns(f) {
		if !IsNilConst(RetVal(r, 0)) {
			continue
		}
		n++
		ok1, m1 := MustPrecede(f, r, instrs(re))
		// a nil inner response carries no key errors: its nil edge satisfies the key-error check
		skip := map[[2]*ssa.BasicBlock]bool{}
		for _, gr := range Calls(f, false, func(cc *ssa.CallCommon) bool {
			o := CalleeObj(cc)
			return o != nil && o.Name() == "GetResponse"
		}) {
			for _, e := range NilEdges(f, map[ssa.Value]bool{gr.Value(): true}) {
				skip[e.Nil] = true
			}
		}
		ok2, m2 := MustPrecedeWithSkip(f, r, instrs(ke), skip)
		c.Decide(ok1 && ok2, rule, key(f, fmt.Sprintf("success-return[%d]<-outcome-checks", i+1)), r.Pos(), m1+m2, "success only after both outcome checks", "success is reported without examining the region error and the key error(s)")
		// not reachable from the non-nil edge of the region error
		for _, x := range re {
			bad := false
			for _, e := range NilEdges(f, map[ssa.Value]bool{x.Value(): true}) {
				if blockReachesAvoiding(e.NonNil[1], r.Block(), map[*ssa.BasicBlock]bool{loopHeaderOf(x.Block()): true}) {
					bad = true
				}
			}
			c.Decide(!bad, rule, key(f, fmt.Sprintf("success-return[%d]#not-after-region-error", i+1)), r.Pos(), 2, "a region error leads to retry or failure, never to success in the same attempt", "success is reachable in the attempt that saw a region error")
		}
	}
	c.Decide(n == 1, rule, key(f, "single-success-return"), f.Pos(), n+1, "one success exit", fmt.Sprintf("%d success exits", n))
}

// paramFlows: fields of the request struct literal are initialised from the given parameters.
func paramFlows(c *Ctx, rule string, f *ssa.Function, owner string, want map[string]int) {
	for fld, pi := range want {
		ok := false
		AllInstrs(f, false, func(in ssa.Instruction) {
			st, isSt := in.(*ssa.Store)
			if !isSt {
				return
			}
			o, fl, isF := FieldOf(st.Addr)
			if !isF || o != owner || fl != fld || pi >= len(f.Params) {
				return
			}
			if derivesFromParam(st.Val, f.Params[pi], 5) {
				ok = true
			}
		})
		c.Decide(ok, rule, key(f, owner+"."+fld+"=param"), f.Pos(), 1, fld+" comes from the caller", owner+"."+fld+" is not initialised from the caller's argument")
	}
}

func derivesFromParam(v ssa.Value, p *ssa.Parameter, depth int) bool {
	if v == p {
		return true
	}
	if depth <= 0 {
		return false
	}
	switch x := v.(type) {
	case *ssa.Call:
		for _, a := range x.Call.Args {
			if derivesFromParam(a, p, depth-1) {
				return true
			}
		}
	case *ssa.Slice:
		return derivesFromParam(x.X, p, depth-1)
	case *ssa.Phi:
		for _, e := range x.Edges {
			if derivesFromParam(e, p, depth-1) {
				return true
			}
		}
	case *ssa.Convert:
		return derivesFromParam(x.X, p, depth-1)
	}
	return false
}
