package props

import (
	"fmt"
	"go/token"
	"go/types"

	"golang.org/x/tools/go/ssa"

	. "nokvsa/core"
)

func init() { register("C28", C28) }

func C28(c *Ctx) {
	c.Note("atomic visibility across regions; lock resolution by readers after a client crash; retries across leader changes; idempotence of re-sent prewrites/commits")
	clientOutcomeRules(c, "K1.client-outcome-is-the-transaction's")
	const r1 = "K1.two-phase-order"
	c.Rule(r1, "Client.TwoPhaseCommit: the primary region's prewrite precedes the secondary prewrites; every prewrite error returns before any commit; every prewrite site precedes every commit site (no path from a commit back to a prewrite); the primary commit precedes the secondary commits and its error returns before them; both secondary loops skip the primary region; the primary key's region must be among the mutation groups")
	fn := c.Fn("raftstore/client", "Client.TwoPhaseCommit")
	if fn == nil {
		return
	}
	pw := need(c, r1, fn, false, "prewriteRegion", Named("raftstore/client.(*Client).prewriteRegion"), 1)
	cm := need(c, r1, fn, false, "commitRegion", Named("raftstore/client.(*Client).commitRegion"), 1)
	if len(pw) < 1 || len(cm) < 1 {
		return
	}
	if len(pw) == 1 && len(cm) == 1 && blockInLoop(pw[0].Block()) && blockInLoop(cm[0].Block()) {
		// the other accepted shape: one loop per phase over an ordered slice whose first element is
		// the primary region
		twoPhaseOrderedLoops(c, r1, fn, pw[0], cm[0])
		twoPhaseCallOutcome(c, fn, pw, cm)
		return
	}
	inLoop := func(ci ssa.CallInstruction) bool { return blockInLoop(ci.Block()) }
	var pwP, pwS, cmP, cmS []ssa.CallInstruction
	for _, p := range pw {
		if inLoop(p) {
			pwS = append(pwS, p)
		} else {
			pwP = append(pwP, p)
		}
	}
	for _, m := range cm {
		if inLoop(m) {
			cmS = append(cmS, m)
		} else {
			cmP = append(cmP, m)
		}
	}
	c.Decide(len(pwP) == 1 && len(pwS) == 1 && len(cmP) == 1 && len(cmS) == 1, r1, key(fn, "shape:primary+loop-per-phase"), fn.Pos(), 4,
		"one primary call and one secondary loop per phase", fmt.Sprintf("unexpected shape: prewrite primary/loop = %d/%d, commit primary/loop = %d/%d", len(pwP), len(pwS), len(cmP), len(cmS)))
	if len(pwP) != 1 || len(pwS) != 1 || len(cmP) != 1 || len(cmS) != 1 {
		return
	}
	// region id of the primary calls is the primary region's id (same value in both phases)
	c.Decide(pwP[0].Common().Args[2] == cmP[0].Common().Args[2], r1, key(fn, "primary-calls#same-region-id"), pwP[0].Pos(), 1, "primary prewrite and primary commit address the same region", "the out-of-loop prewrite and commit address different regions")
	pid := pwP[0].Common().Args[2]
	// (a) primary prewrite success precedes secondary prewrites
	succOK(c, r1, key(fn, "secondary-prewrite<-ok(primary-prewrite)"), fn, pwP, "primary prewrite", pwS[0].(ssa.Instruction), "secondary prewrite")
	// (b) errors returned
	for i, p := range pw {
		errPropagated(c, r1, key(fn, fmt.Sprintf("prewriteRegion[%d]#error-propagated", i+1)), fn, p)
		// failure edge never reaches a commit
		ev := ErrResult(p)
		bad := false
		if ev != nil {
			for _, e := range NilEdges(fn, FlowSet(ev)) {
				for _, m := range cm {
					if blockReaches(e.NonNil[1], m.Block()) {
						bad = true
					}
				}
			}
		}
		c.Decide(ev != nil && !bad, r1, key(fn, fmt.Sprintf("prewriteRegion[%d]#failure-never-commits", i+1)), p.Pos(), 2, "a failed prewrite never leads to a commit", "a commit is reachable after a prewrite failed")
	}
	// (c) phase separation
	for i, m := range cm {
		succOK(c, r1, key(fn, fmt.Sprintf("commitRegion[%d]<-ok(primary-prewrite)", i+1)), fn, pwP, "primary prewrite", m.(ssa.Instruction), "commit")
		for j, p := range pw {
			c.Decide(!blockReaches(m.Block(), p.Block()), r1, key(fn, fmt.Sprintf("no-path:commit[%d]→prewrite[%d]", i+1, j+1)), m.Pos(), 2, "no prewrite after a commit started", "a prewrite is reachable after a commit")
		}
		// the secondary prewrite loop has finished: commit not reachable from inside the loop body without passing the loop exit
		c.Decide(blockReaches(pwS[0].Block(), m.Block()), r1, key(fn, fmt.Sprintf("commit[%d]-after-secondary-prewrite-loop", i+1)), m.Pos(), 1, "commits follow the secondary prewrite loop", "a commit is not ordered after the secondary prewrite loop")
	}
	// (d)
	succOK(c, r1, key(fn, "secondary-commit<-ok(primary-commit)"), fn, cmP, "primary commit", cmS[0].(ssa.Instruction), "secondary commit")
	for i, m := range cm {
		errPropagated(c, r1, key(fn, fmt.Sprintf("commitRegion[%d]#error-propagated", i+1)), fn, m)
	}
	// (e) loops skip primary: an EQL test of the loop's region id against pid whose true edge does not reach the call
	// decided by order-sign evaluation: with the loop's region id equal to the primary's the
	// call is unreachable, with a different id it is reachable (any spelling of the skip)
	role := func(v ssa.Value) string {
		v = Unwrap(v)
		if v == pid {
			return "pid"
		}
		if ex, ok := v.(*ssa.Extract); ok && ex.Index == 1 {
			if _, isNext := ex.Tuple.(*ssa.Next); isNext {
				return "rid"
			}
		}
		return ""
	}
	for name, s := range map[string]ssa.CallInstruction{"prewrite": pwS[0], "commit": cmS[0]} {
		eq := &SignEnv{Role: role, Signs: map[string]int{"pid:rid": 0}, Depth: 1}
		ne := &SignEnv{Role: role, Signs: map[string]int{"pid:rid": 1}, Depth: 1}
		skip := !eq.Reaches(fn, s.(ssa.Instruction)) && ne.Reaches(fn, s.(ssa.Instruction))
		c.Decide(skip, r1, key(fn, "secondary-"+name+"-loop#skips-primary"), s.Pos(), eq.Visited+ne.Visited, "the primary region is not handled twice", "the secondary "+name+" loop no longer skips the primary region")
	}
	// (f) primary group must exist
	g := false
	for _, b := range fn.Blocks {
		if ifi := ifOf(b); ifi != nil && b.Dominates(pwP[0].Block()) {
			// `_, ok := grouped[pid]; !ok` or `len(grouped[pid]) == 0`
			if mentionsLookupOf(ifi.Cond, pid, 5) {
				g = true
			}
		}
	}
	c.Decide(g, r1, key(fn, "primary-group-present-guard"), fn.Pos(), 1, "the primary key must belong to one of the mutations' regions", "TwoPhaseCommit no longer requires the primary key's region among the mutation groups")

	twoPhaseCallOutcome(c, fn, pw, cm)
}

// twoPhaseCallOutcome: per-region call outcome and argument pass-through (rule K1.region-call-outcome).
func twoPhaseCallOutcome(c *Ctx, fn *ssa.Function, pw, cm []ssa.CallInstruction) {
	const r2 = "K1.region-call-outcome"
	c.Rule(r2, "prewriteRegion returns nil only when the response carries neither a region error nor key errors; commitRegion returns nil only when the response carries neither a region error nor a key error; RPC errors are returned; all prewrites carry the caller's primary and start version, all commits the caller's start and commit versions")
	if f := c.Fn("raftstore/client", "Client.prewriteRegion"); f != nil {
		outcomeGuards(c, r2, f, "(*pb.KvPrewriteResponse).GetRegionError", "(*pb.PrewriteResponse).GetErrors")
		paramFlows(c, r2, f, "pb.PrewriteRequest", map[string]int{"PrimaryLock": 3, "StartVersion": 4, "LockTtl": 5, "Mutations": 6})
	}
	if f := c.Fn("raftstore/client", "Client.commitRegion"); f != nil {
		outcomeGuards(c, r2, f, "(*pb.KvCommitResponse).GetRegionError", "(*pb.CommitResponse).GetError")
		paramFlows(c, r2, f, "pb.CommitRequest", map[string]int{"StartVersion": 4, "CommitVersion": 5})
	}
	// TwoPhaseCommit passes its own parameters through
	p := fn.Params // c, ctx, primary, mutations, startVersion, commitVersion, lockTTL
	if len(p) >= 7 {
		for i, x := range pw {
			a := x.Common().Args
			c.Decide(a[3] == p[2] && a[4] == p[4] && a[5] == p[6], r2, key(fn, fmt.Sprintf("prewriteRegion[%d]#args(primary,startVersion,ttl)", i+1)), x.Pos(), 1, "same primary, start version and TTL in every prewrite", "a prewrite is sent with a different primary / start version / TTL than the caller's")
		}
		for i, x := range cm {
			a := x.Common().Args
			c.Decide(a[4] == p[4] && a[5] == p[5], r2, key(fn, fmt.Sprintf("commitRegion[%d]#args(startVersion,commitVersion)", i+1)), x.Pos(), 1, "same start and commit version in every commit", "a commit is sent with a different start / commit version than the caller's")
		}
	}
}

// twoPhaseOrderedLoops decides the single-loop-per-phase form of TwoPhaseCommit: both loops range
// over one slice `order` whose first element is the primary region's id and which is not
// reordered as a whole.
func twoPhaseOrderedLoops(c *Ctx, r1 string, fn *ssa.Function, pw, cm ssa.CallInstruction) {
	sliceOf := func(ci ssa.CallInstruction) ssa.Value {
		// region id argument = element loaded from a slice (range loop)
		arg := ci.Common().Args[2]
		if u, ok := arg.(*ssa.UnOp); ok && u.Op == token.MUL {
			if ia, ok := u.X.(*ssa.IndexAddr); ok {
				// a slice variable captured by a closure lives in an alloc: identify it by the alloc
				if ld, ok := ia.X.(*ssa.UnOp); ok && ld.Op == token.MUL {
					if al, ok := ld.X.(*ssa.Alloc); ok {
						return al
					}
				}
				return ia.X
			}
		}
		return nil
	}
	sp, sc := sliceOf(pw), sliceOf(cm)
	same := sp != nil && sc != nil && sameSlice(sp, sc, 4)
	c.Decide(same, r1, key(fn, "both-phases-range-over-one-order"), fn.Pos(), 2, "prewrite and commit loops range over the same ordered slice", "the prewrite and commit loops do not range over one ordered slice of region ids: the primary-first order cannot be established")
	if !same {
		return
	}
	// the slice's lineage: every append that produces it
	lineage := map[ssa.Value]bool{}
	var grow func(v ssa.Value, d int)
	grow = func(v ssa.Value, d int) {
		if v == nil || lineage[v] || d > 8 {
			return
		}
		lineage[v] = true
		switch x := v.(type) {
		case *ssa.Phi:
			for _, e := range x.Edges {
				grow(e, d+1)
			}
		case *ssa.Call:
			if bi, ok := x.Call.Value.(*ssa.Builtin); ok && bi.Name() == "append" {
				grow(x.Call.Args[0], d+1)
			}
		case *ssa.Alloc:
			for _, r := range *x.Referrers() {
				switch y := r.(type) {
				case *ssa.Store:
					if y.Addr == x {
						grow(y.Val, d+1)
					}
				case *ssa.UnOp:
					lineage[y] = true
				}
			}
		case *ssa.UnOp:
			if al, ok := x.X.(*ssa.Alloc); ok && x.Op == token.MUL {
				grow(al, d+1)
			}
		}
	}
	grow(sc, 0)
	// first append: onto the fresh make([]T, 0, n), outside any loop; its value is the primary id
	var firstVal ssa.Value
	firstOK := false
	for v := range lineage {
		call, ok := v.(*ssa.Call)
		if !ok {
			continue
		}
		if _, isMake := call.Call.Args[0].(*ssa.MakeSlice); isMake && !blockInLoop(call.Block()) {
			if sl, ok := call.Call.Args[1].(*ssa.Slice); ok {
				// append(order, x) is compiled as append(order, [x]...): find the stored element
				if al, ok := sl.X.(*ssa.Alloc); ok {
					for _, r := range *al.Referrers() {
						if ia, ok := r.(*ssa.IndexAddr); ok {
							for _, r2 := range *ia.Referrers() {
								if st, ok := r2.(*ssa.Store); ok {
									firstVal = st.Val
									firstOK = true
								}
							}
						}
					}
				}
			}
		}
	}
	// the primary id: result of GetId() on the region looked up for the `primary` parameter
	isPrimaryID := func(v ssa.Value) bool {
		call, ok := v.(*ssa.Call)
		if !ok {
			return false
		}
		o := CalleeObj(call.Common())
		if o == nil || o.Name() != "GetId" {
			return false
		}
		for _, rk := range Calls(fn, false, Named("raftstore/client.(*Client).regionForKey")) {
			if len(fn.Params) > 2 && rk.Common().Args[1] == ssa.Value(fn.Params[2]) {
				// the GetId receiver derives from this lookup's result
				if derivedFrom(call.Call.Args[0], map[ssa.Value]bool{rk.Value(): true}, 8) {
					return true
				}
			}
		}
		return false
	}
	c.Decide(firstOK && isPrimaryID(firstVal), r1, key(fn, "order[0]=primary-region"), fn.Pos(), 3, "the ordered slice starts with the primary region", "the first element of the region order is not the primary key's region: a secondary could be committed before the primary")
	// nothing reorders the whole slice
	reorder := ""
	for _, ci := range Calls(fn, false, func(cc *ssa.CallCommon) bool { return true }) {
		if _, isB := ci.Common().Value.(*ssa.Builtin); isB {
			continue
		}
		for _, a := range ci.Common().Args {
			x := a
			if mi, ok := x.(*ssa.MakeInterface); ok {
				x = mi.X
			}
			if lineage[x] {
				if o := CalleeObj(ci.Common()); o != nil {
					reorder = ObjName(o)
				} else {
					reorder = "dynamic call"
				}
			}
		}
	}
	c.Decide(reorder == "", r1, key(fn, "order#not-reordered"), fn.Pos(), len(lineage)+1, "the region order is only appended to and ranged over (a re-slice order[1:] may be sorted)", "the whole region order is handed to "+reorder+": the primary region does not stay first, so a secondary region can be committed before the primary and survive the primary's rollback")
	// errors propagate, a failed prewrite never reaches a commit, all prewrites precede all commits
	for i, x := range []ssa.CallInstruction{pw, cm} {
		errPropagated(c, r1, key(fn, []string{"prewriteRegion", "commitRegion"}[i]+"[1]#error-propagated"), fn, x)
	}
	if ev := ErrResult(pw); ev != nil {
		bad := false
		for _, e := range NilEdges(fn, FlowSet(ev)) {
			if blockReaches(e.NonNil[1], cm.Block()) {
				bad = true
			}
		}
		c.Decide(!bad, r1, key(fn, "prewriteRegion[1]#failure-never-commits"), pw.Pos(), 2, "a failed prewrite never leads to a commit", "a commit is reachable after a prewrite failed")
	}
	c.Decide(blockReaches(pw.Block(), cm.Block()) && !blockReaches(cm.Block(), pw.Block()), r1, key(fn, "commit-loop-after-prewrite-loop"), cm.Pos(), 2, "every prewrite precedes every commit", "the commit loop is not strictly after the prewrite loop")
}

func loopHeaderOf(b *ssa.BasicBlock) *ssa.BasicBlock {
	// nearest dominator that b can reach back to
	for d := b.Idom(); d != nil; d = d.Idom() {
		if blockReaches(b, d) {
			return d
		}
	}
	return nil
}

// outcomeGuards: every `return nil` of f is preceded by calls to both response accessors.
func outcomeGuards(c *Ctx, rule string, f *ssa.Function, regionErrGetter, keyErrGetter string) {
	re := Calls(f, false, Named(regionErrGetter))
	ke := Calls(f, false, Named(keyErrGetter))
	c.Decide(len(re) >= 1 && len(ke) >= 1, rule, key(f, "has:outcome-accessors"), f.Pos(), 2, "region error and key error are consulted", "the response's region error / key error accessor is no longer consulted")
	n := 0
	for i, r := range Returns(f) {
		if !IsNilConst(RetVal(r, 0)) {
			continue
		}
		n++
		ok1, m1 := MustPrecede(f, r, instrs(re))
		// a nil inner response carries no key errors: its nil edge satisfies the key-error check
		skip := map[[2]*ssa.BasicBlock]bool{}
		for _, gr := range Calls(f, false, func(cc *ssa.CallCommon) bool {
			o := CalleeObj(cc)
			return o != nil && o.Name() == "GetResponse"
		}) {
			for _, e := range NilEdges(f, map[ssa.Value]bool{gr.Value(): true}) {
				skip[e.Nil] = true
			}
		}
		ok2, m2 := MustPrecedeWithSkip(f, r, instrs(ke), skip)
		c.Decide(ok1 && ok2, rule, key(f, fmt.Sprintf("success-return[%d]<-outcome-checks", i+1)), r.Pos(), m1+m2, "success only after both outcome checks", "success is reported without examining the region error and the key error(s)")
		// not reachable from the non-nil edge of the region error
		for _, x := range re {
			bad := false
			for _, e := range NilEdges(f, map[ssa.Value]bool{x.Value(): true}) {
				if blockReachesAvoiding(e.NonNil[1], r.Block(), map[*ssa.BasicBlock]bool{loopHeaderOf(x.Block()): true}) {
					bad = true
				}
			}
			c.Decide(!bad, rule, key(f, fmt.Sprintf("success-return[%d]#not-after-region-error", i+1)), r.Pos(), 2, "a region error leads to retry or failure, never to success in the same attempt", "success is reachable in the attempt that saw a region error")
		}
	}
	c.Decide(n == 1, rule, key(f, "single-success-return"), f.Pos(), n+1, "one success exit", fmt.Sprintf("%d success exits", n))
}

// paramFlows: fields of the request struct literal are initialised from the given parameters.
func paramFlows(c *Ctx, rule string, f *ssa.Function, owner string, want map[string]int) {
	for fld, pi := range want {
		ok := false
		AllInstrs(f, false, func(in ssa.Instruction) {
			st, isSt := in.(*ssa.Store)
			if !isSt {
				return
			}
			o, fl, isF := FieldOf(st.Addr)
			if !isF || o != owner || fl != fld || pi >= len(f.Params) {
				return
			}
			if derivesFromParam(st.Val, f.Params[pi], 5) {
				ok = true
			}
		})
		c.Decide(ok, rule, key(f, owner+"."+fld+"=param"), f.Pos(), 1, fld+" comes from the caller", owner+"."+fld+" is not initialised from the caller's argument")
	}
}

func derivesFromParam(v ssa.Value, p *ssa.Parameter, depth int) bool {
	if v == p {
		return true
	}
	if depth <= 0 {
		return false
	}
	switch x := v.(type) {
	case *ssa.Call:
		for _, a := range x.Call.Args {
			if derivesFromParam(a, p, depth-1) {
				return true
			}
		}
	case *ssa.Slice:
		return derivesFromParam(x.X, p, depth-1)
	case *ssa.Phi:
		for _, e := range x.Edges {
			if derivesFromParam(e, p, depth-1) {
				return true
			}
		}
	case *ssa.Convert:
		return derivesFromParam(x.X, p, depth-1)
	}
	return false
}

// mentionsLookupOf: the condition is computed from a map lookup indexed by idx (its comma-ok
// flag, its value, or the length of its value).
func mentionsLookupOf(v ssa.Value, idx ssa.Value, depth int) bool {
	if depth <= 0 || v == nil {
		return false
	}
	switch x := v.(type) {
	case *ssa.Lookup:
		return x.Index == idx
	case *ssa.Extract:
		return mentionsLookupOf(x.Tuple, idx, depth-1)
	case *ssa.UnOp:
		return mentionsLookupOf(x.X, idx, depth-1)
	case *ssa.BinOp:
		return mentionsLookupOf(x.X, idx, depth-1) || mentionsLookupOf(x.Y, idx, depth-1)
	case *ssa.Call:
		if bi, ok := x.Call.Value.(*ssa.Builtin); ok && bi.Name() == "len" && len(x.Call.Args) == 1 {
			return mentionsLookupOf(x.Call.Args[0], idx, depth-1)
		}
	}
	return false
}

// clientOutcomeRules (C28): three structural necessary conditions of the client's 2PC being
// all-or-nothing to readers.  (a) TwoPhaseCommit requires the primary KEY among the mutations
// (not merely some mutation in the primary's region) before it prewrites.  (b) Client.Scan does
// not pass off a scan that was cut short by a lock as the region's content: the ScanResponse's
// Error is examined before its Kvs are used.  (c) a waiting proposal is completed only by the
// command it proposed: commandPipeline.applyEntries completes waiters through a function that
// compares the applied command's region and proposing peer with the waiter's.
func clientOutcomeRules(c *Ctx, rule string) {
	c.Rule(rule, "Client.TwoPhaseCommit calls mutationHasPrimary (or an equivalent key comparison over the primary region's mutations) before the first prewrite and returns an error when it fails; Client.Scan reads ScanResponse.GetError before ScanResponse.GetKvs on every path; commandPipeline.applyEntries completes waiters only through a function that compares the header's region id and peer id with the waiter's")
	if fn := c.Fn("raftstore/client", "Client.TwoPhaseCommit"); fn != nil {
		var hp []ssa.Value
		for _, h := range Calls(fn, false, Named("raftstore/client.mutationHasPrimary")) {
			hp = append(hp, h.Value())
		}
		hp = append(hp, inlinedKeyMatchFlags(fn)...)
		pw := Calls(fn, false, Named("raftstore/client.(*Client).prewriteRegion"))
		ok := len(hp) > 0 && len(pw) > 0
		for _, p := range pw {
			good := false
			for _, h := range hp {
				for e := range boolValueEdges(fn, h, true) {
					if EdgeDominates(e[0], e[1], p.Block()) {
						good = true
					}
				}
			}
			if !good {
				ok = false
			}
		}
		c.Decide(ok, rule, key(fn, "prewrite<-primary-key-among-mutations"), fn.Pos(), len(hp)+len(pw)+1, "the primary is one of the keys the transaction writes",
			"TwoPhaseCommit prewrites although the primary key itself is not among the mutations (only its region receives some mutation): no lock or commit record ever exists for the primary, so after a lost secondary commit a reader resolves that secondary to rollback while another key of the transaction is committed")
	}
	if fn := c.Fn("raftstore/client", "Client.Scan"); fn != nil {
		kvs := Calls(fn, false, Named("(*pb.ScanResponse).GetKvs"))
		errs := Calls(fn, false, Named("(*pb.ScanResponse).GetError"))
		ok := len(kvs) > 0
		for _, k := range kvs {
			if pre, _ := MustPrecede(fn, k.(ssa.Instruction), instrs(errs)); !pre {
				ok = false
			}
		}
		c.Decide(ok, rule, key(fn, "GetKvs<-GetError"), fn.Pos(), len(kvs)+len(errs)+1, "a scan stopped by a lock is reported, not returned as the region's content",
			"Client.Scan uses the Kvs of a ScanResponse without looking at its Error: a scan cut short by a lock is taken for an exhausted region, and a snapshot read above a transaction's commit version returns the committed primary without the still-locked secondary (half a transaction)")
	}
	if fn := c.Fn("raftstore/store", "commandPipeline.applyEntries"); fn != nil {
		// every completion reachable from applyEntries passes a comparison of region id and peer id
		checks := func(f *ssa.Function) bool {
			region, peer := false, false
			AllInstrs(f, false, func(in ssa.Instruction) {
				bo, ok := in.(*ssa.BinOp)
				if !ok || (bo.Op != token.EQL && bo.Op != token.NEQ) {
					return
				}
				for _, v := range []ssa.Value{bo.X, bo.Y} {
					if call, isCall := Unwrap(v).(*ssa.Call); isCall {
						switch FuncName(StaticFn(call.Common())) {
						case "(*pb.CmdHeader).GetRegionId":
							region = true
						case "(*pb.CmdHeader).GetPeerId":
							peer = true
						}
					}
					if isFieldLoad(v, "pb.CmdHeader", "RegionId") {
						region = true
					}
					if isFieldLoad(v, "pb.CmdHeader", "PeerId") {
						peer = true
					}
				}
			})
			return region && peer
		}
		n, bad := 0, 0
		AllInstrs(fn, false, func(in ssa.Instruction) {
			ci, ok := in.(ssa.CallInstruction)
			if !ok {
				return
			}
			h := StaticFn(ci.Common())
			if h == nil || h.Blocks == nil {
				return
			}
			completes := FuncName(h) == "(*raftstore/store.commandPipeline).completeProposal" || len(Calls(h, false, Named("raftstore/store.(*commandPipeline).completeProposal"))) > 0
			if !completes {
				return
			}
			n++
			if !(checks(h) || checks(fn)) {
				bad++
			}
		})
		c.Decide(n > 0 && bad == 0, rule, key(fn, "waiter-completed-by-its-own-command"), fn.Pos(), n+1, "an applied command completes a waiter only when request id, region and proposing peer match",
			"applyEntries completes the waiter that has the applied command's request id without comparing region and proposing peer: request ids are a per-store counter, so a command of another store (after a leader change) or of another region with the same id acknowledges a proposal that was never applied – with that other command's response")
	}
}

// inlinedKeyMatchFlags: boolean flags of fn that can be true only when a mutation's key compared
// equal to one of fn's []byte parameters (the inlined form of mutationHasPrimary: a loop over the
// mutations that sets `found = true` on the equal edge of bytes.Equal / a three-way compare == 0).
func inlinedKeyMatchFlags(fn *ssa.Function) []ssa.Value {
	isParam := func(v ssa.Value) bool {
		p, ok := Unwrap(v).(*ssa.Parameter)
		return ok && p.Parent() == fn
	}
	isMutKey := func(v ssa.Value) bool {
		call, ok := Unwrap(v).(*ssa.Call)
		return ok && Named("(*pb.Mutation).GetKey")(call.Common())
	}
	pairCall := func(v ssa.Value) (*ssa.Call, bool) {
		call, ok := Unwrap(v).(*ssa.Call)
		if !ok || len(call.Call.Args) != 2 {
			return nil, false
		}
		a, b := call.Call.Args[0], call.Call.Args[1]
		return call, isMutKey(a) && isParam(b) || isMutKey(b) && isParam(a)
	}
	equalEdges := edgeSet{}
	for _, b := range fn.Blocks {
		ifi := ifOf(b)
		if ifi == nil {
			continue
		}
		cond, neg := ifi.Cond, false
		for {
			u, ok := cond.(*ssa.UnOp)
			if !ok || u.Op != token.NOT {
				break
			}
			cond, neg = u.X, !neg
		}
		onTrue, found := false, false
		if call, ok := pairCall(cond); ok && types.Identical(call.Type(), types.Typ[types.Bool]) {
			onTrue, found = true, true
		} else if bo, isBo := cond.(*ssa.BinOp); isBo && (bo.Op == token.EQL || bo.Op == token.NEQ) {
			if k, isC := ConstInt(bo.Y); isC && k == 0 {
				if _, ok := pairCall(bo.X); ok {
					onTrue, found = bo.Op == token.EQL, true
				}
			}
		}
		if !found {
			continue
		}
		if neg {
			onTrue = !onTrue
		}
		if onTrue {
			equalEdges[[2]*ssa.BasicBlock{b, b.Succs[0]}] = true
		} else {
			equalEdges[[2]*ssa.BasicBlock{b, b.Succs[1]}] = true
		}
	}
	if len(equalEdges) == 0 {
		return nil
	}
	behindEqual := func(b *ssa.BasicBlock) bool {
		for e := range equalEdges {
			if EdgeDominates(e[0], e[1], b) {
				return true
			}
		}
		return false
	}
	var out []ssa.Value
	for _, b := range fn.Blocks {
		for _, in := range b.Instrs {
			phi, ok := in.(*ssa.Phi)
			if !ok || !types.Identical(phi.Type(), types.Typ[types.Bool]) {
				continue
			}
			// true only behind an equal edge: every incoming value is false, the flag itself
			// (loop-carried), or true from a block behind an equal edge
			seen := map[*ssa.Phi]bool{}
			sawTrue := false
			var okPhi func(p *ssa.Phi) bool
			okPhi = func(p *ssa.Phi) bool {
				if seen[p] {
					return true
				}
				seen[p] = true
				for i, e := range p.Edges {
					switch x := e.(type) {
					case *ssa.Const:
						if x.Value != nil && x.Value.String() == "true" {
							if !behindEqual(p.Block().Preds[i]) {
								return false
							}
							sawTrue = true
						}
					case *ssa.Phi:
						if !okPhi(x) {
							return false
						}
					default:
						return false
					}
				}
				return true
			}
			if okPhi(phi) && sawTrue {
				out = append(out, phi)
			}
		}
	}
	return out
}
