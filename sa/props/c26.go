package props

import (
	"fmt"
	"go/token"
	"strings"

	"golang.org/x/tools/go/ssa"

	. "nokvsa/core"
)

func init() {
	register("C26", C26)
	register("C27", C27)
}

const pdLock = "pd/core.Cluster.mu"

func C26(c *Ctx) {
	c.Note("lookup correctness on all inputs (binary search over the rebuilt index); reload identity; heartbeats for a region whose own range shrank are accepted without checking the epoch increased strictly")
	const r1 = "K4.catalog-lockset"
	c.Rule(r1, "every access to Cluster.regions / regionIndex / regionLastHB in pd/core holds Cluster.mu (write lock for mutations, read or write lock for reads); *Locked helpers are called only with the write lock held")
	n := 0
	for _, f := range c.P.ModFuncs {
		if FuncPkgPath(f) != Module+"/pd/core" {
			continue
		}
		root := Root(f)
		if root.Name() == "NewCluster" {
			continue
		}
		isLockedHelper := strings.HasSuffix(root.Name(), "Locked")
		var ls *LockSets
		AllInstrs(f, false, func(in ssa.Instruction) {
			fa, ok := in.(*ssa.FieldAddr)
			if !ok {
				return
			}
			o, fl, _ := FieldOf(fa)
			if o != "pd/core.Cluster" || (fl != "regions" && fl != "regionIndex" && fl != "regionLastHB") {
				return
			}
			n++
			// classify read/write by the use of the address
			write := false
			for _, r := range *fa.Referrers() {
				switch x := r.(type) {
				case *ssa.Store:
					if x.Addr == fa {
						write = true
					}
				case *ssa.UnOp:
					for _, rr := range *x.Referrers() {
						switch y := rr.(type) {
						case *ssa.MapUpdate:
							if y.Map == x {
								write = true
							}
						case *ssa.Call:
							if bi, ok := y.Call.Value.(*ssa.Builtin); ok && bi.Name() == "delete" {
								write = true
							}
						}
					}
				}
			}
			k := fmt.Sprintf("%s#%s:%s[%d]", FuncName(f), ifs(write, "write", "read"), fl, ordinalOfFieldAddr(f, fa))
			if isLockedHelper || f.Parent() != nil && strings.HasSuffix(Root(f).Name(), "Locked") {
				c.Pass(r1, k, in.Pos(), 1, "inside a *Locked helper (callers checked)")
				return
			}
			// closures (sort.Search callbacks) run while the parent holds the lock: check at the closure creation site
			if f.Parent() != nil {
				pls := ComputeLockSets(f.Parent())
				held := false
				AllInstrs(f.Parent(), false, func(pi ssa.Instruction) {
					if mc, ok := pi.(*ssa.MakeClosure); ok && mc.Fn == f {
						if pls.Holds(pi, pdLock, !write) {
							held = true
						}
					}
				})
				c.Decide(held, r1, k, in.Pos(), 1, "callback created and run under Cluster.mu", "catalog access in a callback created without Cluster.mu")
				return
			}
			if ls == nil {
				ls = ComputeLockSets(f)
			}
			c.Decide(ls.Holds(in, pdLock, !write), r1, k, in.Pos(), 1, "under Cluster.mu", "PD region catalog "+ifs(write, "written", "read")+" without Cluster.mu "+ifs(write, "(write lock)", ""))
		})
	}
	c.Floor(r1, n, 12, "catalog accesses")
	for _, h := range []string{"Cluster.findOverlapLocked", "Cluster.rebuildRegionIndexLocked"} {
		hf := c.FnOpt("pd/core", h)
		if hf == nil && h == "Cluster.findOverlapLocked" {
			continue // inlined into its caller: the accesses are checked there
		}
		if hf == nil {
			hf = c.Fn("pd/core", h)
		}
		if hf == nil {
			continue
		}
		cnt := 0
		for _, cs := range c.P.CallersOf(hf) {
			if cs.Site == nil {
				continue
			}
			cnt++
			ls := ComputeLockSets(cs.Caller)
			c.Decide(ls.Holds(cs.Site.(ssa.Instruction), pdLock, false), r1, FuncName(cs.Caller)+"#calls:"+h+"@mu", cs.Site.Pos(), 1, "write lock held", h+" called without the write lock")
		}
		c.Floor(r1, cnt, 1, "callers of "+h)
	}

	const r2 = "K1.stale-and-overlap-gate"
	c.Rule(r2, "Cluster.UpsertRegionHeartbeat stores into regions only behind the false edge of isEpochStale(incoming, current) (when the region exists) and the false edge of findOverlapLocked; isEpochStale is (Version <) or (Version == and ConfVersion <); rangesOverlap is the half-open test (end <= other.start ⇒ disjoint, empty end unbounded)")
	if fn := c.Fn("pd/core", "Cluster.UpsertRegionHeartbeat"); fn != nil {
		stores := fieldStoresIn(fn, false, "pd/core.Cluster", "regions")
		c.Decide(len(stores) == 1, r2, key(fn, "single-store"), fn.Pos(), 1, "one insert site", fmt.Sprintf("%d insert sites", len(stores)))
		for i, st := range stores {
			g1, _ := guardedByCall(fn, st, Named("pd/core.isEpochStale"), false)
			// isEpochStale is combined with `exists &&`: the store must not be reachable from the stale==true edge
			if !g1 {
				g1 = notReachableFromTrueEdge(fn, Named("pd/core.isEpochStale"), st)
			}
			c.Decide(g1, r2, key(fn, fmt.Sprintf("insert[%d]<-!isEpochStale", i+1)), st.Pos(), 2, "a stale heartbeat never reaches the insert", "the insert is reachable for an epoch-stale heartbeat")
			g2 := notReachableFromOkEdge(fn, Named("pd/core.(*Cluster).findOverlapLocked"), st)
			if !g2 && len(Calls(fn, false, Named("pd/core.(*Cluster).findOverlapLocked"))) == 0 {
				// the overlap scan inlined: the insert is not reachable from the true edge of rangesOverlap
				g2 = notReachableFromTrueEdge(fn, Named("pd/core.rangesOverlap"), st)
			}
			c.Decide(g2, r2, key(fn, fmt.Sprintf("insert[%d]<-!overlap", i+1)), st.Pos(), 2, "an overlapping heartbeat never reaches the insert", "the insert is reachable for a region that overlaps another known region")
		}
	}
	if fn := c.Fn("pd/core", "isEpochStale"); fn != nil && len(fn.Params) >= 2 {
		// decided by order-sign evaluation over the 9 orderings of (Version, ConfVersion)
		role := func(v ssa.Value) string {
			if p, f, ok := paramField(v); ok {
				who := map[*ssa.Parameter]string{fn.Params[0]: "in", fn.Params[1]: "cur"}[p]
				if who != "" && (f == "Version" || f == "ConfVersion") {
					return who + "." + f
				}
			}
			return ""
		}
		bad := ""
		for _, dv := range []int{-1, 0, 1} {
			for _, dc := range []int{-1, 0, 1} {
				signs := map[string]int{}
				SetSign(signs, "in.Version", "cur.Version", dv)
				SetSign(signs, "in.ConfVersion", "cur.ConfVersion", dc)
				want := dv < 0 || (dv == 0 && dc < 0)
				got := (&SignEnv{Role: role, Signs: signs, Depth: 1}).ReturnValue(fn, 0)
				if (got == True) != want || got == Unknown {
					if bad == "" {
						bad = fmt.Sprintf("Version cmp=%d ConfVersion cmp=%d: answers %s, want %v", dv, dc, triName(got), want)
					}
				}
			}
		}
		c.Decide(bad == "", r2, key(fn, "operators"), fn.Pos(), 10, "stale iff version lower, or equal version and lower conf version (9 orderings evaluated)", "isEpochStale decides wrongly for "+bad)
	}
	if fn := c.Fn("pd/core", "rangesOverlap"); fn != nil && len(fn.Params) >= 2 {
		// decided by order-sign evaluation: overlap iff neither range ends at or before the other's start
		var role func(v ssa.Value) string
		role = func(v ssa.Value) string {
			if call, ok := Unwrap(v).(*ssa.Call); ok {
				if bi, ok := call.Call.Value.(*ssa.Builtin); ok && bi.Name() == "len" && len(call.Call.Args) == 1 {
					if r := role(call.Call.Args[0]); r != "" {
						return "len(" + r + ")"
					}
				}
				return ""
			}
			if p, f, ok := paramField(v); ok {
				who := map[*ssa.Parameter]string{fn.Params[0]: "a", fn.Params[1]: "b"}[p]
				if who != "" && (f == "StartKey" || f == "EndKey") {
					return who + "." + f
				}
			}
			return ""
		}
		bad, n := "", 0
		for _, la := range []int{0, 1} {
			for _, lb := range []int{0, 1} {
				for _, ab := range []int{-1, 0, 1} { // a.End ? b.Start
					for _, ba := range []int{-1, 0, 1} { // b.End ? a.Start
						signs := map[string]int{}
						SetSign(signs, "len(a.EndKey)", "0", la)
						SetSign(signs, "len(b.EndKey)", "0", lb)
						SetSign(signs, "a.EndKey", "b.StartKey", ab)
						SetSign(signs, "b.EndKey", "a.StartKey", ba)
						want := !((la == 1 && ab <= 0) || (lb == 1 && ba <= 0))
						got := (&SignEnv{Role: role, Signs: signs, Depth: 1}).ReturnValue(fn, 0)
						n++
						if ((got == True) != want || got == Unknown) && bad == "" {
							bad = fmt.Sprintf("a.End set=%v b.End set=%v a.End?b.Start=%d b.End?a.Start=%d: answers %s, want %v", la == 1, lb == 1, ab, ba, triName(got), want)
						}
					}
				}
			}
		}
		c.Decide(bad == "", r2, key(fn, "end<=start⇒disjoint(x2)"), fn.Pos(), n+1, "half-open disjointness test in both directions (36 orderings evaluated)", "rangesOverlap decides wrongly for "+bad)
	}
	fol := c.FnOpt("pd/core", "Cluster.findOverlapLocked")
	if fol == nil {
		fol = c.Fn("pd/core", "Cluster.UpsertRegionHeartbeat") // inlined
	}
	if fn := fol; fn != nil {
		need(c, r2, fn, false, "rangesOverlap", Named("pd/core.rangesOverlap"), 1)
		// skips only the region's own id
		self := false
		AllInstrs(fn, false, func(in ssa.Instruction) {
			if bo, ok := in.(*ssa.BinOp); ok && bo.Op == token.EQL && fieldNameOf(bo.Y) == "ID" {
				self = true
			}
		})
		c.Decide(self, r2, key(fn, "skip-self-only"), fn.Pos(), 1, "only the region's own entry is exempt", "findOverlapLocked no longer exempts exactly the region's own id")
	}

	const r2b = "K2.well-formed-range-precondition"
	c.Rule(r2b, "rangesOverlap and the index lookup assume start < end for bounded regions; Cluster.UpsertRegionHeartbeat establishes it: every store into Cluster.regions is preceded by a rejecting test `len(EndKey) > 0 && Compare(StartKey, EndKey) >= 0` (or the mirrored form) on the incoming meta")
	if fn := c.Fn("pd/core", "Cluster.UpsertRegionHeartbeat"); fn != nil {
		// decided by order-sign evaluation: for a bounded region with start >= end no store into the
		// catalog is reachable – the test may sit in UpsertRegionHeartbeat or in a validation helper
		// whose error is checked before the store
		var role func(v ssa.Value) string
		role = func(v ssa.Value) string {
			v = Unwrap(v)
			if call, ok := v.(*ssa.Call); ok {
				if bi, ok := call.Call.Value.(*ssa.Builtin); ok && bi.Name() == "len" && len(call.Call.Args) == 1 {
					if r := role(call.Call.Args[0]); r != "" {
						return "len(" + r + ")"
					}
				}
				return ""
			}
			switch fieldNameOf(v) {
			case "StartKey":
				return "start"
			case "EndKey":
				return "end"
			}
			return ""
		}
		stores := fieldMapUpdates(fn, "pd/core.Cluster", "regions")
		rejected := func(cmp int) bool {
			signs := map[string]int{}
			SetSign(signs, "len(end)", "0", 1)
			SetSign(signs, "len(start)", "0", 1)
			SetSign(signs, "start", "end", cmp)
			env := &SignEnv{Role: role, Signs: signs, Depth: 1}
			direct := len(stores) > 0
			for _, st := range stores {
				if env.Reaches(fn, st) {
					direct = false
				}
			}
			if direct {
				return true
			}
			for _, st := range stores {
				for _, h := range rejectionHelpers(c, fn, st) {
					henv := &SignEnv{Role: role, Signs: signs, Depth: 1}
					rs := henv.ReachableReturns(h)
					all := len(rs) > 0
					ei := ErrorResultIndex(h)
					for _, r := range rs {
						if !ProvablyNonNil(RetVal(r, ei), r, 0) {
							all = false
						}
					}
					if all {
						return true
					}
				}
			}
			return false
		}
		accepted := func() bool {
			signs := map[string]int{}
			SetSign(signs, "len(end)", "0", 1)
			SetSign(signs, "len(start)", "0", 1)
			SetSign(signs, "start", "end", -1)
			env := &SignEnv{Role: role, Signs: signs, Depth: 1}
			for _, st := range stores {
				if env.Reaches(fn, st) {
					return true
				}
			}
			return false
		}
		guard := rejected(0) && rejected(1) && accepted()
		c.Decide(guard, r2b, key(fn, "rejects:start>=end"), fn.Pos(), 4, "a bounded region with start >= end is refused before it can be stored", "UpsertRegionHeartbeat stores a region without checking start < end: an empty or inverted range passes the overlap test against every neighbour and then shadows the real owner in GetRegionByKey (keys of a known region become unroutable)")
	}

	const r2c = "K1.catalog-change-and-persistence-are-one-step"
	c.Rule(r2c, "pd/server Service.RegionHeartbeat and Service.RemoveRegion change the in-memory catalog and the persisted catalog as one step: a mutex is held across the cluster call and the storage call, and a failed storage call is compensated (the cluster change is undone) or the storage call comes first; otherwise a failed or delayed save leaves the live catalog and the one reloaded after a restart different")
	for _, spec := range [][3]string{{"Service.RegionHeartbeat", "pd/core.(*Cluster).UpsertRegionHeartbeat", "SaveRegion"}, {"Service.RemoveRegion", "pd/core.(*Cluster).RemoveRegion", "DeleteRegion"}} {
		fn := c.Fn("pd/server", spec[0])
		if fn == nil {
			continue
		}
		mem := Calls(fn, false, Named(spec[1]))
		per := Calls(fn, false, func(cc *ssa.CallCommon) bool { return cc.IsInvoke() && cc.Method.Name() == spec[2] })
		if len(mem) == 0 || len(per) == 0 {
			c.Fail(r2c, key(fn, "has:catalog+storage-calls"), fn.Pos(), 1, "cannot find the catalog call and the storage call in %s", spec[0])
			continue
		}
		ls := ComputeLockSets(fn)
		locked := len(ls.HeldAt(mem[0].(ssa.Instruction))) > 0 && len(ls.HeldAt(per[0].(ssa.Instruction))) > 0
		persistFirst := Dominates(per[0].(ssa.Instruction), mem[0].(ssa.Instruction))
		compensated := false
		if ev := ErrResult(per[0]); ev != nil {
			for _, e := range NilEdges(fn, FlowSet(ev)) {
				for _, m2 := range Calls(fn, false, func(cc *ssa.CallCommon) bool {
					o := CalleeObj(cc)
					return o != nil && strings.Contains(ObjName(o), "pd/core.(*Cluster).")
				}) {
					if EdgeDominates(e.NonNil[0], e.NonNil[1], m2.Block()) {
						compensated = true
					}
				}
			}
		}
		c.Decide(locked && (persistFirst || compensated), r2c, key(fn, "catalog+storage#one-step"), fn.Pos(), 3, "catalog change and persistence are serialised and a failed save is compensated", fmt.Sprintf("%s changes the in-memory catalog and persists afterwards with no lock across both (lock held: %v) and no compensation on a storage error (compensated: %v, persisted first: %v): a failed or reordered save makes the catalog reloaded after a restart differ from the acknowledged one, up to overlapping regions that PD refuses to start from", spec[0], locked, compensated, persistFirst))
	}

	const r3 = "K1.index-rebuilt-after-mutation"
	c.Rule(r3, "every store to / delete from Cluster.regions is followed, before the lock is released, by rebuildRegionIndexLocked; GetRegionByKey answers from the index with the half-open test (key < start ⇒ miss, key >= end ⇒ miss)")
	for _, name := range []string{"Cluster.UpsertRegionHeartbeat", "Cluster.RemoveRegion"} {
		fn := c.Fn("pd/core", name)
		if fn == nil {
			continue
		}
		rb := Calls(fn, false, Named("pd/core.(*Cluster).rebuildRegionIndexLocked"))
		for i, st := range fieldStoresIn(fn, false, "pd/core.Cluster", "regions") {
			bad := false
			n := 0
			for _, r := range Returns(fn) {
				reach, m := CutReach(fn, st, r, instrs(rb), nil)
				n += m
				if reach {
					bad = true
				}
			}
			// unlock (non-deferred) must come after rebuild
			AllInstrs(fn, false, func(in ssa.Instruction) {
				if op := LockOpOf(in); op != nil && op.Op == "Unlock" && !op.Defer {
					if reach, _ := CutReach(fn, st, in, instrs(rb), nil); reach {
						bad = true
					}
				}
			})
			c.Decide(!bad && len(rb) > 0, r3, key(fn, fmt.Sprintf("mutation[%d]->rebuildRegionIndexLocked", i+1)), st.Pos(), n+1, "the lookup index is rebuilt before the lock is released", "the catalog is mutated and the lock released (or the function returns) without rebuilding the lookup index")
		}
	}
	if fn := c.Fn("pd/core", "Cluster.GetRegionByKey"); fn != nil {
		ops := map[string]string{}
		for _, b := range fn.Blocks {
			if ifi := ifOf(b); ifi != nil {
				if bo, ok := ifi.Cond.(*ssa.BinOp); ok {
					if call, ok := bo.X.(*ssa.Call); ok && Named("bytes.Compare")(call.Common()) {
						ops[fieldNameOf(call.Call.Args[1])] = bo.Op.String()
					}
				}
			}
		}
		c.Decide(ops["start"] == "<" && ops["end"] == ">=", r3, key(fn, "half-open-hit-test"), fn.Pos(), 2, "hit iff start <= key < end", fmt.Sprintf("hit test operators are start:%s end:%s (expected key < start ⇒ miss, key >= end ⇒ miss)", ops["start"], ops["end"]))
	}
	const r4 = "K1.persist-after-accept"
	c.Rule(r4, "pd/server Service.RegionHeartbeat persists (storage.SaveRegion) only after the in-memory upsert succeeded and returns the persistence error; RemoveRegion persists the delete when the region existed; writers of Cluster.regions are UpsertRegionHeartbeat, RemoveRegion and NewCluster")
	if fn := c.Fn("pd/server", "Service.RegionHeartbeat"); fn != nil {
		beforeOK(c, r4, fn, "UpsertRegionHeartbeat", Named("pd/core.(*Cluster).UpsertRegionHeartbeat"), "storage.SaveRegion", Named("(pd/storage.Store).SaveRegion"), 1)
		for i, s := range Calls(fn, false, Named("(pd/storage.Store).SaveRegion")) {
			ev := ErrResult(s)
			c.Decide(ev != nil && len(NilEdges(fn, FlowSet(ev))) > 0, r4, key(fn, fmt.Sprintf("SaveRegion[%d]#error-checked", i+1)), s.Pos(), 1, "persistence failure is reported", "the error of SaveRegion is ignored")
		}
	}
	if fn := c.Fn("pd/server", "Service.RemoveRegion"); fn != nil {
		need(c, r4, fn, false, "storage.DeleteRegion", Named("(pd/storage.Store).DeleteRegion"), 1)
	}
	onlyWriters(c, r4, "pd/core.Cluster", "regions", map[string]string{
		"(*pd/core.Cluster).UpsertRegionHeartbeat": "gated insert",
		"(*pd/core.Cluster).RemoveRegion":          "removal",
		"pd/core.NewCluster":                       "constructor",
	}, 3)
}

func ordinalOfFieldAddr(fn *ssa.Function, fa *ssa.FieldAddr) int {
	n := 0
	for _, b := range fn.Blocks {
		for _, in := range b.Instrs {
			if x, ok := in.(*ssa.FieldAddr); ok && x.Field == fa.Field && TypeName(x.X.Type()) == TypeName(fa.X.Type()) {
				n++
				if x == fa {
					return n
				}
			}
		}
	}
	return 0
}

func fieldNameOf(v ssa.Value) string {
	v = Unwrap(v)
	switch x := v.(type) {
	case *ssa.Field:
		_, f, _ := FieldOf(x)
		return f
	case *ssa.UnOp:
		_, f, _ := FieldOf(x.X)
		return f
	case *ssa.Parameter:
		return x.Name()
	}
	return "?"
}

// notReachableFromTrueEdge: target is not reachable from the true edge of the If on call m's result
// (also handles `exists && call()` lowering where the If on the call is nested).
func notReachableFromTrueEdge(fn *ssa.Function, m Matcher, target ssa.Instruction) bool {
	found := false
	for _, ci := range Calls(fn, false, m) {
		for _, r := range *ci.Value().Referrers() {
			if ifi, ok := r.(*ssa.If); ok {
				found = true
				if blockReaches(ifi.Block().Succs[0], target.Block()) {
					return false
				}
			}
		}
	}
	return found
}

// notReachableFromOkEdge: for a call returning (x, ok bool), target is not reachable from ok==true.
func notReachableFromOkEdge(fn *ssa.Function, m Matcher, target ssa.Instruction) bool {
	found := false
	for _, ci := range Calls(fn, false, m) {
		for _, r := range *ci.Value().Referrers() {
			ex, ok := r.(*ssa.Extract)
			if !ok || ex.Index != 1 {
				continue
			}
			for _, rr := range *ex.Referrers() {
				if ifi, ok := rr.(*ssa.If); ok {
					found = true
					if blockReaches(ifi.Block().Succs[0], target.Block()) {
						return false
					}
				}
			}
		}
	}
	return found
}

func C27(c *Ctx) {
	c.Note("durability of Rename against power loss; uint64 wrap-around; clock-independent: timestamps are counters; multi-PD deployments")
	const r1 = "K3.atomic-allocation"
	c.Rule(r1, "IDAllocator.next and tso.Allocator.counter are modified only by atomic Add (allocation) and Store (constructor); Reserve derives [first,last] from one Add(n)")
	for _, t := range [][3]string{{"pd/core", "IDAllocator", "next"}, {"pd/tso", "Allocator", "counter"}} {
		owner := t[0] + "." + t[1]
		n := 0
		for _, f := range c.P.ModFuncs {
			for _, ci := range Calls(f, false, Named("(*sync/atomic.Uint64).Store", "(*sync/atomic.Uint64).Add", "(*sync/atomic.Uint64).Swap", "(*sync/atomic.Uint64).CompareAndSwap")) {
				o, fl, ok := FieldOf(ci.Common().Args[0])
				if !ok || o != owner || fl != t[2] {
					continue
				}
				n++
				meth := CalleeObj(ci.Common()).Name()
				root := Root(f).Name()
				alloc := root == "Reserve" || root == "Alloc" || root == "Next"
				okk := ((meth == "Add" || meth == "CompareAndSwap") && alloc) || (meth == "Store" && strings.HasPrefix(root, "New"))
				c.Decide(okk, r1, owner+"."+t[2]+"#"+meth+"@"+FuncName(Root(f)), ci.Pos(), 1, "allocation by Add / CompareAndSwap, construction by Store", owner+"."+t[2]+" is modified by "+meth+" in "+FuncName(Root(f)))
			}
		}
		c.Floor(r1, n, 3, "mutators of "+owner+"."+t[2])
		if fn := c.Fn(t[0], t[1]+".Reserve"); fn != nil && len(fn.Params) >= 2 {
			var muts []ssa.CallInstruction
			for _, ci := range Calls(fn, false, Named("(*sync/atomic.Uint64).Add", "(*sync/atomic.Uint64).CompareAndSwap")) {
				muts = append(muts, ci)
			}
			c.Decide(len(muts) == 1, r1, key(fn, "single-Add"), fn.Pos(), 1, "one atomic update per reservation", fmt.Sprintf("%d atomic updates in Reserve", len(muts)))
			if len(muts) == 1 {
				m := muts[0]
				nParam := fn.Params[1]
				isCAS := CalleeObj(m.Common()).Name() == "CompareAndSwap"
				// the value the reservation is derived from: the Add result, or the CAS's new value
				var base map[ssa.Value]bool
				if isCAS {
					base = map[ssa.Value]bool{m.Common().Args[len(m.Common().Args)-1]: true, m.Common().Args[len(m.Common().Args)-2]: true}
				} else {
					base = valuesOf(muts)
				}
				good := false
				for _, r := range Returns(fn) {
					if IsNilConst(RetVal(r, 2)) && derivedFrom(RetVal(r, 0), base, 5) {
						good = true
					}
				}
				c.Decide(good, r1, key(fn, "first=Add(n)-n+1"), fn.Pos(), 1, "the returned range derives from the atomic update", "Reserve's first value is not derived from the atomic update's result")
				if isCAS {
					// new = old + n, and a failed swap does not reach a success return without swapping again
					nv := m.Common().Args[len(m.Common().Args)-1]
					af := AffineOf(nv, m.Common().Args[len(m.Common().Args)-2], nParam)
					c.Decide(af.Terms[nParam] == 1 && af.Terms[m.Common().Args[len(m.Common().Args)-2]] == 1 && af.K == 0, r1, key(fn, "Add(n)"), m.Pos(), 1, "adds exactly the requested count", "Reserve does not swap in old+n")
					retried := true
					for e := range boolValueEdges(fn, m.Value(), false) {
						for _, r := range Returns(fn) {
							if IsNilConst(RetVal(r, 2)) {
								if reach, _ := reachFromBlock(fn, e[1], r, []ssa.Instruction{m.(ssa.Instruction)}); reach {
									retried = false
								}
							}
						}
					}
					c.Decide(retried, r1, key(fn, "CAS-failure→retry"), m.Pos(), 2, "a lost race is retried", "a failed CompareAndSwap reaches a success return without another attempt (a range would be handed out that was not reserved)")
				} else {
					c.Decide(m.Common().Args[1] == ssa.Value(nParam), r1, key(fn, "Add(n)"), m.Pos(), 1, "adds exactly the requested count", "Reserve does not Add the requested count")
				}
				// the counter must not wrap: with n above what is left the update is unreachable
				role := func(v ssa.Value) string {
					v = Unwrap(v)
					if v == ssa.Value(nParam) {
						return "n"
					}
					if bo, ok := v.(*ssa.BinOp); ok && bo.Op == token.SUB {
						if k, isK := bo.X.(*ssa.Const); isK && k.Value != nil && k.Value.ExactString() == "18446744073709551615" {
							return "room"
						}
					}
					return ""
				}
				reach := func(sg int) bool {
					signs := map[string]int{}
					SetSign(signs, "n", "room", sg)
					SetSign(signs, "n", "0", 1)
					return (&SignEnv{Role: role, Signs: signs, Depth: 1}).Reaches(fn, m.(ssa.Instruction))
				}
				c.Decide(!reach(1) && reach(0) && reach(-1), r1, key(fn, "no-wrap:n<=Max-current"), m.Pos(), 3, "a count larger than what is left is refused before the counter is touched",
					"Reserve updates the counter for any count: a request for more than MaxUint64-current (count = MaxUint64 is accepted from the client) wraps the counter, and the next calls hand out values that were issued before")
			}
		}
	}

	const r2 = "K1.persist-before-reply"
	c.Rule(r2, "Service.Tso and Service.AllocID reply only after Reserve and then persistAllocatorState()==nil; persistAllocatorState passes ids.Current() and tso.Current() to storage.SaveAllocatorState and returns its error")
	for _, name := range []string{"Service.Tso", "Service.AllocID"} {
		fn := c.Fn("pd/server", name)
		if fn == nil {
			continue
		}
		res := Calls(fn, false, Named("pd/tso.(*Allocator).Reserve", "pd/core.(*IDAllocator).Reserve"))
		// the checkpoint write: storage.SaveAllocatorState itself, or a helper (persistAllocatorState)
		// whose success implies it succeeded; `no storage configured` satisfies the obligation
		noStorage := func(f *ssa.Function) edgeSet {
			out := nilFieldEdges(f, "pd/server.Service", "storage")
			if len(f.Params) > 0 {
				for _, e := range NilEdges(f, paramSet(f, 0)) {
					out[e.Nil] = true
				}
			}
			return out
		}
		saveM := Named("(pd/storage.Store).SaveAllocatorState")
		per := verifySites(c, fn, saveM, 1, noStorage)
		c.Decide(len(res) == 1 && len(per) == 1, r2, key(fn, "has:Reserve+persist"), fn.Pos(), 2, "reserve and persist present", "Reserve / persistAllocatorState call missing")
		for i, p := range per {
			succOK(c, r2, key(fn, fmt.Sprintf("persist[%d]<-ok(Reserve)", i+1)), fn, res, "Reserve", p.(ssa.Instruction), "persistAllocatorState")
		}
		for i, r := range Returns(fn) {
			if IsNilConst(RetVal(r, 0)) {
				continue
			}
			succOK(c, r2, key(fn, fmt.Sprintf("reply[%d]<-ok(persist)", i+1)), fn, per, "persistAllocatorState", r, "reply", noStorage(fn))
		}
		// the values checkpointed are the two counters' Current(), sampled after the reservation
		for _, p := range per {
			g, sv := fn, []ssa.CallInstruction{p}
			if !saveM(p.Common()) {
				g = StaticFn(p.Common())
				sv = Calls(g, false, saveM)
			}
			for _, s := range sv {
				a := s.Common().Args
				ok1 := isCallTo(a[0], "pd/core.(*IDAllocator).Current")
				ok2 := isCallTo(a[1], "pd/tso.(*Allocator).Current")
				c.Decide(ok1 && ok2, r2, key(fn, "SaveAllocatorState(ids.Current,tso.Current)"), s.Pos(), 2, "both counters are checkpointed, in order", "SaveAllocatorState is not given (ids.Current(), tso.Current())")
				if g == fn {
					for j, cu := range Calls(fn, false, Named("pd/core.(*IDAllocator).Current", "pd/tso.(*Allocator).Current")) {
						okp, n := MustPrecede(fn, cu.(ssa.Instruction), instrs(res))
						c.Decide(okp, r2, key(fn, fmt.Sprintf("Current[%d]<-Reserve", j+1)), cu.Pos(), n, "the checkpointed value is sampled after the reservation", "the checkpointed counter is sampled before the reservation it must cover")
					}
				} else {
					errPropagated(c, r2, key(g, "SaveAllocatorState#error-propagated"), g, s)
				}
			}
		}
	}

	const r3 = "K1.atomic-monotone-checkpoint"
	c.Rule(r3, "LocalStore.SaveAllocatorState runs under stateMu, writes the temp file and renames it over the state file (WriteFile()==nil → Rename), and the values written are sampled under a lock that orders the writes or clamped under stateMu to the highest values written so far (the checkpoint never regresses)")
	if fn := c.Fn("pd/storage", "LocalStore.SaveAllocatorState"); fn != nil {
		ls := ComputeLockSets(fn)
		// the write-tmp / sync / rename / sync-dir sequence lives in SaveAllocatorState or in a
		// same-package helper it calls under stateMu (and that nothing else calls)
		body, bls := fn, ls
		if len(Calls(fn, false, Named("(vfs.FS).Rename"))) == 0 {
			for _, cs := range Calls(fn, false, func(*ssa.CallCommon) bool { return true }) {
				cal := cs.Common().StaticCallee()
				if cal == nil || cal.Blocks == nil || cal.Pkg != fn.Pkg || len(Calls(cal, false, Named("(vfs.FS).Rename"))) == 0 {
					continue
				}
				body, bls = cal, ComputeLockSets(cal)
				underLock(c, r3, fn, ls, cal.Name(), []ssa.Instruction{cs.(ssa.Instruction)}, "pd/storage.LocalStore.stateMu", false)
				onlyCallers(c, r3, cal, map[string]string{FuncName(fn): "the checkpoint writer, under stateMu"}, 1)
				break
			}
		}
		wf := need(c, r3, body, false, "WriteFile", Named("(vfs.FS).WriteFile"), 1)
		rn := need(c, r3, body, false, "Rename", Named("(vfs.FS).Rename"), 1)
		if body == fn {
			underLock(c, r3, fn, ls, "WriteFile", instrs(wf), "pd/storage.LocalStore.stateMu", false)
			underLock(c, r3, fn, ls, "Rename", instrs(rn), "pd/storage.LocalStore.stateMu", false)
		}
		_ = bls
		beforeOK(c, r3, body, "WriteFile(tmp)", Named("(vfs.FS).WriteFile"), "Rename(tmp,state)", Named("(vfs.FS).Rename"), 1)
		// durability: the temp file is synced (File.Sync()==nil, directly or in a helper whose success
		// implies it) before the rename, and the directory after it, before the saved mark moves
		fsyncs := verifySites(c, body, Named("(vfs.File).Sync"), 1)
		for i, r := range rn {
			k := key(body, fmt.Sprintf("Rename[%d]<-ok(File.Sync)", i+1))
			if len(fsyncs) == 0 {
				c.Fail(r3, k, r.Pos(), 1, "the checkpoint's temporary file is renamed over the old checkpoint without being synced: Tso / AllocID reply right afterwards, and after a power loss the rename can survive while the data does not (an empty checkpoint, accepted as a fresh store: every value is handed out again)")
			} else {
				succOK(c, r3, k, body, fsyncs, "File.Sync", r.(ssa.Instruction), "Rename")
			}
		}
		dsyncs := verifySites(c, fn, Named("vfs.SyncDir"), 1)
		for i, st := range fieldStoresIn(fn, false, "pd/storage.LocalStore", "saved") {
			k := key(fn, fmt.Sprintf("saved-update[%d]<-ok(SyncDir)", i+1))
			if len(dsyncs) == 0 {
				c.Fail(r3, k, st.Pos(), 1, "the replacement of the checkpoint is not made durable (no directory sync after the rename)")
			} else {
				succOK(c, r3, k, fn, dsyncs, "SyncDir", st, "saved high-water mark update")
			}
		}
		for i, r := range rn {
			ev := ErrResult(r)
			c.Decide(ev != nil && ev.Referrers() != nil && len(*ev.Referrers()) > 0, r3, key(body, fmt.Sprintf("Rename[%d]#error-used", i+1)), r.Pos(), 1, "rename error is reported", "Rename's error is dropped")
		}
		// monotone: either caller samples under a lock held across the save, or clamp under stateMu
		// the value stored into each field of the AllocatorState that gets written is max(param, saved.field):
		// a phi (or builtin max) joining the parameter with a load of LocalStore.saved.<field>
		clamp := 0
		for _, fld := range []string{"IDCurrent", "TSCurrent"} {
			for _, st := range fieldStoresIn(fn, false, "pd/storage.AllocatorState", fld) {
				sv, ok := st.(*ssa.Store)
				if !ok {
					continue
				}
				if fa, ok := sv.Addr.(*ssa.FieldAddr); ok {
					if _, isAlloc := fa.X.(*ssa.Alloc); !isAlloc {
						continue // not the literal being written (e.g. s.saved.X = …)
					}
				}
				if isMaxOfParamAndSaved(sv.Val, fld) && ls.Holds(sv, "pd/storage.LocalStore.stateMu", false) {
					clamp++
				}
			}
		}
		callerOrdered := false
		for _, pf := range callersOfSave(c) {
			pls := ComputeLockSets(pf)
			for _, s := range Calls(pf, false, Named("(pd/storage.Store).SaveAllocatorState")) {
				if len(pls.HeldAt(s.(ssa.Instruction))) > 0 {
					callerOrdered = true
					for _, cu := range Calls(pf, false, Named("pd/core.(*IDAllocator).Current", "pd/tso.(*Allocator).Current")) {
						if len(pls.HeldAt(cu.(ssa.Instruction))) == 0 {
							callerOrdered = false
						}
					}
				}
			}
		}
		c.Decide(clamp >= 2 || callerOrdered, r3, key(fn, "checkpoint-never-regresses"), fn.Pos(), clamp+2,
			ifs(callerOrdered, "samples are taken under the lock that orders the writes", fmt.Sprintf("both counters are clamped under stateMu to the highest saved values (%d max-joins)", clamp)),
			"the counters are sampled outside the lock that orders the writes and not clamped: two requests can write their samples in the opposite order, so a value already handed out can be above the checkpoint")
		// saved state updated only after the rename succeeded
		for i, st := range fieldStoresIn(fn, false, "pd/storage.LocalStore", "saved") {
			succOK(c, r3, key(fn, fmt.Sprintf("saved-update[%d]<-ok(Rename)", i+1)), fn, verifySites(c, fn, Named("(vfs.FS).Rename"), 1), "Rename", st, "saved high-water mark update")
		}
	}

	if fn := c.Fn("pd/storage", "LocalStore.loadAllocatorState"); fn != nil {
		// an existing but empty checkpoint file is an error: the len(data)==0 edge reaches no nil-error return
		bad, n := false, 0
		for _, b := range fn.Blocks {
			ifi := ifOf(b)
			if ifi == nil {
				continue
			}
			bo, ok := ifi.Cond.(*ssa.BinOp)
			if !ok || (bo.Op != token.EQL && bo.Op != token.NEQ) {
				continue
			}
			call, isCall := bo.X.(*ssa.Call)
			if !isCall {
				continue
			}
			if bi, isB := call.Call.Value.(*ssa.Builtin); !isB || bi.Name() != "len" {
				continue
			}
			if z, isK := ConstInt(bo.Y); !isK || z != 0 {
				continue
			}
			n++
			empty := b.Succs[0]
			if bo.Op == token.NEQ {
				empty = b.Succs[1]
			}
			for _, r := range Returns(fn) {
				if !ProvablyNonNil(RetVal(r, 1), r, 0) {
					if reach, _ := reachFromBlock(fn, empty, r, nil); reach && !EdgeDominates(b, otherSucc(b, empty), r.Block()) {
						if r.Block() == empty || blockReaches(empty, r.Block()) && len(r.Block().Preds) == 1 {
							bad = true
						}
					}
				}
			}
		}
		c.Decide(n == 0 || !bad, r3, key(fn, "empty-checkpoint→error"), fn.Pos(), n+1, "an existing but empty checkpoint is not taken for a fresh store", "loadAllocatorState answers {0,0} with a nil error for an existing but empty checkpoint file: PD restarts at 1 and hands every timestamp and id out again")
	}

	const r4 = "K1.restart-above-checkpoint"
	c.Rule(r4, "cmd/nokv runPDCmd constructs both allocators from the starts returned by ResolveAllocatorStarts(…, snapshot.Allocator) loaded from storage; ResolveAllocatorStarts returns at least checkpoint+1 for both counters")
	if fn := c.Fn("cmd/nokv", "runPDCmd"); fn != nil {
		rs := need(c, r4, fn, false, "ResolveAllocatorStarts", Named("pd/storage.ResolveAllocatorStarts"), 1)
		ld := Calls(fn, false, Named("(*pd/storage.LocalStore).Load", "(pd/storage.Store).Load"))
		c.Decide(len(ld) >= 1, r4, key(fn, "has:storage.Load"), fn.Pos(), 1, "persisted state is loaded", "runPDCmd no longer loads the persisted allocator state")
		for _, m := range []string{"pd/core.NewIDAllocator", "pd/tso.NewAllocator"} {
			for i, a := range need(c, r4, fn, false, m, Named(m), 1) {
				ok, n := MustPrecedeWithSkip(fn, a.(ssa.Instruction), instrs(rs), nil)
				// the start argument is loaded from the flag variable that ResolveAllocatorStarts' result was stored to
				c.Decide(ok || startFlowsFromResolve(fn, a, rs), r4, key(fn, fmt.Sprintf("%s[%d]<-ResolveAllocatorStarts", m, i+1)), a.Pos(), n+1, "allocator starts above the checkpoint", m+" is constructed from a start that did not pass through ResolveAllocatorStarts")
			}
		}
	}
	if fn := c.Fn("pd/storage", "ResolveAllocatorStarts"); fn != nil {
		// decided by term evaluation: in every order scenario of (checkpoint, start, MaxUint64)
		// each returned start is max(start, checkpoint+1), saturating at MaxUint64 – however
		// the selection is spelled (if/else, builtin max, a helper)
		type scen struct {
			name  string
			facts []Fact
			want  Term
		}
		ck, st, mx := "ckpt", "start", "MAX"
		scens := []scen{
			{"checkpoint == start < Max", []Fact{{ck, 0, st, 0, 0}, {ck, 0, mx, 0, -1}, {st, 0, mx, 0, -1}}, Term{ck, 1, true}},
			{"start < checkpoint < Max", []Fact{{ck, 0, st, 0, 1}, {ck, 0, mx, 0, -1}, {st, 0, mx, 0, -1}}, Term{ck, 1, true}},
			{"checkpoint+1 == start", []Fact{{ck, 1, st, 0, 0}, {ck, 0, mx, 0, -1}}, Term{st, 0, true}},
			{"checkpoint+1 < start", []Fact{{ck, 1, st, 0, -1}, {ck, 0, mx, 0, -1}}, Term{st, 0, true}},
			{"start < checkpoint == Max", []Fact{{ck, 0, mx, 0, 0}, {ck, 0, st, 0, 1}, {st, 0, mx, 0, -1}}, Term{ck, 0, true}},
			{"start == checkpoint == Max", []Fact{{ck, 0, mx, 0, 0}, {ck, 0, st, 0, 0}, {st, 0, mx, 0, 0}}, Term{ck, 0, true}},
		}
		flds := []string{"IDCurrent", "TSCurrent"}
		bad, n := "", 0
		for ri, fld := range flds {
			if ri >= len(fn.Params) {
				break
			}
			atom := func(v ssa.Value) string {
				if v == fn.Params[ri] {
					return st
				}
				if isFieldLoad(v, "pd/storage.AllocatorState", fld) {
					return ck
				}
				if k, ok := v.(*ssa.Const); ok && k.Value != nil && k.Value.ExactString() == "18446744073709551615" {
					return mx
				}
				return ""
			}
			for _, sc := range scens {
				env := &TermEnv{Atom: atom, Facts: sc.facts, Depth: 2}
				rets, complete := env.Returns(fn)
				n += env.Visited
				if !complete || len(rets) == 0 {
					if bad == "" {
						bad = "the function has a loop or no return: the selection cannot be evaluated"
					}
					continue
				}
				for _, rs := range rets {
					got := rs[ri]
					okv := got.Known && got == sc.want
					if !okv && got.Known {
						if sg, known := env.Cmp(got, sc.want); known && sg == 0 {
							okv = true
						}
					}
					if !okv && bad == "" {
						bad = fmt.Sprintf("%s start when %s: returns %s, expected %s", strings.TrimSuffix(fld, "Current"), sc.name, got, sc.want)
					}
				}
			}
		}
		c.Decide(bad == "", r4, key(fn, "start=max(start,checkpoint+1)x2"), fn.Pos(), n+1, "both starts are max(start, checkpoint+1), saturating (6 order scenarios × 2 counters evaluated)", "ResolveAllocatorStarts: "+bad)
	}
}

// isMaxOfParamAndSaved: v is phi(param, load saved.fld) or max(param, load saved.fld).
func isMaxOfParamAndSaved(v ssa.Value, fld string) bool {
	var parts []ssa.Value
	switch x := v.(type) {
	case *ssa.Phi:
		parts = x.Edges
	case *ssa.Call:
		if b, ok := x.Call.Value.(*ssa.Builtin); ok && b.Name() == "max" {
			parts = x.Call.Args
		}
	}
	hasP, hasS := false, false
	for _, e := range parts {
		if _, ok := e.(*ssa.Parameter); ok {
			hasP = true
		}
		if o, f, ok := FieldOf(e); ok && strings.HasPrefix(o, "pd/storage.") && f == fld {
			hasS = true
		}
	}
	return hasP && hasS
}

func ownerOfField(v ssa.Value) string {
	v = Unwrap(v)
	switch x := v.(type) {
	case *ssa.UnOp:
		o, _, _ := FieldOf(x.X)
		return o
	case *ssa.Field:
		o, _, _ := FieldOf(x)
		return o
	}
	return ""
}

func isCallTo(v ssa.Value, name string) bool {
	call, ok := v.(*ssa.Call)
	return ok && Named(name)(call.Common())
}

// MustPrecedeWithSkip is MustPrecede with optional satisfying edges.
func MustPrecedeWithSkip(fn *ssa.Function, target ssa.Instruction, cuts []ssa.Instruction, skip map[[2]*ssa.BasicBlock]bool) (bool, int) {
	r, n := CutReach(fn, nil, target, cuts, skip)
	return !r, n
}

// startFlowsFromResolve: the constructor's argument is a load of a pointer (flag variable) into which a
// result of ResolveAllocatorStarts was stored.
func startFlowsFromResolve(fn *ssa.Function, ctor ssa.CallInstruction, rs []ssa.CallInstruction) bool {
	if len(rs) == 0 {
		return false
	}
	arg := ctor.Common().Args[0]
	u, ok := arg.(*ssa.UnOp)
	if !ok {
		return false
	}
	for _, r := range *u.X.Referrers() {
		if st, ok := r.(*ssa.Store); ok && st.Addr == u.X {
			if ex, ok := st.Val.(*ssa.Extract); ok && ex.Tuple == rs[0].Value() {
				return true
			}
		}
	}
	return false
}

// fieldMapUpdates: MapUpdate instructions in fn whose map is a load of owner.field.
func fieldMapUpdates(fn *ssa.Function, owner, field string) []ssa.Instruction {
	var out []ssa.Instruction
	AllInstrs(fn, false, func(in ssa.Instruction) {
		if mu, ok := in.(*ssa.MapUpdate); ok && isFieldLoad(mu.Map, owner, field) {
			out = append(out, in)
		}
	})
	return out
}

// callersOfSave: the pd/server functions that call storage.SaveAllocatorState.
func callersOfSave(c *Ctx) []*ssa.Function {
	var out []*ssa.Function
	for _, f := range c.P.ModFuncs {
		if !strings.HasSuffix(FuncPkgPath(f), "/pd/server") {
			continue
		}
		if len(Calls(f, false, Named("(pd/storage.Store).SaveAllocatorState"))) > 0 {
			out = append(out, f)
		}
	}
	return out
}

// paramField: v is a read of field f of the struct-typed parameter p (value parameter spilled to
// a local, or accessed directly).
func paramField(v ssa.Value) (*ssa.Parameter, string, bool) {
	v = Unwrap(v)
	switch x := v.(type) {
	case *ssa.Field:
		if p, ok := x.X.(*ssa.Parameter); ok {
			_, f, _ := FieldOf(x)
			return p, f, true
		}
		if p, _, ok := paramField(x.X); ok {
			_, f, _ := FieldOf(x)
			return p, f, true
		}
	case *ssa.UnOp:
		if x.Op != token.MUL {
			return nil, "", false
		}
		fa, ok := x.X.(*ssa.FieldAddr)
		if !ok {
			return nil, "", false
		}
		_, f, _ := FieldOf(fa)
		base := fa.X
		for {
			if inner, ok := base.(*ssa.FieldAddr); ok {
				base = inner.X
				continue
			}
			break
		}
		switch b := base.(type) {
		case *ssa.Parameter:
			return b, f, true
		case *ssa.Alloc:
			if b.Referrers() != nil {
				for _, r := range *b.Referrers() {
					if st, ok := r.(*ssa.Store); ok && st.Addr == b {
						if p, ok := st.Val.(*ssa.Parameter); ok {
							return p, f, true
						}
					}
				}
			}
		}
	}
	return nil, "", false
}

func otherSucc(b, s *ssa.BasicBlock) *ssa.BasicBlock {
	if b.Succs[0] == s {
		return b.Succs[1]
	}
	return b.Succs[0]
}
