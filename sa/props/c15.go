package props

import (
	"fmt"
	"go/constant"
	"go/token"
	"go/types"
	"slices"
	"sort"
	"strings"

	"golang.org/x/tools/go/ssa"

	. "nokvsa/core"
)

func init() { register("C15", C15) }

// enumConsts lists the package-level constants of named type relPkg.typeName.
func enumConsts(c *Ctx, relPkg, typeName string) map[string]int64 {
	out := map[string]int64{}
	sp := c.P.SSAPkgs[PkgPath(relPkg)]
	if sp == nil {
		c.Errorf("UNRESOLVED-ANCHOR package %s", relPkg)
		return out
	}
	tn, _ := sp.Pkg.Scope().Lookup(typeName).(*types.TypeName)
	if tn == nil {
		c.Errorf("UNRESOLVED-ANCHOR type %s.%s", relPkg, typeName)
		return out
	}
	for _, name := range sp.Pkg.Scope().Names() {
		if k, ok := sp.Pkg.Scope().Lookup(name).(*types.Const); ok && types.Identical(k.Type(), tn.Type()) {
			if v, ok := constant.Int64Val(constant.ToInt(k.Val())); ok {
				out[name] = v
			}
		}
	}
	return out
}

// comparedConsts returns the constant values a value of the named type is compared
// with (==) in fn – the case labels of a switch or if-chain on that tag.
func comparedConsts(fn *ssa.Function, typeName string) map[int64]bool {
	out := map[int64]bool{}
	AllInstrs(fn, false, func(in ssa.Instruction) {
		bo, ok := in.(*ssa.BinOp)
		if !ok || bo.Op != token.EQL {
			return
		}
		for _, pair := range [][2]ssa.Value{{bo.X, bo.Y}, {bo.Y, bo.X}} {
			if TypeName(pair[0].Type()) != typeName {
				continue
			}
			if k, ok := pair[1].(*ssa.Const); ok && k.Value != nil {
				if v, ok := constant.Int64Val(constant.ToInt(k.Value)); ok {
					out[v] = true
				}
			}
		}
	})
	return out
}

// enumCoverage: fn handles every constant of the enum (no rejecting default accepted
// unless allowDefault names the constants that may fall to it).
func enumCoverage(c *Ctx, rule string, fn *ssa.Function, relPkg, typeName string, mayMiss map[string]string) {
	if fn == nil {
		return
	}
	consts := enumConsts(c, relPkg, typeName)
	tn := relPkg + "." + typeName
	if relPkg == "" {
		tn = "NoKV." + typeName
	}
	handled := comparedConsts(fn, tn)
	var names []string
	for n := range consts {
		names = append(names, n)
	}
	sort.Strings(names)
	for _, n := range names {
		k := key(fn, "case:"+n)
		if handled[consts[n]] {
			c.Pass(rule, k, fn.Pos(), 1, "%s handled", n)
		} else if why, ok := mayMiss[n]; ok {
			c.Pass(rule, k, fn.Pos(), 1, "%s deliberately unhandled: %s", n, why)
		} else {
			c.Fail(rule, k, fn.Pos(), 1, "%s has no case for %s.%s", FuncName(fn), typeName, n)
		}
	}
	c.Floor(rule, len(names), 2, "constants of "+tn)
}

// structFields lists the declared field names of relPkg.typeName.
func structFields(c *Ctx, relPkg, typeName string) []string {
	tn := c.P.LookupType(relPkg, typeName)
	if tn == nil {
		c.Errorf("UNRESOLVED-ANCHOR type %s.%s", relPkg, typeName)
		return nil
	}
	st, ok := tn.Type().Underlying().(*types.Struct)
	if !ok {
		return nil
	}
	var out []string
	for i := 0; i < st.NumFields(); i++ {
		out = append(out, st.Field(i).Name())
	}
	return out
}

// fieldWritesIn: fields of owner stored in fn (deep).
func fieldWritesIn(fn *ssa.Function) map[string]bool {
	out := map[string]bool{}
	AllInstrs(fn, true, func(in ssa.Instruction) {
		if st, ok := in.(*ssa.Store); ok {
			// a store to x.A.B counts as a write of A (of x's type) and of B
			var v ssa.Value = st.Addr
			for {
				fa, ok := v.(*ssa.FieldAddr)
				if !ok {
					break
				}
				o, f, _ := FieldOf(fa)
				out[o+"."+f] = true
				v = fa.X
			}
		}
	})
	return out
}

func C15(c *Ctx) {
	c.Note("equality of reloaded and in-memory state; crash atomicity of WriteFile+Rename without fsync; semantics of each edit's apply (only coverage, order and locking are decided)")
	manifestAppendRollbackGroup(c, "K2.failed-manifest-append-rolled-back")
	compactionOutcomeGroup(c, "K2.compaction-outcome-reported-truthfully")
	snapshotLosslessGroup(c, "K6.snapshot-carries-every-field")
	manifestOpenersVerifyGroup(c, "K11.manifest-openers-verify-first")
	const r1 = "K5.edit-type-exhaustive"
	c.Rule(r1, "manifest.writeEdit, decodeEdit and Manager.apply each handle every declared EditType constant (sets equal); requiresSync classifies exactly the table/WAL/value-log edits as sync-required")
	we := c.Fn("manifest", "writeEdit")
	de := c.Fn("manifest", "decodeEdit")
	ap := c.Fn("manifest", "Manager.apply")
	for _, f := range []*ssa.Function{we, de, ap} {
		enumCoverage(c, r1, f, "manifest", "EditType", nil)
	}
	if rs := c.Fn("manifest", "requiresSync"); rs != nil {
		consts := enumConsts(c, "manifest", "EditType")
		got := comparedConsts(rs, "manifest.EditType")
		want := map[string]bool{"EditAddFile": true, "EditDeleteFile": true, "EditLogPointer": true, "EditValueLogHead": true, "EditDeleteValueLog": true, "EditUpdateValueLog": true}
		for n, v := range consts {
			k := key(rs, "sync-class:"+n)
			c.Decide(got[v] == want[n], r1, k, rs.Pos(), 1, fmt.Sprintf("%s sync-required=%v", n, want[n]), fmt.Sprintf("%s sync-required=%v, frozen classification says %v (raft pointer and region edits are deliberately unsynced; table, WAL pointer and value-log edits must be synced)", n, got[v], want[n]))
		}
	}

	const r2 = "K6.codec-field-coverage"
	c.Rule(r2, "for every persisted struct (FileMeta, ValueLogMeta, RaftLogPointer, RegionMeta, RegionEpoch, PeerMeta) each declared field is read by the encoder (writeEdit) and assigned by the decoder (decodeEdit)")
	if we != nil && de != nil {
		reads := fieldReads(we)
		writes := fieldWritesIn(de)
		for _, t := range []string{"FileMeta", "ValueLogMeta", "RaftLogPointer", "RegionMeta", "RegionEpoch", "PeerMeta"} {
			for _, f := range structFields(c, "manifest", t) {
				q := "manifest." + t + "." + f
				c.Decide(reads[q], r2, "manifest.writeEdit#encodes:"+t+"."+f, we.Pos(), 1, "encoded", "field "+t+"."+f+" is not encoded by writeEdit (lost on reload)")
				c.Decide(writes[q], r2, "manifest.decodeEdit#decodes:"+t+"."+f, de.Pos(), 1, "decoded", "field "+t+"."+f+" is not assigned by decodeEdit (lost on reload)")
			}
		}
	}

	const r3 = "K6.version-field-coverage"
	c.Rule(r3, "Manager.writeSnapshot and Manager.Current read every field of Version; replay and createNew initialise every map field of Version")
	vf := structFields(c, "manifest", "Version")
	for _, n := range []string{"Manager.writeSnapshot", "Manager.Current"} {
		fn := c.FnOpt("manifest", n)
		if fn == nil && n == "Manager.writeSnapshot" {
			fn = c.FnOpt("manifest", "writeSnapshot") // a plain function taking the version
		}
		if fn == nil {
			fn = c.Fn("manifest", n)
		}
		if fn != nil {
			reads := fieldReads(fn)
			for _, f := range vf {
				c.Decide(reads["manifest.Version."+f], r3, key(fn, "reads:Version."+f), fn.Pos(), 1, "covered", "Version."+f+" is not covered by "+n+" (dropped by a rewrite / snapshot)")
			}
		}
	}
	for _, n := range []string{"Manager.replay", "Manager.createNew"} {
		if fn := c.Fn("manifest", n); fn != nil {
			writes := fieldWritesIn(fn)
			tn := c.P.LookupType("manifest", "Version")
			st := tn.Type().Underlying().(*types.Struct)
			for i := 0; i < st.NumFields(); i++ {
				if _, isMap := st.Field(i).Type().Underlying().(*types.Map); !isMap {
					continue
				}
				f := st.Field(i).Name()
				c.Decide(writes["manifest.Version."+f], r3, key(fn, "inits:Version."+f), fn.Pos(), 1, "map initialised", "map Version."+f+" is not initialised by "+n+" (nil-map write on first edit)")
			}
		}
	}
	if ap != nil {
		// apply writes every Version field somewhere
		w := map[string]bool{}
		for _, in := range append(append([]ssa.Instruction{}, allFieldMutations(ap, "manifest.Version")...)) {
			_ = in
		}
		AllInstrs(ap, true, func(in ssa.Instruction) {
			switch x := in.(type) {
			case *ssa.Store:
				if o, f, ok := FieldOf(x.Addr); ok && o == "manifest.Version" {
					w[f] = true
				}
			case *ssa.MapUpdate:
				if o, f, ok := FieldOf(x.Map); ok && o == "manifest.Version" {
					w[f] = true
				}
			case *ssa.Call:
				if bi, ok := x.Call.Value.(*ssa.Builtin); ok && bi.Name() == "delete" {
					if o, f, ok := FieldOf(x.Call.Args[0]); ok && o == "manifest.Version" {
						w[f] = true
					}
				}
			}
		})
		for _, f := range vf {
			c.Decide(w[f], r3, key(ap, "mutates:Version."+f), ap.Pos(), 1, "applied", "no edit kind updates Version."+f+" in apply")
		}
	}

	const r4 = "K1.append-sync-apply"
	c.Rule(r4, "Manager.logEditsLocked: every edit is encoded (writeEdit()==nil), the buffer is written (Write()==nil) and, when required, synced (Sync()==nil) before any edit is applied to the in-memory version; error edges skip apply")
	if fn := c.Fn("manifest", "Manager.logEditsLocked"); fn != nil {
		apM := Named("manifest.(*Manager).apply")
		wr := Named("(vfs.File).Write", "(io.Writer).Write")
		for i, w := range need(c, r4, fn, false, "writeEdit", Named("manifest.writeEdit"), 1) {
			errPropagated(c, r4, key(fn, fmt.Sprintf("writeEdit[%d]#error-propagated", i+1)), fn, w)
		}
		beforeOK(c, r4, fn, "manifest.Write", wr, "apply", apM, 1)
		// sync: on the (syncNeeded && syncWrites) edge Sync()==nil precedes apply
		syncs := need(c, r4, fn, false, "manifest.Sync", Named("(vfs.File).Sync"), 1)
		for i, a := range Calls(fn, false, apM) {
			k := key(fn, fmt.Sprintf("apply[%d]<-ok(Sync)|!sync", i+1))
			skip := edgeSet{}
			for e := range boolFieldEdges(fn, "manifest.Manager", "syncWrites", false) {
				skip[e] = true
			}
			// syncNeeded is a phi; its false edge also skips
			for _, b := range fn.Blocks {
				if ifi := ifOf(b); ifi != nil {
					if ph, ok := ifi.Cond.(*ssa.Phi); ok && ph.Comment == "syncNeeded" {
						skip[[2]*ssa.BasicBlock{b, b.Succs[1]}] = true
					}
				}
			}
			succOK(c, r4, k, fn, syncs, "manifest.Sync", a.(ssa.Instruction), "apply", skip)
		}
		// the sync is controlled by requiresSync and syncWrites only
		need(c, r4, fn, false, "requiresSync", Named("manifest.requiresSync"), 1)
	}

	const r5 = "K1.rewrite-publish-order"
	c.Rule(r5, "Manager.rewriteLocked: writeSnapshot()==nil → Flush()==nil → (Sync()==nil when syncWrites) → Close()==nil → writeCurrent()==nil before the old manifest is removed and before the new file becomes m.manifest; writeCurrent writes the temp file and renames it over CURRENT (WriteFile()==nil → Rename)")
	if fn := c.Fn("manifest", "Manager.rewriteLocked"); fn != nil {
		ws := Named("manifest.(*Manager).writeSnapshot", "manifest.writeSnapshot")
		fl := Named("(*bufio.Writer).Flush")
		wc := Named("manifest.(*Manager).writeCurrent")
		noSync := func(f *ssa.Function) edgeSet { return boolFieldEdges(f, "manifest.Manager", "syncWrites", false) }
		// the steps may be grouped into a helper (e.g. one that writes, flushes, syncs and closes the
		// new file): a call stands for a step when its success implies that the step succeeded
		succChain(c, r5, fn, []chainStep{
			{"writeSnapshot", ws, nil},
			{"Flush", fl, nil},
			{"Sync", Named("(vfs.File).Sync"), noSync},
			{"new.Close", Named("(vfs.File).Close", "(io.Closer).Close"), nil},
			{"writeCurrent", wc, nil},
		}, 2)
		// removal of the old manifest and adoption of the new one after writeCurrent()==nil
		wcs := Calls(fn, false, wc)
		var early []ssa.CallInstruction
		for _, m := range []Matcher{ws, fl} {
			early = append(early, verifySites(c, fn, m, 1)...)
		}
		for i, rm := range Calls(fn, false, Named("(vfs.FS).Remove")) {
			// cleanup removes of the *new* path on error paths are dominated by a non-nil edge; skip those
			errPath := false
			for _, s := range early {
				if ev := ErrResult(s); ev != nil {
					for _, e := range NilEdges(fn, map[ssa.Value]bool{ev: true}) {
						if EdgeDominates(e.NonNil[0], e.NonNil[1], rm.Block()) {
							errPath = true
						}
					}
				}
			}
			if errPath {
				continue
			}
			succOK(c, r5, key(fn, fmt.Sprintf("Remove(old)[%d]<-ok(writeCurrent)", i+1)), fn, wcs, "writeCurrent", rm.(ssa.Instruction), "old manifest removal")
		}
		for i, st := range fieldStoresIn(fn, false, "manifest.Manager", "manifest") {
			succOK(c, r5, key(fn, fmt.Sprintf("adopt-new-manifest[%d]<-ok(writeCurrent)", i+1)), fn, wcs, "writeCurrent", st, "m.manifest = new file")
		}
	}
	if fn := c.Fn("manifest", "Manager.writeCurrent"); fn != nil {
		beforeOK(c, r5, fn, "WriteFile(tmp)", Named("(vfs.FS).WriteFile"), "Rename(tmp, CURRENT)", Named("(vfs.FS).Rename"), 1)
		for i, r := range Calls(fn, false, Named("(vfs.FS).Rename")) {
			errPropagated(c, r5, key(fn, fmt.Sprintf("Rename[%d]#error-propagated", i+1)), fn, r)
		}
	}

	const r6 = "K4.manifest-lock"
	c.Rule(r6, "Manager.apply, logEditsLocked, rewriteLocked and every other *Locked method of the manifest manager run with Manager.mu held at every call site (or inside Open/replay before the manager is published)")
	lockedNames := []string{"Manager.apply", "Manager.logEditsLocked", "Manager.rewriteLocked"}
	for _, f := range c.P.ModFuncs {
		// the remaining *Locked methods of the manager (maybeRewriteLocked, helpers split out of the above)
		if f.Parent() != nil || f.Signature.Recv() == nil || !strings.HasSuffix(f.Name(), "Locked") || !strings.HasPrefix(FuncName(f), "(*manifest.Manager).") {
			continue
		}
		if n := "Manager." + f.Name(); !slices.Contains(lockedNames, n) {
			lockedNames = append(lockedNames, n)
		}
	}
	for _, n := range lockedNames {
		fn := c.Fn("manifest", n)
		if fn == nil {
			continue
		}
		cnt := 0
		for _, cs := range c.P.CallersOf(fn) {
			if cs.Site == nil {
				continue
			}
			cnt++
			caller := FuncName(Root(cs.Caller))
			k := FuncName(cs.Caller) + "#calls:" + n + "@mu"
			if caller == "(*manifest.Manager).replay" {
				c.Pass(r6, k, cs.Site.Pos(), 1, "replay runs inside Open before the manager is shared")
				continue
			}
			ls := ComputeLockSets(cs.Caller)
			held := ls.Holds(cs.Site.(ssa.Instruction), "manifest.Manager.mu", false)
			if !held && strings.HasSuffix(FuncName(cs.Caller), "Locked") {
				// transitively: callers of the *Locked caller are checked by their own entry
				c.Pass(r6, k, cs.Site.Pos(), 1, "caller is itself a *Locked helper (checked at its call sites)")
				continue
			}
			c.Decide(held, r6, k, cs.Site.Pos(), 1, "Manager.mu held", n+" called without Manager.mu")
		}
		c.Floor(r6, cnt, 1, "call sites of "+n)
	}
}

func allFieldMutations(fn *ssa.Function, owner string) []ssa.Instruction { return nil }

type chainStep struct {
	name string
	m    Matcher
	skip func(*ssa.Function) edgeSet // edges that satisfy the step by themselves (optional)
}

// succChain: the steps succeed one after the other – every site of step i+1 lies behind the
// success edge of step i.  A site is the matching call, or the call of a same-package helper
// whose success implies the step (verifySites); two consecutive steps inside one helper are
// ordered inside that helper.
func succChain(c *Ctx, rule string, fn *ssa.Function, steps []chainStep, depth int) {
	sitesOf := func(s chainStep) []ssa.CallInstruction {
		if s.skip != nil {
			return verifySites(c, fn, s.m, depth, s.skip)
		}
		return verifySites(c, fn, s.m, depth)
	}
	for i := 1; i < len(steps); i++ {
		prev, cur := steps[i-1], steps[i]
		ps, cs := sitesOf(prev), sitesOf(cur)
		if len(cs) == 0 {
			c.Fail(rule, key(fn, "has:"+cur.name), fn.Pos(), 1, "expected at least 1 call(s) to %s in %s, found 0", cur.name, FuncName(fn))
			continue
		}
		for j, b := range cs {
			// a direct site whose outcome is discarded is best-effort cleanup (`_ = f.Close()` on an
			// error path), not the step
			if ev := ErrResult(b); cur.m(b.Common()) && (ev == nil || ev.Referrers() == nil || len(*ev.Referrers()) == 0) {
				continue
			}
			k := key(fn, fmt.Sprintf("%s[%d]<-ok(%s)", cur.name, j+1, prev.name))
			same := false
			var others []ssa.CallInstruction
			for _, p := range ps {
				if p == b {
					same = true
				} else if ev := ErrResult(p); !prev.m(p.Common()) || (ev != nil && ev.Referrers() != nil && len(*ev.Referrers()) > 0) {
					others = append(others, p)
				}
			}
			if same && depth > 0 && !cur.m(b.Common()) {
				if h := StaticFn(b.Common()); h != nil && h.Blocks != nil {
					c.Touch(h)
					succChain(c, rule, h, []chainStep{prev, cur}, depth-1)
					continue
				}
			}
			if prev.skip != nil {
				succOK(c, rule, k, fn, others, prev.name, b.(ssa.Instruction), cur.name, prev.skip(fn))
			} else {
				succOK(c, rule, k, fn, others, prev.name, b.(ssa.Instruction), cur.name)
			}
		}
	}
}
