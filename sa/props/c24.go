package props

import (
	"fmt"
	"go/token"

	"golang.org/x/tools/go/ssa"

	. "nokvsa/core"
)

func init() { register("C24", C24) }

func C24(c *Ctx) {
	c.Note("pairwise disjointness and exact coverage of the live ranges (merge geometry: merging a left neighbour or into an unbounded target is not decided); the split rollback re-installs the original parent (lower epoch) – see DESIGN §6.3; reload identity of the catalog")
	const r1 = "K3.catalog-ownership"
	c.Rule(r1, "regionManager.metaByID is written only by updateRegion and loadSnapshot and deleted from only by removeRegion, always under regionManager.mu")
	ws := onlyWriters(c, r1, "raftstore/store.regionManager", "metaByID", map[string]string{
		"(*raftstore/store.regionManager).updateRegion": "validated, logged update",
		"(*raftstore/store.regionManager).loadSnapshot": "startup load from the manifest",
		"(*raftstore/store.regionManager).removeRegion": "logged delete",
		"raftstore/store.newRegionManager":              "constructor",
	}, 3)
	for _, w := range ws {
		if FuncName(Root(w.Fn)) == "raftstore/store.newRegionManager" {
			continue
		}
		ls := ComputeLockSets(w.Fn)
		c.Decide(ls.Holds(w.In, "raftstore/store.regionManager.mu", false), r1, FuncName(w.Fn)+"#"+w.Kind+":metaByID@mu", w.In.Pos(), 1, "under regionManager.mu", "the region catalog is mutated without regionManager.mu")
	}

	const r2 = "K1.validate-log-then-install"
	c.Rule(r2, "regionManager.updateRegion: validRegionStateTransition (true edge) → manifest.LogRegionUpdate()==nil → the map store; removeRegion: tombstone update → manifest.LogRegionDelete()==nil → delete; state transitions only move forward (New→Running→Removing→Tombstone) with a rejecting default")
	if fn := c.Fn("raftstore/store", "regionManager.updateRegion"); fn != nil {
		stores := fieldStoresIn(fn, false, "raftstore/store.regionManager", "metaByID")
		c.Decide(len(stores) == 1, r2, key(fn, "single-install"), fn.Pos(), 1, "one install site", fmt.Sprintf("%d install sites", len(stores)))
		lg := Calls(fn, false, Named("manifest.(*Manager).LogRegionUpdate"))
		for i, st := range stores {
			g, _ := guardedByCall(fn, st, Named("raftstore/store.validRegionStateTransition"), true)
			c.Decide(g, r2, key(fn, fmt.Sprintf("install[%d]<-validTransition", i+1)), st.Pos(), 2, "installed only on the valid-transition edge", "a region update is installed without passing validRegionStateTransition")
			succOK(c, r2, key(fn, fmt.Sprintf("install[%d]<-ok(LogRegionUpdate)|no-manifest", i+1)), fn, lg, "LogRegionUpdate", st, "catalog install", nilFieldEdges(fn, "raftstore/store.regionManager", "manifest"))
		}
		// the logged value is the installed value (same metaCopy)
	}
	if fn := c.Fn("raftstore/store", "regionManager.removeRegion"); fn != nil {
		var dels []ssa.Instruction
		for _, s := range fieldStoresIn(fn, false, "raftstore/store.regionManager", "metaByID") {
			dels = append(dels, s)
		}
		lg := Calls(fn, false, Named("manifest.(*Manager).LogRegionDelete"))
		for i, d := range dels {
			succOK(c, r2, key(fn, fmt.Sprintf("delete[%d]<-ok(LogRegionDelete)|no-manifest", i+1)), fn, lg, "LogRegionDelete", d, "catalog delete", nilFieldEdges(fn, "raftstore/store.regionManager", "manifest"))
		}
		c.Decide(len(dels) >= 1, r2, key(fn, "has:delete"), fn.Pos(), 1, "delete present", "removeRegion no longer deletes from the catalog")
		// tombstone first
		up := Calls(fn, false, Named("raftstore/store.(*regionManager).updateRegion"))
		for i, l := range lg {
			// every path to LogRegionDelete either saw State==Tombstone or passed a successful tombstone update
			skip := edgeSet{}
			for _, b := range fn.Blocks {
				if ifi := ifOf(b); ifi != nil {
					if bo, ok := ifi.Cond.(*ssa.BinOp); ok && bo.Op == token.NEQ && isFieldLoad(bo.X, "manifest.RegionMeta", "State") {
						skip[[2]*ssa.BasicBlock{b, b.Succs[1]}] = true
					}
				}
			}
			succOK(c, r2, key(fn, fmt.Sprintf("LogRegionDelete[%d]<-tombstone", i+1)), fn, up, "tombstone update", l.(ssa.Instruction), "manifest delete", skip)
		}
	}
	if fn := c.Fn("raftstore/store", "validRegionStateTransition"); fn != nil {
		enumCoverage(c, r2, fn, "manifest", "RegionState", nil)
		// forward-only table: for each `current` case the allowed next set
		want := map[int64][]int64{}
		cs := enumConsts(c, "manifest", "RegionState")
		want[cs["RegionStateNew"]] = []int64{cs["RegionStateRunning"]}
		want[cs["RegionStateRunning"]] = []int64{cs["RegionStateRemoving"], cs["RegionStateTombstone"]}
		want[cs["RegionStateRemoving"]] = []int64{cs["RegionStateTombstone"]}
		want[cs["RegionStateTombstone"]] = []int64{cs["RegionStateTombstone"]}
		got := transitionTable(fn)
		for cur, nexts := range want {
			c.Decide(sameInts(got[cur], nexts), r2, key(fn, fmt.Sprintf("from:%d", cur)), fn.Pos(), 2, fmt.Sprintf("allowed next states %v", got[cur]), fmt.Sprintf("transition table from state %d allows %v, expected %v (states must only move forward)", cur, got[cur], nexts))
		}
		def := false
		for _, r := range Returns(fn) {
			if k, ok := r.Results[0].(*ssa.Const); ok && k.Value != nil && k.Value.String() == "false" {
				def = true
			}
		}
		c.Decide(def, r2, key(fn, "default→false"), fn.Pos(), 1, "unknown states are rejected", "no rejecting default")
	}

	const r3 = "K1.range-change-bumps-epoch"
	c.Rule(r3, "Store.SplitRegion and Store.handleMergeCommand increment Epoch.Version of the region whose StartKey/EndKey they change, before passing it to UpdateRegion; the split key is checked to lie strictly inside the parent range; UpdateRegion/RemoveRegion/SplitRegion are the only routes to regionManager.updateRegion/removeRegion")
	for _, name := range []string{"Store.SplitRegion", "Store.handleMergeCommand"} {
		fn := c.Fn("raftstore/store", name)
		if fn == nil {
			continue
		}
		ups := need(c, r3, fn, false, "UpdateRegion", Named("raftstore/store.(*Store).UpdateRegion"), 1)
		// the first UpdateRegion call (the range change): its argument is loaded from an alloc whose EndKey and Epoch.Version were stored
		if len(ups) == 0 {
			continue
		}
		first := ups[0]
		al := allocOfArg(first.Common().Args[len(first.Common().Args)-1])
		if al == nil {
			c.Undec(r3, key(fn, "UpdateRegion[1]#arg"), first.Pos(), 1, "cannot identify the RegionMeta value passed to the first UpdateRegion")
			continue
		}
		endSet, verInc := false, false
		for _, r := range *al.Referrers() {
			fa, ok := r.(*ssa.FieldAddr)
			if !ok {
				continue
			}
			_, f, _ := FieldOf(fa)
			for _, rr := range *fa.Referrers() {
				switch x := rr.(type) {
				case *ssa.Store:
					if f == "EndKey" || f == "StartKey" {
						if Dominates(x, first.(ssa.Instruction)) || blockReaches(x.Block(), first.Block()) {
							endSet = true
						}
					}
				case *ssa.FieldAddr:
					_, f2, _ := FieldOf(x)
					if f == "Epoch" && f2 == "Version" {
						for _, r3x := range *x.Referrers() {
							if st, ok := r3x.(*ssa.Store); ok {
								if bo, ok := st.Val.(*ssa.BinOp); ok && bo.Op == token.ADD {
									if k, ok := ConstInt(bo.Y); ok && k == 1 && Dominates(st, first.(ssa.Instruction)) {
										verInc = true
									}
								}
							}
						}
					}
				}
			}
		}
		c.Decide(endSet, r3, key(fn, "UpdateRegion[1]#range-changed"), first.Pos(), 2, "this call carries the range change", "cannot find the range change before the first UpdateRegion (anchor drift)")
		c.Decide(verInc, r3, key(fn, "UpdateRegion[1]#Epoch.Version++"), first.Pos(), 2, "the range change is accompanied by Epoch.Version+1 on every path", "the region's key range is changed without incrementing Epoch.Version on every path (stale clients keep a valid epoch)")
	}
	const r3c = "K1.region-update-one-critical-section"
	c.Rule(r3c, "regionManager.updateRegion holds regionManager.mu (write) at the state-transition check, at the manifest record (LogRegionUpdate) and at the install into metaByID, with no unlock in between on the success path: the transition is validated against the state that is current when the update is installed")
	if fn := c.Fn("raftstore/store", "regionManager.updateRegion"); fn != nil {
		ls := ComputeLockSets(fn)
		lock := "raftstore/store.regionManager.mu"
		var sites []ssa.Instruction
		for _, ci := range Calls(fn, false, Named("raftstore/store.validRegionStateTransition", "manifest.(*Manager).LogRegionUpdate")) {
			sites = append(sites, ci.(ssa.Instruction))
		}
		sites = append(sites, fieldMapUpdates(fn, "raftstore/store.regionManager", "metaByID")...)
		all := len(sites) >= 3
		for _, s := range sites {
			if !ls.Holds(s, lock, false) {
				all = false
			}
		}
		// one section: no Unlock of mu between the first and the last site on paths that reach the install
		between := false
		if len(sites) >= 2 {
			first, last := sites[0], sites[len(sites)-1]
			AllInstrs(fn, false, func(in ssa.Instruction) {
				if op := LockOpOf(in); op != nil && op.ID == lock && (op.Op == "Unlock" || op.Op == "RUnlock") && !op.Defer {
					if Dominates(first, in) && blockReaches(in.Block(), last.Block()) && in.Block() != last.Block() {
						between = true
					}
				}
			})
		}
		c.Decide(all && !between, r3c, key(fn, "check+log+install@mu"), fn.Pos(), len(sites)+1, "state check, manifest record and install share one write-locked section", "updateRegion validates the state transition, logs and installs without holding regionManager.mu across all three: two concurrent updates validate against the same old state and are applied in an order no serial execution allows")
	}
	const r3b = "K1.split-merge-preserve-partition"
	c.Rule(r3b, "a split hands the child exactly [split key, parent end): SplitRegion either copies the parent's EndKey into a child that has none or rejects a child EndKey different from the parent's (bytes.Equal test with a rejecting false edge) before the parent is shrunk; a merge forms the union of two ADJACENT ranges: handleMergeCommand moves the target's EndKey only behind `target.EndKey == source.StartKey` and the target's StartKey only behind `source.EndKey == target.StartKey`, and refuses otherwise")
	if fn := c.Fn("raftstore/store", "Store.SplitRegion"); fn != nil {
		inherits, rejects := false, false
		for _, st := range fieldStoresIn(fn, false, "manifest.RegionMeta", "EndKey") {
			sv, ok := st.(*ssa.Store)
			if !ok {
				continue
			}
			// child.EndKey = copy of parent.EndKey
			if call, ok := sv.Val.(*ssa.Call); ok {
				for _, a := range call.Call.Args {
					if fieldNameOf(a) == "EndKey" || (func() bool { sl, ok := a.(*ssa.Slice); return ok && fieldNameOf(sl.X) == "EndKey" })() {
						inherits = true
					}
				}
			}
		}
		for _, eq := range Calls(fn, false, Named("bytes.Equal")) {
			a, b := fieldNameOf(eq.Common().Args[0]), fieldNameOf(eq.Common().Args[1])
			if a == "EndKey" && b == "EndKey" {
				rejects = true
			}
		}
		c.Decide(inherits && rejects, r3b, key(fn, "child-end=parent-end"), fn.Pos(), 2, "the child's end key is the parent's old end key", "SplitRegion does not tie the child's end key to the parent's: a split command that names only the split key creates an unbounded child that overlaps the parent's right neighbours (or an explicit child end beyond the parent's is accepted)")
	}
	if fn := c.Fn("raftstore/store", "Store.handleMergeCommand"); fn != nil {
		// adjacency tests: bytes.Equal(EndKey, StartKey) in both orientations, each dominating the respective range store
		adj := 0
		for _, eq := range Calls(fn, false, Named("bytes.Equal")) {
			a, b := fieldNameOf(eq.Common().Args[0]), fieldNameOf(eq.Common().Args[1])
			if (a == "EndKey" && b == "StartKey") || (a == "StartKey" && b == "EndKey") {
				adj++
			}
		}
		stores := append(fieldStoresIn(fn, false, "manifest.RegionMeta", "EndKey"), fieldStoresIn(fn, false, "manifest.RegionMeta", "StartKey")...)
		guarded := len(stores) > 0
		for _, st := range stores {
			ok := false
			for _, eq := range Calls(fn, false, Named("bytes.Equal")) {
				call, _ := eq.(*ssa.Call)
				if call == nil {
					continue
				}
				for _, b := range fn.Blocks {
					ifi := ifOf(b)
					if ifi == nil {
						continue
					}
					if condMentions(ifi.Cond, call, 3) && EdgeDominates(b, b.Succs[0], st.Block()) {
						ok = true
					}
				}
			}
			if !ok {
				guarded = false
			}
		}
		c.Decide(adj >= 2 && guarded, r3b, key(fn, "merge-only-adjacent"), fn.Pos(), adj+len(stores)+1, "the merged range is the union of two adjacent ranges (either side)", fmt.Sprintf("handleMergeCommand changes the target's range without establishing that the source is adjacent (%d adjacency test(s), range stores guarded: %v): merging the left neighbour leaves its keys uncovered, and an unbounded target collapses to an empty range", adj, guarded))
	}
	if fn := c.Fn("raftstore/store", "Store.SplitRegion"); fn != nil {
		// split key strictly inside: two bytes.Compare guards (>= EndKey rejects, <= StartKey rejects)
		ge, le := false, false
		scan := func(f *ssa.Function) {
			AllInstrs(f, false, func(in ssa.Instruction) {
				bo, ok := in.(*ssa.BinOp)
				if !ok {
					return
				}
				op := bo.Op
				call, isCall := bo.X.(*ssa.Call)
				if !isCall {
					// 0 OP bytes.Compare(..)
					call, isCall = bo.Y.(*ssa.Call)
					op = flipOp(op)
				}
				if !isCall || !Named("bytes.Compare")(call.Common()) {
					return
				}
				// operands: the candidate split key against the parent's EndKey / StartKey; with the
				// arguments swapped the operator mirrors (Compare(end,key) <= 0 ≡ Compare(key,end) >= 0)
				a, b := fieldNameOf(call.Call.Args[0]), fieldNameOf(call.Call.Args[1])
				switch {
				case b == "EndKey" && op == token.GEQ, a == "EndKey" && op == token.LEQ:
					ge = true
				case b == "StartKey" && a != "EndKey" && op == token.LEQ, a == "StartKey" && b != "EndKey" && b != "StartKey" && op == token.GEQ:
					le = true
				case a == "StartKey" && b == "StartKey" && (op == token.LEQ || op == token.GEQ):
					// child.StartKey against parent.StartKey in either argument order
					le = true
				}
			})
		}
		scan(fn)
		for _, ci := range Calls(fn, false, func(cc *ssa.CallCommon) bool { return true }) {
			if h := StaticFn(ci.Common()); h != nil && h.Blocks != nil && h != fn && FuncPkgPath(h) == FuncPkgPath(fn) && len(Calls(h, false, Named("bytes.Compare"))) > 0 {
				c.Touch(h)
				scan(h)
			}
		}
		c.Decide(ge && le, r3, key(fn, "split-key-strictly-inside"), fn.Pos(), 2, "split key must satisfy start < key < end", "the split-key range guards (>= end rejects, <= start rejects) are missing or weakened")
	}
	onlyCallers(c, r3, c.Fn("raftstore/store", "regionManager.updateRegion"), map[string]string{
		"(*raftstore/store.Store).UpdateRegion":              "public entry",
		"(*raftstore/store.regionManager).updateRegionState": "state-only change",
		"(*raftstore/store.regionManager).removeRegion":      "tombstone before delete",
	}, 2)
	onlyCallers(c, r3, c.Fn("raftstore/store", "regionManager.removeRegion"), map[string]string{"(*raftstore/store.Store).RemoveRegion": "public entry"}, 1)
}

func allocOfArg(v ssa.Value) *ssa.Alloc {
	if u, ok := v.(*ssa.UnOp); ok && u.Op == token.MUL {
		if a, ok := u.X.(*ssa.Alloc); ok {
			return a
		}
	}
	return nil
}

func sameInts(a, b []int64) bool {
	if len(a) != len(b) {
		return false
	}
	m := map[int64]int{}
	for _, x := range a {
		m[x]++
	}
	for _, x := range b {
		m[x]--
	}
	for _, v := range m {
		if v != 0 {
			return false
		}
	}
	return true
}

// transitionTable: for `switch current { case A: return next == X || next == Y }`
// returns A → [X, Y].
func transitionTable(fn *ssa.Function) map[int64][]int64 {
	out := map[int64][]int64{}
	if len(fn.Params) < 2 {
		return out
	}
	cur, next := fn.Params[0], fn.Params[1]
	for _, b := range fn.Blocks {
		ifi := ifOf(b)
		if ifi == nil {
			continue
		}
		bo, ok := ifi.Cond.(*ssa.BinOp)
		if !ok || bo.Op != token.EQL || bo.X != cur {
			continue
		}
		k, ok := ConstInt(bo.Y)
		if !ok {
			continue
		}
		// collect next==K comparisons reachable from the case arm before a return, not passing another cur test
		seen := map[*ssa.BasicBlock]bool{}
		var walk func(x *ssa.BasicBlock)
		walk = func(x *ssa.BasicBlock) {
			if seen[x] {
				return
			}
			seen[x] = true
			for _, in := range x.Instrs {
				if nb, ok := in.(*ssa.BinOp); ok && nb.Op == token.EQL && nb.X == next {
					if nk, ok := ConstInt(nb.Y); ok {
						out[k] = append(out[k], nk)
					}
				}
			}
			if xi := ifOf(x); xi != nil {
				if xb, ok := xi.Cond.(*ssa.BinOp); ok && xb.X == cur {
					return
				}
			}
			for _, s := range x.Succs {
				walk(s)
			}
		}
		walk(b.Succs[0])
	}
	return out
}

// condMentions: cond is call, or a boolean combination (phi / not / and-or lowering) that includes it.
func condMentions(cond ssa.Value, call *ssa.Call, depth int) bool {
	if cond == ssa.Value(call) {
		return true
	}
	if depth <= 0 {
		return false
	}
	switch x := cond.(type) {
	case *ssa.UnOp:
		return condMentions(x.X, call, depth-1)
	case *ssa.Phi:
		for _, e := range x.Edges {
			if condMentions(e, call, depth-1) {
				return true
			}
		}
	case *ssa.BinOp:
		return condMentions(x.X, call, depth-1) || condMentions(x.Y, call, depth-1)
	}
	return false
}
