package props

import (
	"fmt"
	"strings"

	"golang.org/x/tools/go/ssa"

	. "nokvsa/core"
)

func init() { register("C09", C09) }

// ackSites classifies every finishCommitRequests call in commitWorker.  Shared by
// C04/C08/C09/C34/C37.
type ackSite struct {
	call     ssa.CallInstruction
	ord      int
	def      ssa.Value // defaultErr operand
	per      ssa.Value // perReqErr operand
	emptyAck bool      // dominated by len(requests)==0
}

// commitWorkerBody: the function that processes one commit batch – commitWorker itself, or the
// same-package function its loop body was moved into (the one that calls applyRequests).
func commitWorkerBody(c *Ctx) *ssa.Function {
	cw := c.Fn("", "DB.commitWorker")
	if cw == nil {
		return nil
	}
	apM := Named("NoKV.(*DB).applyRequests")
	if len(Calls(cw, false, apM)) > 0 {
		return cw
	}
	var body *ssa.Function
	AllInstrs(cw, false, func(in ssa.Instruction) {
		if ci, ok := in.(ssa.CallInstruction); ok && body == nil {
			if h := StaticFn(ci.Common()); h != nil && h.Blocks != nil && FuncPkgPath(h) == FuncPkgPath(cw) && len(Calls(h, false, apM)) > 0 {
				body = h
			}
		}
	})
	if body != nil {
		c.Touch(body)
		return body
	}
	return cw
}

func ackSites(c *Ctx) (*ssa.Function, []ackSite) {
	fn := commitWorkerBody(c)
	if fn == nil {
		return nil, nil
	}
	var out []ackSite
	for i, ci := range Calls(fn, false, Named("NoKV.(*DB).finishCommitRequests")) {
		args := ci.Common().Args // recv, reqs, defaultErr, perReqErr
		if len(args) != 4 {
			c.Errorf("finishCommitRequests signature changed (%d args)", len(args))
			continue
		}
		out = append(out, ackSite{call: ci, ord: i + 1, def: args[2], per: args[3]})
	}
	return fn, out
}

func C09(c *Ctx) {
	c.Note("that reopen succeeds and values are exact; power-loss durability of mmap'd SSTs; crash points inside a syscall")

	// ---- rule 1: sync before ack (def-use on the acknowledged error value) ----------
	const r1 = "K1.sync-before-ack"
	c.Rule(r1, "in DB.commitWorker every finishCommitRequests call that can acknowledge success receives an error value each of whose reaching definitions is (a) the result of wal.Manager.Sync, (b) an error already tested non-nil, or (c) arrives over the false edge of the Options.SyncWrites test; an acknowledgement carrying a per-request error map (which acks the unnamed prefix with nil) must itself lie behind a wal.Sync or the SyncWrites==false edge")
	fn, sites := ackSites(c)
	if fn != nil {
		if len(sites) < 3 {
			c.Fail(r1, key(fn, "has:finishCommitRequests"), fn.Pos(), 1, "expected ≥3 acknowledgement sites, found %d", len(sites))
		}
		syncCalls := Calls(fn, false, Named("wal.(*Manager).Sync"))
		isSyncResult := func(v ssa.Value) bool {
			for _, s := range syncCalls {
				if ErrResult(s) == v {
					return true
				}
			}
			return false
		}
		for _, s := range sites {
			k := key(fn, fmt.Sprintf("ack[%d]", s.ord))
			in := s.call.(ssa.Instruction)
			// empty-batch acknowledgement: nothing was written
			if IsNilConst(s.def) && IsNilConst(s.per) {
				if lenZeroGuard(fn, in) {
					c.Pass(r1, k, s.call.Pos(), 1, "acknowledges an empty batch (dominated by len(requests)==0)")
				} else {
					c.Fail(r1, k, s.call.Pos(), 1, "acknowledges nil unconditionally without any durability point")
				}
				continue
			}
			if !IsNilConst(s.per) {
				// prefix acknowledged with nil: needs its own sync, whose failure is handled
				offEdges := map[[2]*ssa.BasicBlock]bool{}
				for _, b := range fn.Blocks {
					if ifi := ifOf(b); ifi != nil && isFieldLoad(ifi.Cond, "NoKV.Options", "SyncWrites") {
						offEdges[[2]*ssa.BasicBlock{b, b.Succs[1]}] = true
					}
				}
				// only syncs executed after applyRequests count
				var after []ssa.Instruction
				for _, sc := range syncCalls {
					for _, ap := range Calls(fn, false, Named("NoKV.(*DB).applyRequests")) {
						if Dominates(ap.(ssa.Instruction), sc.(ssa.Instruction)) {
							after = append(after, sc.(ssa.Instruction))
						}
					}
				}
				var start ssa.Instruction
				if aps := Calls(fn, false, Named("NoKV.(*DB).applyRequests")); len(aps) > 0 {
					start = aps[0].(ssa.Instruction)
				}
				// a sync that ran only on the apply-success path does not cover the failure path:
				// require that from applyRequests, along paths where its error is non-nil, a Sync precedes the ack
				reach, n := CutReach(fn, start, in, after, mergeEdges(offEdges, applyOKEdges(fn)))
				tested := true
				for _, sc := range syncCalls {
					if Dominates(sc.(ssa.Instruction), in) || len(after) > 0 {
						ev := ErrResult(sc)
						if ev == nil || len(NilEdges(fn, FlowSet(ev))) == 0 {
							if ev == nil || ev.Referrers() == nil || len(*ev.Referrers()) == 0 {
								tested = false
							}
						}
					}
				}
				if !reach && tested {
					c.Pass(r1, k, s.call.Pos(), n, "partial-batch acknowledgement lies behind wal.Sync (or the SyncWrites==false edge) on every path from a failed applyRequests, and the sync result is examined")
				} else if reach {
					c.Fail(r1, k, s.call.Pos(), n, "requests before the failing one are acknowledged with a nil error but no wal.Sync (or SyncWrites==false edge) precedes this acknowledgement")
				} else {
					c.Fail(r1, k, s.call.Pos(), n, "the wal.Sync guarding the partial acknowledgement drops its error")
				}
				continue
			}
			// general case: inspect reaching definitions of the error operand
			facts, bad := 0, ""
			var visit func(v ssa.Value, at *ssa.BasicBlock, from *ssa.BasicBlock, depth int)
			seen := map[ssa.Value]bool{}
			visit = func(v ssa.Value, at, from *ssa.BasicBlock, depth int) {
				facts++
				if depth > 8 || bad != "" {
					return
				}
				if isSyncResult(v) {
					return
				}
				if phi, ok := v.(*ssa.Phi); ok {
					if seen[phi] {
						return
					}
					seen[phi] = true
					for i, e := range phi.Edges {
						visit(e, phi.Block(), phi.Block().Preds[i], depth+1)
					}
					return
				}
				// (b) tested non-nil on the incoming edge
				if from != nil {
					for _, ce := range NilEdges(fn, map[ssa.Value]bool{v: true}) {
						if ce.NonNil[0] == from && ce.NonNil[1] == at {
							return
						}
						if EdgeDominates(ce.NonNil[0], ce.NonNil[1], from) {
							return
						}
					}
					// (c) false edge of the SyncWrites test
					if ifi := ifOf(from); ifi != nil && isFieldLoad(ifi.Cond, "NoKV.Options", "SyncWrites") && from.Succs[1] == at {
						return
					}
				} else if ProvablyNonNil(v, in, 0) {
					return
				}
				bad = fmt.Sprintf("definition %s (%s) reaches the acknowledgement without wal.Sync", v.Name(), AccessPath(v))
			}
			visit(s.def, nil, nil, 0)
			if bad == "" {
				c.Pass(r1, k, s.call.Pos(), facts, "every reaching definition of the acknowledged error is a wal.Sync result, a tested failure, or the SyncWrites==false edge (%d definitions)", facts)
			} else {
				c.Fail(r1, k, s.call.Pos(), facts, "%s", bad)
			}
		}
	}
	// wal.Open is given SyncOnWrite:false ⇒ the explicit Sync is the only durability point (info)

	// ---- rule 2: Flush precedes fsync in wal.Sync / wal.Close ------------------------
	const r2 = "K1.flush-before-fsync"
	c.Rule(r2, "in wal.Manager.Sync and Close the buffered writer's Flush succeeds before the active file's Sync, and (Close) Sync succeeds before the file is closed on the success path")
	flush := Named("(*bufio.Writer).Flush")
	fsync := Named("(vfs.File).Sync")
	for _, name := range []string{"Manager.Sync", "Manager.Close", "Manager.switchSegmentLocked"} {
		f := c.Fn("wal", name)
		if f == nil {
			continue
		}
		beforeOK(c, r2, f, "writer.Flush", flush, "active.Sync", fsync, 1, nilFieldEdges(f, "wal.Manager", "writer"))
	}
	if f := c.Fn("wal", "Manager.switchSegmentLocked"); f != nil {
		// the outgoing segment is synced and closed before the next one is opened
		syncs := Calls(f, false, fsync)
		for i, op := range need(c, r2, f, false, "FS.OpenFileHandle", Named("(vfs.FS).OpenFileHandle"), 1) {
			succOK(c, r2, key(f, fmt.Sprintf("open-next[%d]<-ok(active.Sync)|no-active", i+1)), f, syncs, "active.Sync", op.(ssa.Instruction), "opening the next segment", nilFieldEdges(f, "wal.Manager", "active"))
		}
	}
	if f := c.Fn("wal", "Manager.AppendRecords"); f != nil {
		// SyncOnWrite: Flush then Sync, errors returned
		for _, m := range []Matcher{flush, fsync} {
			for i, x := range Calls(f, false, m) {
				errPropagated(c, r2, key(f, fmt.Sprintf("%s[%d]#error-propagated", CalleeObj(x.Common()).Name(), i+1)), f, x)
			}
		}
		for i, e := range need(c, r2, f, false, "EncodeRecord", Named("wal.EncodeRecord"), 1) {
			errPropagated(c, r2, key(f, fmt.Sprintf("EncodeRecord[%d]#error-propagated", i+1)), f, e)
		}
		for i, e := range need(c, r2, f, false, "ensureCapacity", Named("wal.(*Manager).ensureCapacity"), 1) {
			errPropagated(c, r2, key(f, fmt.Sprintf("ensureCapacity[%d]#error-propagated", i+1)), f, e)
		}
	}
	// success return of Close passes Sync
	if f := c.Fn("wal", "Manager.Close"); f != nil {
		syncs := Calls(f, false, fsync)
		for i, r := range SuccessReturns(f) {
			// early returns for already-closed / no active file are accepted when dominated by those tests
			if closedGuard(f, r) {
				continue
			}
			k := key(f, fmt.Sprintf("success-return[%d]<-active.Sync", i+1))
			succOK(c, r2, k, f, syncs, "active.Sync", r, "success return")
		}
	}

	// ---- rule 3: manifest edit before in-memory install / segment removal ----------
	const r3 = "K1.manifest-before-install"
	c.Rule(r3, "levelManager.flush: LogEdits(fileEdit,pointerEdit)==nil precedes levels[0].add and the post-install RemoveSegment; runCompactDef: LogEdits==nil precedes replaceTables/deleteTables/replaceIngestTables/deleteIngestTables; moveToIngest: LogEdits==nil precedes the in-memory move")
	logEdits := Named("manifest.(*Manager).LogEdits")
	if f := c.Fn("lsm", "levelManager.flush"); f != nil {
		beforeOK(c, r3, f, "LogEdits", logEdits, "levelHandler.add", Named("lsm.(*levelHandler).add"), 1)
		beforeOK(c, r3, f, "LogEdits", logEdits, "setLogPointer", Named("lsm.(*levelManager).setLogPointer"), 1)
		les := Calls(f, false, logEdits)
		for i, rs := range Calls(f, false, Named("wal.(*Manager).RemoveSegment")) {
			k := key(f, fmt.Sprintf("RemoveSegment[%d]<-ok(LogEdits)|empty", i+1))
			if ok, _ := guardedByCall(f, rs.(ssa.Instruction), MethodNamed("utils.Iterator", "Valid"), false); ok {
				c.Pass(r3, k, rs.Pos(), 1, "segment of an empty memtable (dominated by !iter.Valid())")
				continue
			}
			succOK(c, r3, k, f, les, "LogEdits", rs.(ssa.Instruction), "RemoveSegment")
		}
	}
	if f := c.Fn("lsm", "levelManager.runCompactDef"); f != nil {
		install := Named("lsm.(*levelHandler).replaceTables", "lsm.(*levelHandler).deleteTables",
			"lsm.(*levelHandler).replaceIngestTables", "lsm.(*levelHandler).deleteIngestTables")
		beforeOK(c, r3, f, "LogEdits", logEdits, "table install/delete", install, 4)
	}
	if f := c.Fn("lsm", "levelManager.moveToIngest"); f != nil {
		beforeOK(c, r3, f, "LogEdits", logEdits, "ingest.addBatch", Named("lsm.(*ingestBuffer).addBatch"), 1)
		beforeOK(c, r3, f, "LogEdits", logEdits, "level lock (start of in-memory move)", Named("(*sync.RWMutex).Lock"), 2)
	}

	// ---- rule 4: recovery checks before open ---------------------------------------
	const r4 = "K1.verify-before-open"
	c.Rule(r4, "in NoKV.Open, runRecoveryChecks()==nil (via utils.Panic) and AcquireDirLock precede wal.Open, lsm.NewLSM and initVLog; runRecoveryChecks verifies manifest, WAL and every value-log bucket and propagates their errors")
	if f := c.Fn("", "Open"); f != nil {
		rc := Named("NoKV.(*DB).runRecoveryChecks")
		beforeOK(c, r4, f, "runRecoveryChecks", rc, "wal.Open", Named("wal.Open"), 1)
		beforeOK(c, r4, f, "runRecoveryChecks", rc, "lsm.NewLSM", Named("lsm.NewLSM"), 1)
		beforeOK(c, r4, f, "runRecoveryChecks", rc, "initVLog", Named("NoKV.(*DB).initVLog"), 1)
		beforeOK(c, r4, f, "AcquireDirLock", Named("utils.AcquireDirLock"), "runRecoveryChecks", rc, 1)
	}
	if f := c.Fn("", "DB.runRecoveryChecks"); f != nil {
		for _, v := range []string{"manifest.Verify", "wal.VerifyDir", "vlog.VerifyDir"} {
			cs := need(c, r4, f, false, v, Named(v), 1)
			for i, ci := range cs {
				k := key(f, fmt.Sprintf("%s[%d]#error-propagated", v, i+1))
				errPropagated(c, r4, k, f, ci)
			}
		}
	}

	const r6 = "K11.flush-order"
	flushOrderGroup(c, r6)
	headPersistGroup(c, "K12.vlog-head-persisted-on-file-change")
	partialAckCoverageGroup(c, "K1.failed-request-gets-error")
	segmentNamesGroup(c, "K12.segment-name-codec")
	flushNeverSkippedGroup(c, "K11.failed-flush-never-skipped")
	manifestCreateGroup(c, "K2.manifest-created-only-when-absent")
	manifestAppendRollbackGroup(c, "K2.failed-manifest-append-rolled-back")
	compactionOutcomeGroup(c, "K2.compaction-outcome-reported-truthfully")
	vlogRewindGroup(c, "K2.vlog-append-failure-rewound")
	// ---- rule 5: durability results are never discarded ------------------------------
	const r5 = "K8.durability-error-not-dropped"
	c.Rule(r5, "the error result of manifest LogEdit(s)/LogValueLog*, wal Append/AppendRecords/Sync/Rotate, vlog SyncFIDs/SyncActive, File.Sync and File.Truncate is used (not dropped, not blank-assigned) at every call site in non-test module code; frozen exceptions carry a reason")
	durable := Named("manifest.(*Manager).LogEdits", "manifest.(*Manager).LogEdit", "manifest.(*Manager).LogValueLogHead",
		"manifest.(*Manager).LogValueLogDelete", "manifest.(*Manager).LogValueLogUpdate", "manifest.(*Manager).LogRaftPointer",
		"manifest.(*Manager).LogRegionUpdate", "manifest.(*Manager).LogRegionDelete",
		"wal.(*Manager).Append", "wal.(*Manager).AppendRecords", "wal.(*Manager).Sync", "wal.(*Manager).Rotate",
		"vlog.(*Manager).SyncFIDs", "vlog.(*Manager).SyncActive", "vlog.(*Manager).Sync", "(vfs.File).Sync", "(vfs.File).Truncate",
		"(*bufio.Writer).Flush", "lsm.(*LSM).LogValueLogHead", "lsm.(*LSM).LogValueLogDelete", "lsm.(*LSM).LogValueLogUpdate",
		"lsm.(*levelManager).LogValueLogHead", "lsm.(*levelManager).LogValueLogDelete", "lsm.(*levelManager).LogValueLogUpdate")
	exceptions := map[string]string{
		"utils.AcquireDirLock":      "pid text written into the lock file is informational; the lock itself is the flock",
		"utils.tryAcquireDirLock":   "pid text written into the lock file is informational; the lock itself is the flock",
		"(*lsm.levelManager).build": "logs deletes of SSTs already missing from disk; best effort by design, state is re-derived on next open",
	}
	n := 0
	for _, f := range c.P.ModFuncs {
		pk := FuncPkgPath(f)
		if !durablePkgs[pk] {
			continue
		}
		for _, ci := range Calls(f, false, durable) {
			n++
			root := FuncName(Root(f))
			if _, direct := exceptions[root]; !direct {
				// an unexported helper that only the excepted functions call shares their reason
				if via := helperOfAllowed(c, Root(f), exceptions, 2); via != "" {
					root = strings.Split(via, ",")[0]
				}
			}
			k := FuncName(f) + "#" + ObjName(CalleeObj(ci.Common())) + "@" + fmt.Sprint(ordinalIn(f, ci))
			if _, isDefer := ci.(*ssa.Defer); isDefer {
				if why, ok := exceptions[root]; ok {
					c.Pass(r5, k, ci.Pos(), 1, "exception: %s", why)
				} else {
					c.Fail(r5, k, ci.Pos(), 1, "durability call is deferred, its error is lost")
				}
				continue
			}
			if _, isGo := ci.(*ssa.Go); isGo {
				c.Fail(r5, k, ci.Pos(), 1, "durability call runs in a new goroutine, its error is lost")
				continue
			}
			ev := ErrResult(ci)
			used := ev != nil && ev.Referrers() != nil && len(*ev.Referrers()) > 0
			if used {
				c.Pass(r5, k, ci.Pos(), 1, "error result is used")
			} else if why, ok := exceptions[root]; ok {
				c.Pass(r5, k, ci.Pos(), 1, "exception: %s", why)
			} else {
				c.Fail(r5, k, ci.Pos(), 1, "the error result of %s is discarded in %s", ObjName(CalleeObj(ci.Common())), FuncName(f))
			}
		}
	}
	c.Floor(r5, n, 20, "durability call sites")
}

var durablePkgs = map[string]bool{Module: true, Module + "/lsm": true, Module + "/wal": true, Module + "/vlog": true,
	Module + "/manifest": true, Module + "/raftstore/engine": true, Module + "/raftstore/store": true, Module + "/raftstore/peer": true,
	Module + "/file": true, Module + "/pd/storage": true, Module + "/utils": true}

func mergeEdges(a, b map[[2]*ssa.BasicBlock]bool) map[[2]*ssa.BasicBlock]bool {
	out := map[[2]*ssa.BasicBlock]bool{}
	for k := range a {
		out[k] = true
	}
	for k := range b {
		out[k] = true
	}
	return out
}

// applyOKEdges: the err==nil edges of applyRequests' error in commitWorker (the
// success path, which has its own sync handled by the def-use rule).
func applyOKEdges(fn *ssa.Function) map[[2]*ssa.BasicBlock]bool {
	out := map[[2]*ssa.BasicBlock]bool{}
	for _, ap := range Calls(fn, false, Named("NoKV.(*DB).applyRequests")) {
		if ev := ErrResult(ap); ev != nil {
			for _, e := range NilEdges(fn, map[ssa.Value]bool{ev: true}) {
				out[e.Nil] = true
			}
		}
	}
	return out
}

func ordinalIn(fn *ssa.Function, ci ssa.CallInstruction) int {
	o := CalleeObj(ci.Common())
	n := 0
	for _, b := range fn.Blocks {
		for _, in := range b.Instrs {
			if x, ok := in.(ssa.CallInstruction); ok && CalleeObj(x.Common()) == o {
				n++
				if x == ci {
					return n
				}
			}
		}
	}
	return 0
}

// lenZeroGuard: in is dominated by the true edge of len(x)==0.
func lenZeroGuard(fn *ssa.Function, in ssa.Instruction) bool {
	for _, b := range fn.Blocks {
		ifi := ifOf(b)
		if ifi == nil {
			continue
		}
		bo, ok := ifi.Cond.(*ssa.BinOp)
		if !ok {
			continue
		}
		isLen := func(v ssa.Value) bool {
			call, ok := v.(*ssa.Call)
			if !ok {
				return false
			}
			bi, ok := call.Call.Value.(*ssa.Builtin)
			return ok && bi.Name() == "len"
		}
		z := func(v ssa.Value) bool { i, ok := ConstInt(v); return ok && i == 0 }
		if isLen(bo.X) && z(bo.Y) {
			switch bo.Op.String() {
			case "==":
				if EdgeDominates(b, b.Succs[0], in.Block()) {
					return true
				}
			case "!=", ">":
				if EdgeDominates(b, b.Succs[1], in.Block()) {
					return true
				}
			}
		}
	}
	return false
}

// syncOffEdgeDominates: in is dominated by the false edge of the SyncWrites test.
func syncOffEdgeDominates(fn *ssa.Function, in ssa.Instruction) bool {
	for _, b := range fn.Blocks {
		if ifi := ifOf(b); ifi != nil && isFieldLoad(ifi.Cond, "NoKV.Options", "SyncWrites") {
			if EdgeDominates(b, b.Succs[1], in.Block()) {
				return true
			}
		}
	}
	return false
}

// closedGuard: return r is dominated by a test of the receiver's closed/active fields
// taken on the "nothing to do" edge (m.closed true, m.active == nil).
func closedGuard(fn *ssa.Function, r *ssa.Return) bool {
	for _, b := range fn.Blocks {
		ifi := ifOf(b)
		if ifi == nil {
			continue
		}
		if isFieldLoad(ifi.Cond, "wal.Manager", "closed") && EdgeDominates(b, b.Succs[0], r.Block()) {
			return true
		}
		if bo, ok := ifi.Cond.(*ssa.BinOp); ok && bo.Op.String() == "==" && isFieldLoad(bo.X, "wal.Manager", "active") && IsNilConst(bo.Y) &&
			EdgeDominates(b, b.Succs[0], r.Block()) {
			return true
		}
	}
	return false
}

// errPropagated: the error of call ci, when non-nil, reaches a return of fn as the
// error result (directly or wrapped), i.e. the non-nil edge leads to a return that is
// not a success return, OR the value itself is returned.
func errPropagated(c *Ctx, rule, k string, fn *ssa.Function, ci ssa.CallInstruction) bool {
	ev := ErrResult(ci)
	if ev == nil {
		c.Fail(rule, k, ci.Pos(), 1, "error result discarded")
		return false
	}
	fs := FlowSet(ev)
	// direct return of the value
	ei := ErrorResultIndex(fn)
	for _, r := range Returns(fn) {
		if ei >= 0 && ei < len(r.Results) && (fs[r.Results[ei]] || fs[RetVal(r, ei)]) {
			c.Pass(rule, k, ci.Pos(), 1, "error value is returned")
			return true
		}
	}
	succ := map[*ssa.Return]bool{}
	for _, r := range SuccessReturns(fn) {
		succ[r] = true
		// wrapping helper idiom: `return fail(err, "...")` / `return wrap(err)`
		if call, ok := RetVal(r, ei).(*ssa.Call); ok {
			for _, a := range call.Call.Args {
				if fs[a] {
					succ[r] = false
				}
			}
		}
	}
	edges := NilEdges(fn, fs)
	if len(edges) == 0 {
		c.Fail(rule, k, ci.Pos(), 1, "error result is never tested")
		return false
	}
	// from each non-nil edge, some path must lead to a non-success return and no
	// "swallowing" is decided here beyond: at least one error return is reachable and
	// it is a return whose error operand is non-nil.
	facts := 0
	for _, e := range edges {
		seen := map[*ssa.BasicBlock]bool{}
		work := []*ssa.BasicBlock{e.NonNil[1]}
		for len(work) > 0 {
			b := work[len(work)-1]
			work = work[:len(work)-1]
			if seen[b] {
				continue
			}
			seen[b] = true
			facts++
			if len(b.Instrs) > 0 {
				if r, ok := b.Instrs[len(b.Instrs)-1].(*ssa.Return); ok && !succ[r] {
					c.Pass(rule, k, ci.Pos(), facts, "non-nil edge reaches an error return")
					return true
				}
			}
			work = append(work, b.Succs...)
		}
	}
	c.Fail(rule, k, ci.Pos(), facts, "no error return is reachable from the non-nil edge of this call's error")
	return false
}
