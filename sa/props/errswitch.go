package props

import (
	"go/token"
	"sort"
	"strings"

	"golang.org/x/tools/go/ssa"

	. "nokvsa/core"
)

// errSwitch extracts, for the error value produced by the (last) call matching m in
// fn, the classification performed by a `switch err { case nil, io.EOF: ... }` (lowered
// by go/ssa to a chain of equality tests): class → outcome.
// Classes: "nil", the sentinel global's name ("EOF", "ErrPartialRecord", …), "default".
// Outcomes: "ok" (returns a nil error), "error" (returns a provably non-nil error or
// the switched value itself in the default arm), "call:<callee>" (returns the result of
// a call, e.g. Truncate), "sentinel:<name>".
func errSwitch(fn *ssa.Function, m Matcher) (map[string]string, ssa.Value, int) {
	calls := Calls(fn, false, m)
	if len(calls) == 0 {
		return nil, nil, 0
	}
	v := calls[len(calls)-1].Value()
	if v == nil {
		return nil, nil, 0
	}
	out := map[string]string{}
	facts := 0
	ei := ErrorResultIndex(fn)
	classify := func(b *ssa.BasicBlock) string {
		// follow straight-line jumps to a return
		seen := map[*ssa.BasicBlock]bool{}
		for b != nil && !seen[b] {
			seen[b] = true
			if len(b.Instrs) == 0 {
				return "?"
			}
			// an arm that performs a fallible action and checks its outcome (`if err := f(); err != nil
			// { return err }; …; return nil`) is classified by that action, like `return f()`
			for _, in := range b.Instrs {
				ci, ok := in.(*ssa.Call)
				if !ok {
					continue
				}
				ev := ErrResult(ci)
				if ev == nil || len(NilEdges(fn, FlowSet(ev))) == 0 {
					continue
				}
				if o := CalleeObj(ci.Common()); o != nil {
					return "call:" + o.Name()
				}
			}
			switch t := b.Instrs[len(b.Instrs)-1].(type) {
			case *ssa.Return:
				rv := RetVal(t, ei)
				if IsNilConst(rv) {
					return "ok"
				}
				if rv == v {
					return "error"
				}
				if u, ok := rv.(*ssa.UnOp); ok && u.Op == token.MUL {
					if g, ok := u.X.(*ssa.Global); ok {
						return "sentinel:" + g.Name()
					}
				}
				if call, ok := rv.(*ssa.Call); ok {
					if ProvablyNonNil(rv, t, 0) {
						return "error"
					}
					if o := CalleeObj(call.Common()); o != nil {
						return "call:" + o.Name()
					}
				}
				if ProvablyNonNil(rv, t, 0) {
					return "error"
				}
				return "?"
			case *ssa.Jump:
				b = b.Succs[0]
			default:
				return "?"
			}
		}
		return "?"
	}
	var lastFalse *ssa.BasicBlock
	for _, b := range fn.Blocks {
		ifi := ifOf(b)
		if ifi == nil {
			continue
		}
		bo, ok := ifi.Cond.(*ssa.BinOp)
		if !ok || bo.Op != token.EQL || bo.X != v {
			continue
		}
		facts++
		class := ""
		if IsNilConst(bo.Y) {
			class = "nil"
		} else if u, ok := bo.Y.(*ssa.UnOp); ok && u.Op == token.MUL {
			if g, ok := u.X.(*ssa.Global); ok {
				class = g.Name()
			}
		}
		if class == "" {
			continue
		}
		out[class] = classify(b.Succs[0])
		// the false successor that is not another test of v is the default arm
		f := b.Succs[1]
		isTest := false
		if fi := ifOf(f); fi != nil {
			if fb, ok := fi.Cond.(*ssa.BinOp); ok && fb.X == v && fb.Op == token.EQL {
				isTest = true
			}
		}
		if !isTest {
			lastFalse = f
		}
	}
	if lastFalse != nil {
		out["default"] = classify(lastFalse)
	}
	return out, v, facts
}

func renderSwitch(m map[string]string) string {
	var ks []string
	for k := range m {
		ks = append(ks, k)
	}
	sort.Strings(ks)
	var sb strings.Builder
	for i, k := range ks {
		if i > 0 {
			sb.WriteString(", ")
		}
		sb.WriteString(k + "→" + m[k])
	}
	return sb.String()
}
