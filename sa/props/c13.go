package props

import (
	"fmt"
	"go/token"
	"go/types"
	"slices"

	"golang.org/x/tools/go/ssa"

	. "nokvsa/core"
)

func init() {
	register("C13", C13)
	register("C14", C14)
}

// shortReadClasses: for every io.ReadFull call in fn (in order) the map
// tested-sentinel → returned-sentinel built from `errors.Is(err, X)` tests on that
// call's error whose true edge leads to a return of a sentinel error.
func shortReadClasses(fn *ssa.Function) []map[string]string {
	return shortReadClassesDepth(fn, 1)
}

// isReadSite: a direct io.ReadFull, or a call to a same-package helper that contains one
// and returns an error (the framed read moved into a helper).
func isReadSite(fn *ssa.Function, ci ssa.CallInstruction, depth int) (direct bool, helper *ssa.Function) {
	if Named("io.ReadFull")(ci.Common()) {
		return true, nil
	}
	if depth <= 0 {
		return false, nil
	}
	h := StaticFn(ci.Common())
	if h == nil || h.Blocks == nil || h == fn || FuncPkgPath(h) != FuncPkgPath(fn) || ErrorResultIndex(h) < 0 {
		return false, nil
	}
	if len(Calls(h, false, Named("io.ReadFull"))) == 0 {
		return false, nil
	}
	return false, h
}

func shortReadClassesDepth(fn *ssa.Function, depth int) []map[string]string {
	var out []map[string]string
	ei := ErrorResultIndex(fn)
	for _, rf := range Calls(fn, false, func(cc *ssa.CallCommon) bool { return true }) {
		direct, helper := isReadSite(fn, rf, depth)
		if !direct && helper == nil {
			continue
		}
		m := map[string]string{}
		if helper != nil {
			// classification made inside the helper (its single framed read)
			if hm := shortReadClassesDepth(helper, depth-1); len(hm) == 1 {
				for k, v := range hm[0] {
					m[k] = v
				}
			}
		}
		ev := ErrResult(rf)
		if ev == nil {
			out = append(out, m)
			continue
		}
		fs := FlowSet(ev)
		for _, is := range Calls(fn, false, Named("errors.Is")) {
			args := is.Common().Args
			if len(args) != 2 || !fs[args[0]] {
				continue
			}
			u, ok := args[1].(*ssa.UnOp)
			if !ok {
				continue
			}
			g, ok := u.X.(*ssa.Global)
			if !ok {
				continue
			}
			// find the If on this call's result; follow true edge to a return
			for _, ref := range *is.Value().Referrers() {
				ifi, ok := ref.(*ssa.If)
				if !ok {
					continue
				}
				b := ifi.Block().Succs[0]
				for steps := 0; steps < 4 && b != nil; steps++ {
					if r, ok := b.Instrs[len(b.Instrs)-1].(*ssa.Return); ok {
						if ru, ok := RetVal(r, ei).(*ssa.UnOp); ok {
							if rg, ok := ru.X.(*ssa.Global); ok {
								if helper != nil {
									// re-classification of what the helper returned
									for k, v := range m {
										if v == g.Name() {
											m[k] = rg.Name()
										}
									}
								} else {
									m[g.Name()] = rg.Name()
								}
							}
						}
						break
					}
					if _, ok := b.Instrs[len(b.Instrs)-1].(*ssa.Jump); ok {
						b = b.Succs[0]
					} else {
						break
					}
				}
			}
		}
		// classification delegated to an error-mapping helper: `return …, mapErr(err)` where mapErr
		// turns selected sentinels into another one and passes the rest through
		for _, hc := range Calls(fn, false, func(cc *ssa.CallCommon) bool { return true }) {
			h := StaticFn(hc.Common())
			if h == nil || h.Blocks == nil || h == fn || FuncPkgPath(h) != FuncPkgPath(fn) || len(h.Params) != 1 || !isErrorParam(h.Params[0]) {
				continue
			}
			if !fs[hc.Common().Args[0]] {
				continue
			}
			for k, v := range errorMapOf(h) {
				if _, done := m[k]; !done {
					m[k] = v
				}
			}
		}
		out = append(out, m)
	}
	return out
}

func isErrorParam(p *ssa.Parameter) bool {
	return p.Type().String() == "error"
}

// errorMapOf: for a helper func(err error) error, the sentinels it rewrites:
// errors.Is(err, X) true edge returns sentinel S  ⇒  X → S.
func errorMapOf(h *ssa.Function) map[string]string {
	m := map[string]string{}
	for _, is := range Calls(h, false, Named("errors.Is")) {
		args := is.Common().Args
		if len(args) != 2 || args[0] != ssa.Value(h.Params[0]) {
			continue
		}
		u, ok := args[1].(*ssa.UnOp)
		if !ok {
			continue
		}
		g, ok := u.X.(*ssa.Global)
		if !ok {
			continue
		}
		for _, ref := range *is.Value().Referrers() {
			ifi, ok := ref.(*ssa.If)
			if !ok {
				continue
			}
			b := ifi.Block().Succs[0]
			for steps := 0; steps < 4 && b != nil; steps++ {
				if r, ok := b.Instrs[len(b.Instrs)-1].(*ssa.Return); ok {
					if ru, ok := RetVal(r, 0).(*ssa.UnOp); ok {
						if rg, ok := ru.X.(*ssa.Global); ok {
							m[g.Name()] = rg.Name()
						}
					}
					break
				}
				if _, ok := b.Instrs[len(b.Instrs)-1].(*ssa.Jump); ok {
					b = b.Succs[0]
				} else {
					break
				}
			}
		}
	}
	return m
}

func C13(c *Ctx) {
	c.Note("equality of replayed and appended record sequences; behaviour for every cut position and segment size (only the classification and the framing arithmetic are decided)")
	segmentNamesGroup(c, "K12.segment-name-codec")
	walNoWrapGroup(c, "K12.length-and-segment-id-do-not-wrap")
	const r1 = "K12.framing-constants"
	c.Rule(r1, "EncodeRecord writes a 4-byte length, the type byte, the payload and a 4-byte CRC and returns length+8; every consumer that advances an offset by a record (replayFile, verifySegment, memTable.setBatch, openMemTable, AppendRecords' capacity estimate) uses the same overhead; EntryInfo.Length = len(payload)+1")
	enc := c.Fn("wal", "EncodeRecord")
	overhead := int64(-1)
	if enc != nil {
		for _, r := range Returns(enc) {
			if !IsNilConst(RetVal(r, 1)) {
				continue
			}
			terms, k := flattenAdd(Unwrap(RetVal(r, 0)))
			if len(terms) == 1 {
				overhead = k
			}
		}
		// header and crc arrays are [4]byte
		arr := 0
		AllInstrs(enc, false, func(in ssa.Instruction) {
			if a, ok := in.(*ssa.Alloc); ok {
				if at, ok := a.Type().(*types.Pointer).Elem().(*types.Array); ok && at.Len() == 4 {
					arr++
				}
			}
		})
		c.Decide(overhead == 8 && arr >= 2, r1, key(enc, "returns:length+hdr+crc"), enc.Pos(), 3, "encoder reports length+8 with a 4-byte header and 4-byte CRC", fmt.Sprintf("encoder overhead constant is %d with %d 4-byte fields (expected 8 = 4+4)", overhead, arr))
		// total = len(payload)+1
		ok1 := false
		AllInstrs(enc, false, func(in ssa.Instruction) {
			if bo, ok := in.(*ssa.BinOp); ok && bo.Op == token.ADD {
				if k, ok := ConstInt(bo.Y); ok && k == 1 {
					if call, ok := bo.X.(*ssa.Call); ok {
						if bi, ok := call.Call.Value.(*ssa.Builtin); ok && bi.Name() == "len" {
							ok1 = true
						}
					}
				}
			}
		})
		c.Decide(ok1, r1, key(enc, "length=len(payload)+1"), enc.Pos(), 1, "length field covers type byte + payload", "length field is not len(payload)+1")
	}
	lenM := func(call *ssa.Call) bool { return MethodNamed("wal.RecordIterator", "Length")(call.Common()) }
	type consumer struct{ pkg, fn string }
	for _, cs := range []consumer{{"wal", "Manager.replayFile"}, {"wal", "verifySegment"}, {"lsm", "memTable.setBatch"}, {"lsm", "LSM.openMemTable"}} {
		fn := c.Fn(cs.pkg, cs.fn)
		if fn == nil {
			continue
		}
		found := 0
		AllInstrs(fn, true, func(in ssa.Instruction) {
			bo, ok := in.(*ssa.BinOp)
			if !ok || bo.Op != token.ADD {
				return
			}
			k, ok := ConstInt(bo.Y)
			if !ok {
				return
			}
			src := Unwrap(bo.X)
			isLen := false
			if call, ok := src.(*ssa.Call); ok && lenM(call) {
				isLen = true
			}
			if isFieldLoad(src, "wal.EntryInfo", "Length") {
				isLen = true
			}
			if f, ok := src.(*ssa.Field); ok {
				if o, fl, ok := FieldOf(f); ok && o == "wal.EntryInfo" && fl == "Length" {
					isLen = true
				}
			}
			if !isLen {
				return
			}
			found++
			c.Decide(k == overhead, r1, key(in.Parent(), fmt.Sprintf("record-advance[%d]", found)), in.Pos(), 1, "advances by Length()+8", fmt.Sprintf("advances by Length()+%d but the encoder's overhead is %d", k, overhead))
		})
		c.Decide(found >= 1, r1, key(fn, "has:record-advance"), fn.Pos(), 1, "offset arithmetic found", "no Length()+overhead arithmetic found in "+FuncName(fn))
	}
	if fn := c.Fn("wal", "Manager.AppendRecords"); fn != nil {
		// totalRecordSize = len(payload)+1+4+4 ; EntryInfo.Length = len(payload)+1
		sum := int64(-1)
		AllInstrs(fn, false, func(in ssa.Instruction) {
			if ci, ok := in.(ssa.CallInstruction); ok && Named("wal.(*Manager).ensureCapacity")(ci.Common()) {
				terms, k := flattenAdd(Unwrap(ci.Common().Args[len(ci.Common().Args)-1]))
				if len(terms) == 1 {
					sum = k
				}
			}
		})
		c.Decide(sum == overhead+1, r1, key(fn, "capacity=len+1+overhead"), fn.Pos(), 1, "capacity estimate equals the encoded size", fmt.Sprintf("capacity estimate adds %d, encoded size adds %d", sum, overhead+1))
		// activeSize advances by EncodeRecord's returned n
		encCalls := need(c, r1, fn, false, "EncodeRecord", Named("wal.EncodeRecord"), 1)
		adv := false
		for _, st := range fieldStoresIn(fn, false, "wal.Manager", "activeSize") {
			if s, ok := st.(*ssa.Store); ok && len(encCalls) > 0 {
				if derivedFrom(s.Val, map[ssa.Value]bool{encCalls[0].Value(): true}, 5) {
					adv = true
				}
			}
		}
		c.Decide(adv, r1, key(fn, "activeSize+=n"), fn.Pos(), 1, "active size advances by the encoder's byte count", "activeSize is not advanced by EncodeRecord's returned size")
	}

	const r2 = "K5.short-read-classification"
	c.Rule(r2, "wal.DecodeRecord classifies short reads: zero bytes of header → io.EOF (clean end); a partially read header, body or CRC → ErrPartialRecord (torn tail, truncated by recovery); a zero length → ErrEmptyRecord")
	if fn := c.Fn("wal", "DecodeRecord"); fn != nil {
		cls := shortReadClasses(fn)
		want := []map[string]string{
			{"EOF": "EOF", "ErrUnexpectedEOF": "ErrPartialRecord"},
			{"EOF": "ErrPartialRecord", "ErrUnexpectedEOF": "ErrPartialRecord"},
			{"EOF": "ErrPartialRecord", "ErrUnexpectedEOF": "ErrPartialRecord"},
		}
		names := []string{"header", "body", "crc"}
		c.Decide(len(cls) == 3, r2, key(fn, "readfull-sites"), fn.Pos(), len(cls)+1, "three framed reads", fmt.Sprintf("expected 3 framed reads (header, body, crc; io.ReadFull directly or through a read helper), found %d", len(cls)))
		for i := 0; i < len(cls) && i < 3; i++ {
			c.Decide(sameMap(cls[i], want[i]), r2, key(fn, "short-read:"+names[i]), fn.Pos(), len(cls[i])+1, names[i]+": "+renderSwitch(cls[i]),
				"short read of the "+names[i]+" is classified {"+renderSwitch(cls[i])+"}, expected {"+renderSwitch(want[i])+"}: a tail cut there would not be truncated (or a clean end would be treated as torn)")
		}
	}

	const r3 = "K5.torn-tail-classification"
	c.Rule(r3, "wal.replayFile and wal.verifySegment classify the iterator's terminal error identically (shared with C10); the truncation offset is the running sum over complete records")
	errM := MethodNamed("wal.RecordIterator", "Err")
	rf := c.Fn("wal", "Manager.replayFile")
	vs := c.Fn("wal", "verifySegment")
	if rf != nil && vs != nil {
		a, _, fa := errSwitch(rf, errM)
		b, _, fb := errSwitch(vs, errM)
		wantA := map[string]string{"nil": "ok", "EOF": "ok", "ErrPartialRecord": "ok", "ErrBadChecksum": "error", "default": "error"}
		wantB := map[string]string{"nil": "ok", "EOF": "ok", "ErrPartialRecord": "call:Truncate", "ErrBadChecksum": "error", "default": "error"}
		c.Decide(sameMap(a, wantA), r3, key(rf, "switch(reIter.Err)"), rf.Pos(), fa+1, "replay: "+renderSwitch(a), "replay classifies stream endings as {"+renderSwitch(a)+"}, expected {"+renderSwitch(wantA)+"}")
		c.Decide(sameMap(b, wantB), r3, key(vs, "switch(reIter.Err)"), vs.Pos(), fb+1, "verify: "+renderSwitch(b), "verify classifies stream endings as {"+renderSwitch(b)+"}, expected {"+renderSwitch(wantB)+"}")
		for i, t := range need(c, r3, vs, false, "File.Truncate", Named("(vfs.File).Truncate"), 1) {
			ok, why := offsetAccumulator(t.Common().Args[0], func(call *ssa.Call) bool { return MethodNamed("wal.RecordIterator", "Length")(call.Common()) }, 8)
			c.Decide(ok, r3, key(vs, fmt.Sprintf("Truncate[%d]#offset", i+1)), t.Pos(), 3, "truncation offset = Σ(Length()+8)", "truncation offset is not the running sum of Length()+8: "+why)
		}
	}
	if fn := c.Fn("wal", "RecordIterator.Next"); fn != nil {
		// a decode error is latched into rs.err and stops iteration
		st := fieldStoresIn(fn, false, "wal.RecordIterator", "err")
		c.Decide(len(st) >= 1, r3, key(fn, "latches:err"), fn.Pos(), 1, "decode error is latched", "RecordIterator.Next does not record the decode error")
		dr := need(c, r3, fn, false, "DecodeRecord", Named("wal.DecodeRecord"), 1)
		for _, s := range fieldStoresIn(fn, false, "wal.RecordIterator", "buffer") {
			succOK(c, r3, key(fn, "buffer-update<-ok(DecodeRecord)"), fn, dr, "DecodeRecord", s, "payload publication")
		}
	}

	const r4 = "K1.crc-operands-agree"
	c.Rule(r4, "EncodeRecord hashes the type byte and then the payload and stores hasher.Sum32 big-endian after them; DecodeRecord hashes exactly the bytes it returns (type+payload buffer) and compares with the stored big-endian value")
	if enc != nil {
		hw := Calls(enc, false, Named("(hash.Hash).Write", "(io.Writer).Write", "(hash.Hash32).Write"))
		// hasher writes: receiver derived from kv.CRC32()
		crcCalls := Calls(enc, false, Named("kv.CRC32"))
		n := 0
		var order []string
		for _, w := range hw {
			if len(crcCalls) > 0 && w.Common().Value == crcCalls[0].Value() {
				n++
				arg := w.Common().Args[0]
				if p, ok := arg.(*ssa.Parameter); ok {
					order = append(order, p.Name())
				} else {
					order = append(order, "type")
				}
			}
		}
		c.Decide(n == 2 && len(order) == 2 && order[0] == "type" && order[1] == "payload", r4, key(enc, "crc(type,payload)"), enc.Pos(), n+1, "CRC over type byte then payload", fmt.Sprintf("encoder hashes %v (expected [type payload])", order))
		need(c, r4, enc, false, "BigEndian.PutUint32", Named("(encoding/binary.bigEndian).PutUint32"), 2)
	}
	if dec := c.Fn("wal", "DecodeRecord"); dec != nil {
		n, same := 0, false
		for _, hw := range hashedBuffers(c, dec, 1) {
			n++
			hb, w := hw.buf, hw.at
			// the hashed buffer was filled from the reader (io.ReadFull or a read helper taking
			// the reader and this buffer) before it is hashed, and it is the length-sized allocation
			for _, rd := range Calls(dec, false, func(cc *ssa.CallCommon) bool { return true }) {
				direct, helper := isReadSite(dec, rd, 1)
				if !direct && helper == nil {
					continue
				}
				takes := false
				for _, a := range rd.Common().Args {
					if a == hb {
						takes = true
					}
				}
				if _, isMake := hb.(*ssa.MakeSlice); takes && isMake && Dominates(rd.(ssa.Instruction), w) {
					same = true
				}
			}
		}
		c.Decide(n == 1 && same, r4, key(dec, "crc(buf)"), dec.Pos(), n+1, "CRC over the type+payload buffer that was read", "decoder does not hash exactly the buffer read as type+payload")
		need(c, r4, dec, false, "BigEndian.Uint32", Named("(encoding/binary.bigEndian).Uint32"), 2)
	}

	const r5 = "K11.resume-without-truncation"
	c.Rule(r5, "wal.openLatestSegment resumes the highest existing segment with truncate=false and creates segment 1 with truncate=true only when no segment exists; switchSegmentLocked seeks to the end when not truncating; LSM.recovery re-attaches the newest memtable's segment with truncate=false")
	if fn := c.Fn("wal", "Manager.openLatestSegment"); fn != nil {
		for i, s := range need(c, r5, fn, false, "switchSegmentLocked", Named("wal.(*Manager).switchSegmentLocked"), 2) {
			tr, _ := s.Common().Args[2].(*ssa.Const)
			isTrue := tr != nil && tr.Value != nil && tr.Value.String() == "true"
			empty := lenZeroGuard(fn, s.(ssa.Instruction))
			c.Decide(isTrue == empty, r5, key(fn, fmt.Sprintf("switchSegmentLocked[%d]#truncate", i+1)), s.Pos(), 2,
				fmt.Sprintf("truncate=%v exactly when no segment exists (%v)", isTrue, empty), fmt.Sprintf("truncate=%v on the path where segments exist=%v: an existing log would be wiped / not resumed", isTrue, !empty))
		}
	}
	if fn := c.Fn("wal", "Manager.switchSegmentLocked"); fn != nil {
		sk := need(c, r5, fn, false, "Seek", Named("(vfs.File).Seek", "(io.Seeker).Seek"), 1)
		for i, s := range sk {
			wh, ok := ConstInt(s.Common().Args[len(s.Common().Args)-1])
			c.Decide(ok && wh == 2, r5, key(fn, fmt.Sprintf("Seek[%d]#SeekEnd", i+1)), s.Pos(), 1, "appends after the existing records", "resumed segment is not positioned at its end")
		}
	}
	if fn := c.Fn("lsm", "LSM.recovery"); fn != nil {
		for i, s := range need(c, r5, fn, false, "SwitchSegment", Named("wal.(*Manager).SwitchSegment"), 1) {
			tr, _ := s.Common().Args[len(s.Common().Args)-1].(*ssa.Const)
			c.Decide(tr != nil && tr.Value != nil && tr.Value.String() == "false", r5, key(fn, fmt.Sprintf("SwitchSegment[%d]#truncate=false", i+1)), s.Pos(), 1, "recovered active segment is kept", "recovery re-opens the active segment with truncate=true")
		}
	}
}

// checksumGuard: every return of fn with a nil error is preceded by the "match" edge of
// a comparison one of whose operands derives from a checksum computation (sumM), or by
// a successful call to a verifier (verM).
func checksumGuard(c *Ctx, rule string, fn *ssa.Function, sumM Matcher, verM Matcher, what string) {
	if fn == nil {
		return
	}
	sums := Calls(fn, true, sumM)
	// a same-package helper that returns the computed sum counts as the computation
	for _, v := range valueSites(c, fn, sumM, 1) {
		dup := false
		for _, s := range sums {
			if s == v {
				dup = true
			}
		}
		if !dup {
			sums = append(sums, v)
		}
	}
	match := map[[2]*ssa.BasicBlock]bool{}
	var compares int
	for _, b := range fn.Blocks {
		ifi := ifOf(b)
		if ifi == nil {
			continue
		}
		bo, ok := ifi.Cond.(*ssa.BinOp)
		if !ok || (bo.Op != token.NEQ && bo.Op != token.EQL) {
			continue
		}
		if !(derivedFrom(bo.X, valuesOf(sums), 4) || derivedFrom(bo.Y, valuesOf(sums), 4)) {
			continue
		}
		compares++
		if bo.Op == token.NEQ {
			match[[2]*ssa.BasicBlock{b, b.Succs[1]}] = true
		} else {
			match[[2]*ssa.BasicBlock{b, b.Succs[0]}] = true
		}
	}
	var vers []ssa.CallInstruction
	if verM != nil {
		vers = Calls(fn, false, verM)
	}
	ei := ErrorResultIndex(fn)
	n := 0
	for i, r := range Returns(fn) {
		if fn.Recover != nil && r.Block() == fn.Recover {
			continue
		}
		if ei >= 0 && ProvablyNonNil(RetVal(r, ei), r, 0) {
			continue
		}
		// returns with a nil/zero data result are not "serving data"
		if ei > 0 && IsNilConst(RetVal(r, 0)) {
			continue
		}
		n++
		k := key(fn, fmt.Sprintf("data-return[%d]<-checksum-match", i+1))
		if len(vers) > 0 {
			if succOKq(fn, vers, r) {
				c.Pass(rule, k, r.Pos(), 2, "%s: return lies behind %d successful verification call(s)", what, len(vers))
				continue
			}
		}
		if compares == 0 {
			c.Fail(rule, k, r.Pos(), 1, "%s: no checksum comparison found before returning data", what)
			continue
		}
		// every path to r crosses a match edge: cut the match edges' complements ⇒ remove
		// all non-match successor edges of comparison blocks and see if r is reachable
		// without crossing any match edge
		reach, m := reachAvoidingEdges(fn, r, match)
		c.Decide(!reach, rule, k, r.Pos(), m, what+": data is returned only behind the checksum-match edge", what+": data can be returned on a path that never crosses the checksum-match edge")
	}
	if n == 0 {
		c.Fail(rule, key(fn, "has:data-return"), fn.Pos(), 1, "%s: no data-returning exit found", what)
	}
}

// reachAvoidingEdges: target reachable from entry without crossing any edge in must.
func reachAvoidingEdges(fn *ssa.Function, target ssa.Instruction, must map[[2]*ssa.BasicBlock]bool) (bool, int) {
	return CutReach(fn, nil, target, nil, must)
}

func C14(c *Ctx) {
	c.Note("that CRC32 detects every single-bit flip (a property of the code, assumed); header-field flips that change framing before the CRC is located are classified by the short-read rules, not proven harmless; WAL payload decoding errors inside replay callbacks")
	const r1 = "K1.checksum-dominates-data"
	c.Rule(r1, "every decode path that returns data successfully lies behind the match edge of a checksum comparison (or a successful verifier call): wal.DecodeRecord, kv.DecodeEntryFrom, kv.DecodeValueSlice, lsm.table.loadBlock (block.verifyCheckSum → utils.VerifyChecksum), file.SSTable.initTable (utils.VerifyChecksum before proto.Unmarshal)")
	sum32 := Named("(hash.Hash32).Sum32", "kv.(*HashReader).Sum32", "hash/crc32.Checksum", "utils.CalculateChecksum")
	checksumGuard(c, r1, c.Fn("wal", "DecodeRecord"), sum32, nil, "WAL record")
	checksumGuard(c, r1, c.Fn("kv", "DecodeEntryFrom"), sum32, nil, "entry record")
	checksumGuard(c, r1, c.Fn("kv", "DecodeValueSlice"), sum32, nil, "value-log value slice")
	checksumGuard(c, r1, c.Fn("utils", "VerifyChecksum"), sum32, nil, "block/index checksum helper")
	if fn := c.Fn("lsm", "table.loadBlock"); fn != nil {
		// utils.VerifyChecksum itself, or a helper (block.verifyCheckSum, a trailer decoder)
		// whose success implies that it succeeded
		vc := verifySites(c, fn, Named("utils.VerifyChecksum"), 2)
		c.Decide(len(vc) >= 1, r1, key(fn, "has:block.verifyCheckSum"), fn.Pos(), len(vc)+1, fmt.Sprintf("%d verification site(s) reaching utils.VerifyChecksum", len(vc)), "loadBlock no longer verifies the block checksum (no call whose success implies utils.VerifyChecksum succeeded)")
		// cache insertion and fresh-block return behind verification
		for i, a := range need(c, r1, fn, false, "cache.addBlock", Named("lsm.(*cache).addBlock"), 1) {
			succOK(c, r1, key(fn, fmt.Sprintf("addBlock[%d]<-ok(verifyCheckSum)", i+1)), fn, vc, "verifyCheckSum", a.(ssa.Instruction), "block cache insertion")
		}
		// cache hit is acceptable because addBlock has this single caller
		onlyCallers(c, r1, c.Fn("lsm", "cache.addBlock"), map[string]string{"(*lsm.table).loadBlock": "verified blocks only"}, 1)
		for i, r := range Returns(fn) {
			if ProvablyNonNil(RetVal(r, 1), r, 0) || IsNilConst(RetVal(r, 0)) {
				continue
			}
			k := key(fn, fmt.Sprintf("data-return[%d]", i+1))
			if succOKq(fn, vc, r) {
				c.Pass(r1, k, r.Pos(), 2, "freshly read block returned after verification")
			} else if call, ok := RetVal(r, 0).(*ssa.Extract); ok && Named("lsm.(*cache).getBlock")(call.Tuple.(*ssa.Call).Common()) {
				c.Pass(r1, k, r.Pos(), 2, "cached block (inserted only after verification)")
			} else {
				c.Fail(r1, k, r.Pos(), 2, "a block is returned without checksum verification")
			}
		}
	}
	unverifiedLengthGroup(c, "K6.unverified-length-bounded-by-position")
	valuePointerKeyGroup(c, "K7.value-pointer-key-verified")
	if fn := c.Fn("file", "SSTable.initTable"); fn != nil {
		vc := need(c, r1, fn, false, "utils.VerifyChecksum", Named("utils.VerifyChecksum"), 1)
		for i, u := range need(c, r1, fn, false, "proto.Unmarshal", Named("google.golang.org/protobuf/proto.Unmarshal"), 1) {
			succOK(c, r1, key(fn, fmt.Sprintf("proto.Unmarshal[%d]<-ok(VerifyChecksum)", i+1)), fn, vc, "VerifyChecksum", u.(ssa.Instruction), "index decode")
			// same data operand
			c.Decide(len(vc) > 0 && vc[0].Common().Args[0] == u.Common().Args[0], r1, key(fn, fmt.Sprintf("proto.Unmarshal[%d]#same-bytes", i+1)), u.Pos(), 1, "the verified bytes are the decoded bytes", "VerifyChecksum and proto.Unmarshal operate on different byte slices")
		}
	}

	const r2 = "K3.vlog-reads-verify"
	c.Rule(r2, "value-pointer reads go through vlog.Manager.ReadValue → kv.DecodeValueSlice: file.LogFile.Read is called only by Manager.Read, Manager.Read only by Manager.ReadValue, and ReadValue returns the DecodeValueSlice result with its error propagated")
	// every caller of the raw Manager.Read decodes what it read with kv.DecodeValueSlice and
	// propagates its error (ReadValue itself, or the keyed variant it delegates to)
	if rd := c.Fn("vlog", "Manager.Read"); rd != nil {
		n := 0
		for _, root := range c.P.CallerRoots(rd) {
			n++
			ds := Calls(root, false, Named("kv.DecodeValueSlice"))
			c.Decide(len(ds) >= 1, r2, key(rd, "caller:"+FuncName(root)+"#verifies"), root.Pos(), 2, "the raw read is decoded and verified by kv.DecodeValueSlice", FuncName(root)+" reads raw value-log bytes through Manager.Read without verifying them with kv.DecodeValueSlice")
			for i, d := range ds {
				errPropagated(c, r2, key(root, fmt.Sprintf("DecodeValueSlice[%d]#error-propagated", i+1)), root, d)
			}
		}
		c.Floor(r2, n, 1, "callers of vlog.Manager.Read")
	}
	if fn := c.Fn("vlog", "Manager.ReadValue"); fn != nil {
		vs := verifySites(c, fn, Named("kv.DecodeValueSlice"), 2)
		c.Decide(len(vs) >= 1, r2, key(fn, "has:kv.DecodeValueSlice"), fn.Pos(), len(vs)+1, "ReadValue succeeds only after kv.DecodeValueSlice did (directly or through the keyed variant)", "ReadValue no longer verifies the record with kv.DecodeValueSlice")
	}
	const r3 = "K5.short-read-classification"
	c.Rule(r3, "kv.DecodeEntryFrom classifies a short read of key, value or CRC as ErrPartialEntry and a checksum mismatch as ErrBadChecksum; EntryIterator latches the error; wal.DecodeRecord as in C13")
	if fn := c.Fn("kv", "DecodeEntryFrom"); fn != nil {
		cls := shortReadClasses(fn)
		c.Decide(len(cls) == 3, r3, key(fn, "readfull-sites"), fn.Pos(), len(cls)+1, "three framed reads (key, value, crc)", fmt.Sprintf("expected 3 io.ReadFull sites, found %d", len(cls)))
		want := map[string]string{"EOF": "ErrPartialEntry", "ErrUnexpectedEOF": "ErrPartialEntry"}
		for i, m := range cls {
			c.Decide(sameMap(m, want), r3, key(fn, fmt.Sprintf("short-read[%d]", i+1)), fn.Pos(), len(m)+1, renderSwitch(m), "short read classified {"+renderSwitch(m)+"}, expected {"+renderSwitch(want)+"}")
		}
		bad := 0
		for _, r := range Returns(fn) {
			if u, ok := RetVal(r, 2).(*ssa.UnOp); ok {
				if g, ok := u.X.(*ssa.Global); ok && g.Name() == "ErrBadChecksum" {
					bad++
				}
			}
		}
		c.Decide(bad == 1, r3, key(fn, "returns:ErrBadChecksum"), fn.Pos(), 1, "mismatch reported as ErrBadChecksum", "checksum mismatch is not reported as ErrBadChecksum")
	}
	if fn := c.Fn("wal", "DecodeRecord"); fn != nil {
		cls := shortReadClasses(fn)
		if len(cls) == 3 {
			want := map[string]string{"EOF": "ErrPartialRecord", "ErrUnexpectedEOF": "ErrPartialRecord"}
			for i := 1; i < 3; i++ {
				c.Decide(sameMap(cls[i], want), r3, key(fn, fmt.Sprintf("short-read[%d]", i+1)), fn.Pos(), 2, renderSwitch(cls[i]), "short read classified {"+renderSwitch(cls[i])+"}")
			}
		}
	}
}

type hashWrite struct {
	buf ssa.Value       // the hashed bytes, as a value of the analysed function
	at  ssa.Instruction // where (in the analysed function) the hashing happens
}

// hashedBuffers lists the buffers fn feeds into a pooled CRC hasher (kv.CRC32().Write(buf)),
// directly or through a same-package helper that hashes one of its parameters.
func hashedBuffers(c *Ctx, fn *ssa.Function, depth int) []hashWrite {
	var out []hashWrite
	crc := map[ssa.Value]bool{}
	for _, cc := range Calls(fn, false, Named("kv.CRC32")) {
		crc[cc.Value()] = true
	}
	writeM := Named("(hash.Hash).Write", "(io.Writer).Write", "(hash.Hash32).Write")
	AllInstrs(fn, false, func(in ssa.Instruction) {
		ci, ok := in.(ssa.CallInstruction)
		if !ok {
			return
		}
		if writeM(ci.Common()) && crc[ci.Common().Value] {
			out = append(out, hashWrite{ci.Common().Args[0], in})
			return
		}
		if depth <= 0 {
			return
		}
		h := StaticFn(ci.Common())
		if h == nil || h.Blocks == nil || h == fn || FuncPkgPath(h) != FuncPkgPath(fn) {
			return
		}
		for _, hw := range hashedBuffers(c, h, depth-1) {
			if p, ok := hw.buf.(*ssa.Parameter); ok {
				for i, hp := range h.Params {
					if hp == p && i < len(ci.Common().Args) {
						c.Touch(h)
						out = append(out, hashWrite{ci.Common().Args[i], in})
					}
				}
			}
		}
	})
	return out
}

// unverifiedLengthGroup (C14): the trailing checksum-length word of a data block is the one part
// of the block its checksum does not cover.  A flipped bit there must end in an error, so the
// subtraction that steps the read position back over the checksum must be unreachable whenever
// the length exceeds what is left in front of the length word (comparing it with the length of
// the whole block lets `pos - n` go negative and the slice expression panic).
func unverifiedLengthGroup(c *Ctx, rule string) {
	c.Rule(rule, "in table.loadBlock (or the helper that decodes the block trailer) every `pos - n` computed before the checksum verification, where n is a length word read from the block (kv.BytesToU32, block.chkLen), is unreachable when n > pos and reachable when n <= pos (order-sign evaluation): a corrupted length word yields an error, not a slice-bounds panic")
	fn := c.Fn("lsm", "table.loadBlock")
	if fn == nil {
		return
	}
	isLen := func(v ssa.Value) bool {
		v = Unwrap(v)
		if call, ok := v.(*ssa.Call); ok && Named("kv.BytesToU32")(call.Common()) {
			return true
		}
		return isFieldLoad(v, "lsm.block", "chkLen")
	}
	bodies := []*ssa.Function{fn}
	for _, cs := range Calls(fn, false, func(*ssa.CallCommon) bool { return true }) {
		if cal := cs.Common().StaticCallee(); cal != nil && cal.Blocks != nil && cal.Pkg == fn.Pkg && len(Calls(cal, false, Named("kv.BytesToU32"))) > 0 && !slices.Contains(bodies, cal) {
			bodies = append(bodies, cal)
		}
	}
	n := 0
	for _, f := range bodies {
		vc := verifySites(c, f, Named("utils.VerifyChecksum"), 2)
		AllInstrs(f, false, func(in ssa.Instruction) {
			bo, ok := in.(*ssa.BinOp)
			if !ok || bo.Op != token.SUB || !isLen(bo.Y) {
				return
			}
			// lengths read after a successful verification are covered by the checksum
			if len(vc) > 0 && succOKq(f, vc, bo) {
				return
			}
			n++
			pos := Unwrap(bo.X)
			role := func(v ssa.Value) string {
				if Unwrap(v) == pos {
					return "pos"
				}
				if isLen(v) {
					return "n"
				}
				return ""
			}
			reach := map[int]bool{}
			for _, sg := range []int{-1, 0, 1} {
				signs := map[string]int{}
				SetSign(signs, "n", "pos", sg)
				env := &SignEnv{Role: role, Signs: signs, Depth: 1}
				reach[sg] = env.Reaches(f, bo)
			}
			k := key(f, fmt.Sprintf("pos-len[%d]#unreachable-when-len>pos", n))
			switch {
			case reach[1]:
				c.Fail(rule, k, bo.Pos(), 4, "the read position is stepped back by a length word the checksum does not cover although that length can exceed the position (it is not compared with the bytes left in front of it): a single flipped bit makes the position negative and the block read panics instead of returning an error")
			case !reach[-1] || !reach[0]:
				c.Fail(rule, k, bo.Pos(), 4, "a well-formed block (length word within the bytes in front of it) is rejected")
			default:
				c.Pass(rule, k, bo.Pos(), 4, "reached only when the length word fits in front of the read position (3 orderings evaluated)")
			}
		})
	}
	c.Floor(rule, n, 1, "position-minus-length steps on unverified length words")
}

// walNoWrapGroup (C13): the two 32-bit quantities of the log cannot wrap.  EncodeRecord writes
// nothing for a record whose type+payload length exceeds the 32-bit length field, and a rotation
// never moves from the last segment id to id 0.  Both are decided by order-sign evaluation of the
// guards against the bound, whatever their spelling.
func walNoWrapGroup(c *Ctx, rule string) {
	c.Rule(rule, "wal.EncodeRecord performs no Write when len(payload)+1 exceeds math.MaxUint32 (the framed length would wrap and the rest of the segment become unreadable) and writes otherwise; wal.Manager.rotateLocked does not switch segments when the active id is math.MaxUint32 (the next id would wrap to 0 and be replayed first) and switches otherwise")
	const maxU32 = int64(1)<<32 - 1
	if fn := c.Fn("wal", "EncodeRecord"); fn != nil && len(fn.Params) == 3 {
		payload := fn.Params[2]
		isLenPayload := func(v ssa.Value) bool {
			call, ok := Unwrap(v).(*ssa.Call)
			if !ok {
				return false
			}
			bi, ok := call.Call.Value.(*ssa.Builtin)
			return ok && bi.Name() == "len" && len(call.Call.Args) == 1 && Unwrap(call.Call.Args[0]) == payload
		}
		// total = len(payload) + 1
		isTotal := func(v ssa.Value) bool {
			bo, ok := Unwrap(v).(*ssa.BinOp)
			if !ok || bo.Op != token.ADD {
				return false
			}
			if k, ok := ConstInt(bo.Y); ok && k == 1 && isLenPayload(bo.X) {
				return true
			}
			k, ok := ConstInt(bo.X)
			return ok && k == 1 && isLenPayload(bo.Y)
		}
		// comparisons of the total (or of len(payload) = total-1) with a constant are evaluated
		// concretely for three record sizes: a small one, the largest that fits (total ==
		// MaxUint32) and the smallest that wraps (total == MaxUint32+1)
		type cmpSite struct {
			bo      *ssa.BinOp
			flipped bool
			onTotal bool
			k       int64
		}
		var sites []cmpSite
		AllInstrs(fn, false, func(in ssa.Instruction) {
			bo, ok := in.(*ssa.BinOp)
			if !ok {
				return
			}
			switch bo.Op {
			case token.LSS, token.LEQ, token.GTR, token.GEQ, token.EQL, token.NEQ:
			default:
				return
			}
			if k, isC := ConstInt(Unwrap(bo.Y)); isC && (isTotal(bo.X) || isLenPayload(bo.X)) {
				sites = append(sites, cmpSite{bo, false, isTotal(bo.X), k})
			} else if k, isC := ConstInt(Unwrap(bo.X)); isC && (isTotal(bo.Y) || isLenPayload(bo.Y)) {
				sites = append(sites, cmpSite{bo, true, isTotal(bo.Y), k})
			}
		})
		envFor := func(total int64) *SignEnv {
			signs := map[string]int{}
			atoms := map[*ssa.BinOp]string{}
			for i, st := range sites {
				v := total
				if !st.onTotal {
					v = total - 1
				}
				sg := 0
				if v < st.k {
					sg = -1
				} else if v > st.k {
					sg = 1
				}
				atoms[st.bo] = fmt.Sprintf("cmp%d", i)
				signs[atoms[st.bo]] = sg
			}
			return &SignEnv{Depth: 1, Signs: signs, Classify: func(bo *ssa.BinOp) (string, bool, bool) {
				for _, st := range sites {
					if st.bo == bo {
						return atoms[bo], st.flipped, true
					}
				}
				return "", false, false
			}}
		}
		var writes []ssa.CallInstruction
		for _, w := range Calls(fn, false, Named("(io.Writer).Write")) {
			if w.Common().IsInvoke() && Unwrap(w.Common().Value) == fn.Params[0] {
				writes = append(writes, w)
			}
		}
		c.Floor(rule, len(writes), 1, "writes to the destination in EncodeRecord")
		over, fits := false, true
		for _, w := range writes {
			if envFor(maxU32+1).Reaches(fn, w.(ssa.Instruction)) {
				over = true
			}
			for _, total := range []int64{100, maxU32} {
				if !envFor(total).Reaches(fn, w.(ssa.Instruction)) {
					fits = false
				}
			}
		}
		k := key(fn, "write-unreachable-when-length-exceeds-32-bits")
		switch {
		case over:
			c.Fail(rule, k, fn.Pos(), 3*len(writes)+1, "EncodeRecord writes a record whose type+payload length does not fit the 32-bit length field: the length wraps (0 for exactly 2^32 bytes), the returned size is wrong and replay fails with ErrEmptyRecord on that segment, losing every record behind it")
		case !fits:
			c.Fail(rule, k, fn.Pos(), 3*len(writes)+1, "EncodeRecord refuses a record whose length fits the 32-bit length field")
		default:
			c.Pass(rule, k, fn.Pos(), 3*len(writes)+1, "no write is reachable when the length exceeds the 32-bit field; every write is reachable otherwise (3 orderings x %d writes)", len(writes))
		}
	}
	if fn := c.Fn("wal", "Manager.rotateLocked"); fn != nil {
		isID := func(v ssa.Value) bool { return isFieldLoad(Unwrap(v), "wal.Manager", "activeID") }
		isNext := func(v ssa.Value) bool {
			bo, ok := Unwrap(v).(*ssa.BinOp)
			if !ok || bo.Op != token.ADD {
				return false
			}
			k, ok := ConstInt(bo.Y)
			return ok && k == 1 && isID(bo.X)
		}
		role := func(v ssa.Value) string {
			switch {
			case isID(v):
				return "id"
			case isNext(v):
				return "next"
			}
			if k, ok := ConstInt(Unwrap(v)); ok && k == maxU32 {
				return "max"
			}
			return ""
		}
		sw := Calls(fn, false, Named("wal.(*Manager).switchSegmentLocked"))
		c.Floor(rule, len(sw), 1, "segment switches in rotateLocked")
		scen := func(atMax bool) map[string]int {
			signs := map[string]int{}
			if atMax {
				SetSign(signs, "id", "max", 0)
				SetSign(signs, "next", "0", 0)
				SetSign(signs, "next", "id", -1)
				SetSign(signs, "next", "max", -1)
			} else {
				SetSign(signs, "id", "max", -1)
				SetSign(signs, "next", "0", 1)
				SetSign(signs, "next", "id", 1)
				SetSign(signs, "next", "max", -1)
			}
			return signs
		}
		wrap, normal := false, true
		for _, s := range sw {
			if (&SignEnv{Role: role, Signs: scen(true), Depth: 1}).Reaches(fn, s.(ssa.Instruction)) {
				wrap = true
			}
			if !(&SignEnv{Role: role, Signs: scen(false), Depth: 1}).Reaches(fn, s.(ssa.Instruction)) {
				normal = false
			}
		}
		k := key(fn, "switch-unreachable-when-id-is-last")
		switch {
		case wrap:
			c.Fail(rule, k, fn.Pos(), 2*len(sw)+1, "rotateLocked switches to activeID+1 also when activeID is math.MaxUint32: the id wraps to 0, replay orders the new segment before every existing one and a reopened log resumes the old segment")
		case !normal:
			c.Fail(rule, k, fn.Pos(), 2*len(sw)+1, "rotateLocked refuses to rotate although the next segment id exists")
		default:
			c.Pass(rule, k, fn.Pos(), 2*len(sw)+1, "no switch when the active id is the last one; the switch is reachable otherwise")
		}
	}
}

// valuePointerKeyGroup (C14): a value pointer stored in the LSM is only as good as the bytes it
// points at.  Recovery truncates the active value-log segment at a record with a bad checksum
// and the segment is appended to again, so an old pointer can lead to a later record of another
// key whose checksum is fine.  The read path therefore verifies the record's key: (a) every
// production read of a value through a pointer goes through valueLog.readOf / Manager.ReadValueOf
// with the LSM entry's key (the key-less wrappers have no production caller), and (b) ReadValueOf
// returns a value for a non-empty key only behind the match edge of the key comparison.
func valuePointerKeyGroup(c *Ctx, rule string) {
	c.Rule(rule, "vlog.Manager.ReadValueOf returns success for a non-empty key only when the key stored in the record compares equal (kv.SameKey / bytes.Equal) to it (order-sign evaluation: no nil-error return is reachable on the mismatch edge, one is on the match edge); every production caller of valueLog.readOf and Manager.ReadValueOf passes a key that is not the nil constant, except the key-less wrappers valueLog.read and Manager.ReadValue, which have no production caller")
	rv := c.FnOpt("vlog", "Manager.ReadValueOf")
	if rv == nil || len(rv.Params) < 2 {
		fn := c.Fn("vlog", "Manager.ReadValue")
		pos := token.NoPos
		if fn != nil {
			pos = fn.Pos()
		}
		c.Fail(rule, "(*vlog.Manager).ReadValue#verifies-record-key", pos, 1, "value-log reads decode whatever record a pointer leads to and never compare its key with the key the pointer was stored under: after recovery truncated the active segment at a damaged record and new writes re-used the space, old keys silently return the values of other keys")
		return
	}
	keyP := rv.Params[1]
	isKey := func(v ssa.Value) bool { return Unwrap(v) == keyP }
	mk := func(match Tri) *SignEnv {
		signs := map[string]int{}
		SetSign(signs, "len(key)", "0", 1)
		return &SignEnv{Depth: 1, Signs: signs,
			Role: func(v ssa.Value) string {
				if call, ok := Unwrap(v).(*ssa.Call); ok {
					if bi, ok := call.Call.Value.(*ssa.Builtin); ok && bi.Name() == "len" && len(call.Call.Args) == 1 && isKey(call.Call.Args[0]) {
						return "len(key)"
					}
				}
				return ""
			},
			Bool: func(v ssa.Value) Tri {
				call, ok := Unwrap(v).(*ssa.Call)
				if !ok || len(call.Call.Args) != 2 || !Named("kv.SameKey", "bytes.Equal")(call.Common()) {
					return Unknown
				}
				// the key handed to ReadValueOf, or – when the comparison lives in a helper –
				// a []byte parameter of that helper
				for _, a := range call.Call.Args {
					if isKey(a) {
						return match
					}
					if p, ok := Unwrap(a).(*ssa.Parameter); ok && p.Parent() != rv {
						return match
					}
				}
				return Unknown
			}}
	}
	okOnMismatch, okOnMatch := false, false
	for _, r := range mk(False).ReachableReturns(rv) {
		if len(r.Results) == 3 && IsNilConst(r.Results[2]) {
			okOnMismatch = true
		}
	}
	for _, r := range mk(True).ReachableReturns(rv) {
		if len(r.Results) == 3 && IsNilConst(r.Results[2]) {
			okOnMatch = true
		}
	}
	k := key(rv, "success<-stored-key-matches")
	switch {
	case okOnMismatch:
		c.Fail(rule, k, rv.Pos(), 3, "ReadValueOf can return a value although the key stored in the record differs from the key the pointer was stored under")
	case !okOnMatch:
		c.Fail(rule, k, rv.Pos(), 3, "ReadValueOf never succeeds for a matching key")
	default:
		c.Pass(rule, k, rv.Pos(), 3, "a value is returned for a non-empty key only behind the match edge of the key comparison")
	}
	// callers
	wrappers := map[string]bool{"(*NoKV.valueLog).read": true, "(*vlog.Manager).ReadValue": true}
	n := 0
	for _, name := range [][2]string{{"", "valueLog.readOf"}, {"vlog", "Manager.ReadValueOf"}} {
		fn := c.FnOpt(name[0], name[1])
		if fn == nil {
			continue
		}
		for _, cs := range c.P.CallersOf(fn) {
			if cs.Site == nil || len(cs.Site.Common().Args) < 2 {
				continue
			}
			caller := FuncName(Root(cs.Caller))
			if wrappers[caller] {
				continue
			}
			n++
			arg := cs.Site.Common().Args[1]
			keyed := !IsNilConst(arg)
			if caller == "(*NoKV.valueLog).readOf" {
				// forwards its own key parameter
				keyed = len(cs.Caller.Params) > 1 && Unwrap(arg) == cs.Caller.Params[1]
			}
			c.Decide(keyed, rule, FuncName(cs.Caller)+"#calls:"+name[1]+"#with-key", cs.Site.Pos(), 1, "the read names the key the pointer was stored under", "a value is read through a pointer without naming the key it was stored under (nil key): the record's key is not verified")
		}
	}
	c.Floor(rule, n, 4, "keyed value-log reads (DB.Get path, DB iterator, transaction iterator, Item.ValueCopy)")
	for _, w := range [][2]string{{"", "valueLog.read"}, {"vlog", "Manager.ReadValue"}} {
		if fn := c.FnOpt(w[0], w[1]); fn != nil {
			cnt := 0
			for _, cs := range c.P.CallersOf(fn) {
				if cs.Site != nil {
					cnt++
					c.Fail(rule, FuncName(cs.Caller)+"#calls:"+w[1]+"#key-less", cs.Site.Pos(), 1, "production code reads a value through the key-less wrapper %s: the record's key is not verified", w[1])
				}
			}
			if cnt == 0 {
				c.Pass(rule, key(fn, "no-production-caller"), fn.Pos(), 1, "the key-less wrapper is used by tests only")
			}
		}
	}
}
