package props

import (
	"bytes"
	"fmt"
	"go/ast"
	"go/constant"
	"go/token"
	"os"
	"os/exec"
	"regexp"
	"slices"
	"sort"
	"strconv"
	"strings"

	"golang.org/x/tools/go/ssa"

	. "nokvsa/core"
)

func init() {
	register("C29", C29)
	register("C30", C30)
	register("C31", C31)
}

// stringCases: for a switch over a string tag in fn: const → block reached when equal.
func stringCases(fn *ssa.Function) map[string]*ssa.BasicBlock {
	out := map[string]*ssa.BasicBlock{}
	for _, b := range fn.Blocks {
		ifi := ifOf(b)
		if ifi == nil {
			continue
		}
		bo, ok := ifi.Cond.(*ssa.BinOp)
		if !ok || bo.Op != token.EQL {
			continue
		}
		k, ok := bo.Y.(*ssa.Const)
		if !ok || k.Value == nil || k.Value.Kind() != constant.String {
			continue
		}
		out[constant.StringVal(k.Value)] = b.Succs[0]
	}
	return out
}

// caseRegion: blocks reachable from start without passing another case test of the same switch or the join.
func callsInCase(fn *ssa.Function, start *ssa.BasicBlock, cases map[string]*ssa.BasicBlock) []ssa.CallInstruction {
	stop := map[*ssa.BasicBlock]bool{}
	for _, b := range cases {
		if b != start {
			stop[b] = true
		}
	}
	seen := map[*ssa.BasicBlock]bool{}
	var out []ssa.CallInstruction
	var walk func(b *ssa.BasicBlock)
	walk = func(b *ssa.BasicBlock) {
		if seen[b] || stop[b] {
			return
		}
		seen[b] = true
		for _, in := range b.Instrs {
			if ci, ok := in.(ssa.CallInstruction); ok {
				out = append(out, ci)
			}
		}
		for _, s := range b.Succs {
			walk(s)
		}
	}
	walk(start)
	return out
}

const redisPkg = "cmd/nokv-redis"

func C29(c *Ctx) {
	c.Note("reply equality with a reference Redis model (values, e.g. DECRBY k MinInt64 negates to itself); expiry arithmetic; pipelining and flush behaviour; the semantics of each backend operation")
	const r1 = "K5.dispatch-exhaustive"
	c.Rule(r1, "redisServer.execute has a case for each of the 13 commands named by the property, each behind an arity guard on len(args), routed to its handler with the expected fixed delta for INCR (+1) / DECR (−1) and a negated delta for DECRBY; the default arm answers an error; execute is only called with a non-empty argument list")
	fn := c.Fn(redisPkg, "redisServer.execute")
	if fn != nil {
		cases := stringCases(fn)
		want := map[string]string{"GET": "execGet", "SET": "execSet", "DEL": "execDel", "MGET": "execMGet", "MSET": "execMSet", "EXISTS": "execExists",
			"INCR": "execIncrBy", "DECR": "execIncrBy", "INCRBY": "execIncrBy", "DECRBY": "execIncrBy", "PING": "writeSimpleString", "ECHO": "writeBulk", "QUIT": "writeSimpleString"}
		var names []string
		for n := range want {
			names = append(names, n)
		}
		sort.Strings(names)
		for _, cmd := range names {
			blk, ok := cases[cmd]
			k := key(fn, "case:"+cmd)
			if !ok {
				c.Fail(r1, k, fn.Pos(), 1, "no case for command %s in execute", cmd)
				continue
			}
			calls := callsInCase(fn, blk, cases)
			var handler ssa.CallInstruction
			for _, ci := range calls {
				if o := CalleeObj(ci.Common()); o != nil && o.Name() == want[cmd] {
					handler = ci
				}
			}
			if handler == nil {
				c.Fail(r1, k, blk.Instrs[0].Pos(), len(calls)+1, "command %s is not routed to %s", cmd, want[cmd])
				continue
			}
			c.Pass(r1, k, handler.Pos(), len(calls)+1, "%s → %s", cmd, want[cmd])
			// arity guard: a len(args) comparison in the case region dominating the handler (PING/QUIT have none)
			if cmd != "PING" && cmd != "QUIT" {
				guard := false
				for _, b := range fn.Blocks {
					if ifi := ifOf(b); ifi != nil && blk.Dominates(b) && b.Dominates(handler.Block()) {
						if bo, ok := ifi.Cond.(*ssa.BinOp); ok && isLenOf(bo.X, fn.Params[2]) {
							r0 := blockReaches(b.Succs[0], handler.Block())
							r1x := blockReaches(b.Succs[1], handler.Block())
							if r0 != r1x {
								guard = true
							}
						}
					}
				}
				c.Decide(guard, r1, key(fn, "case:"+cmd+"#arity-guard"), handler.Pos(), 2, "argument count is checked before the handler", "the handler of "+cmd+" is reachable without an argument-count check (index out of range on short commands)")
			}
			switch cmd {
			case "INCR", "DECR":
				d, ok := ConstInt(handler.Common().Args[len(handler.Common().Args)-1])
				wantD := int64(1)
				if cmd == "DECR" {
					wantD = -1
				}
				c.Decide(ok && d == wantD, r1, key(fn, "case:"+cmd+"#delta"), handler.Pos(), 1, fmt.Sprintf("delta %d", wantD), fmt.Sprintf("%s passes delta %d (expected %d)", cmd, d, wantD))
			case "INCRBY", "DECRBY":
				arg := handler.Common().Args[len(handler.Common().Args)-1]
				neg := false
				if u, ok := arg.(*ssa.UnOp); ok && u.Op == token.SUB {
					neg = true
					arg = u.X
				}
				parsed := false
				if ex, ok := arg.(*ssa.Extract); ok {
					if call, ok := ex.Tuple.(*ssa.Call); ok && Named("strconv.ParseInt")(call.Common()) {
						parsed = true
					}
				}
				c.Decide(parsed && neg == (cmd == "DECRBY"), r1, key(fn, "case:"+cmd+"#delta"), handler.Pos(), 2, "delta is the parsed argument"+ifs(neg, ", negated", ""), cmd+" does not pass the parsed integer "+ifs(cmd == "DECRBY", "negated", "unchanged"))
			}
		}
		// default arm → respondError
		var lastFalse *ssa.BasicBlock
		for _, b := range fn.Blocks {
			if ifi := ifOf(b); ifi != nil {
				if bo, ok := ifi.Cond.(*ssa.BinOp); ok && bo.Op == token.EQL {
					if k, ok := bo.Y.(*ssa.Const); ok && k.Value != nil && k.Value.Kind() == constant.String {
						f := b.Succs[1]
						isTest := false
						if fi := ifOf(f); fi != nil {
							if fb, ok := fi.Cond.(*ssa.BinOp); ok && fb.Op == token.EQL {
								if fk, ok := fb.Y.(*ssa.Const); ok && fk.Value != nil && fk.Value.Kind() == constant.String {
									isTest = true
								}
							}
						}
						if !isTest {
							lastFalse = f
						}
					}
				}
			}
		}
		okDef := false
		if lastFalse != nil {
			for _, in := range lastFalse.Instrs {
				if ci, ok := in.(ssa.CallInstruction); ok && Named(redisPkg+".(*redisServer).respondError")(ci.Common()) {
					okDef = true
				}
			}
		}
		c.Decide(okDef, r1, key(fn, "default→error"), fn.Pos(), 1, "unknown commands answer an error", "the default arm of execute no longer answers an error")
	}
	if hc := c.Fn(redisPkg, "redisServer.handleConn"); hc != nil {
		for i, e := range need(c, r1, hc, false, "execute", Named(redisPkg+".(*redisServer).execute"), 1) {
			c.Decide(!lenZeroReaches(hc, e.(ssa.Instruction)), r1, key(hc, fmt.Sprintf("execute[%d]<-len(args)>0", i+1)), e.Pos(), 2, "empty commands are skipped before execute", "execute can be called with an empty argument list (args[0] panics)")
		}
	}

	const r2 = "K5.set-options"
	c.Rule(r2, "execSet recognises exactly NX, XX, EX, PX, EXAT, PXAT (KEEPTTL and anything else are syntax errors), rejects NX together with XX, rejects a second expiry option, requires a positive integer argument for expiry options, and passes nx/xx/expireAt to backend.Set")
	if fn := c.Fn(redisPkg, "redisServer.execSet"); fn != nil {
		cases := stringCases(fn)
		for _, o := range []string{"NX", "XX", "EX", "PX", "EXAT", "PXAT"} {
			_, ok := cases[o]
			c.Decide(ok, r2, key(fn, "option:"+o), fn.Pos(), 1, "recognised", "SET option "+o+" is no longer recognised")
		}
		var extra []string
		for o := range cases {
			switch o {
			case "NX", "XX", "EX", "PX", "EXAT", "PXAT", "KEEPTTL":
			default:
				extra = append(extra, o)
			}
		}
		sort.Strings(extra)
		c.Decide(len(extra) == 0, r2, key(fn, "no-extra-options"), fn.Pos(), len(cases)+1, "no other options accepted", "execSet accepts options outside the property's list: "+strings.Join(extra, ","))
		// NX/XX exclusion: in NX case a test of xx leads to respondError and vice versa
		excl := 0
		for _, pair := range [][2]string{{"NX", "xx"}, {"XX", "nx"}} {
			if blk, ok := cases[pair[0]]; ok {
				if ifi := ifOf(blk); ifi != nil {
					if ph, ok := ifi.Cond.(*ssa.Phi); ok && ph.Comment == pair[1] {
						for _, in := range blk.Succs[0].Instrs {
							if ci, ok := in.(ssa.CallInstruction); ok && Named(redisPkg+".(*redisServer).respondError")(ci.Common()) {
								excl++
							}
						}
					}
				}
			}
		}
		c.Decide(excl == 2, r2, key(fn, "NX-XX-exclusive"), fn.Pos(), 3, "NX and XX are mutually exclusive", "the NX/XX mutual-exclusion checks are missing")
		// single expiry + positive integer
		he, pos := false, false
		for _, b := range fn.Blocks {
			if ifi := ifOf(b); ifi != nil {
				if ph, ok := ifi.Cond.(*ssa.Phi); ok && ph.Comment == "hasExpire" {
					he = true
				}
				if bo, ok := ifi.Cond.(*ssa.BinOp); ok && bo.Op == token.LEQ {
					if z, ok := ConstInt(bo.Y); ok && z == 0 {
						if ex, ok := bo.X.(*ssa.Extract); ok {
							if call, ok := ex.Tuple.(*ssa.Call); ok && Named("strconv.ParseInt")(call.Common()) {
								pos = true
							}
						}
					}
				}
			}
		}
		c.Decide(he, r2, key(fn, "single-expiry-option"), fn.Pos(), 1, "a second expiry option is a syntax error", "the duplicate-expiry check (hasExpire) is gone")
		c.Decide(pos, r2, key(fn, "expiry>0"), fn.Pos(), 1, "non-positive expiry is rejected", "the `num <= 0` rejection of expiry arguments is gone")
		// relative expiry: the stored second must be strictly after the current second, because the
		// engine treats expiresAt <= now as expired.  A deadline obtained by TRUNCATING a finer clock
		// (t.Add(ttl).Unix(), (nowMs+ttl)/1000) can land on the current second and needs the bump guard
		// `deadline <= now.Unix()`; a deadline nowUnix + n with n > 0 cannot.
		isTrunc := func(v ssa.Value) bool {
			v = Unwrap(v)
			if isAdd, _ := unixOf(v); isAdd {
				// t.Add(c).Unix() with a constant c >= 1s is nowUnix+1 or more: not a truncation risk
				if call, ok := v.(*ssa.Call); ok {
					if add, ok := call.Call.Args[0].(*ssa.Call); ok && len(add.Call.Args) == 2 {
						if k, ok := ConstInt(add.Call.Args[1]); ok && k >= 1000000000 {
							return false
						}
					}
				}
				return true
			}
			if bo, ok := v.(*ssa.BinOp); ok && bo.Op == token.QUO {
				if k, ok := ConstInt(bo.Y); ok && k == 1000 && derivesFromClock(bo.X, 5) {
					return true
				}
			}
			return false
		}
		isNow := func(v ssa.Value) bool { _, n := unixOf(v); return n }
		relCmp, relBad, truncs, guarded := 0, "", 0, 0
		AllInstrs(fn, false, func(in ssa.Instruction) {
			if v, ok := in.(ssa.Value); ok && isTrunc(v) {
				// a PXAT-style absolute conversion (time.Unix(sec,nsec).Unix()) is not relative: skip
				truncs++
				has := false
				var refs func(x ssa.Value, d int)
				refs = func(x ssa.Value, d int) {
					if d > 3 || x.Referrers() == nil {
						return
					}
					for _, r := range *x.Referrers() {
						switch y := r.(type) {
						case *ssa.BinOp:
							if (y.Op == token.LEQ && isNow(y.Y)) || (y.Op == token.GEQ && isNow(y.X)) {
								has = true
							}
						case *ssa.Convert:
							refs(y, d+1)
						}
					}
				}
				refs(v, 0)
				if has {
					guarded++
				}
			}
			bo, ok := in.(*ssa.BinOp)
			if !ok {
				return
			}
			switch {
			case isTrunc(bo.X) && isNow(bo.Y):
				relCmp++
				if bo.Op != token.LEQ {
					relBad = "deadline " + bo.Op.String() + " now"
				}
			case isNow(bo.X) && isTrunc(bo.Y):
				relCmp++
				if bo.Op != token.GEQ {
					relBad = "now " + bo.Op.String() + " deadline"
				}
			}
		})
		c.Decide(relBad == "" && guarded == truncs, r2, key(fn, "relative-expiry>now"), fn.Pos(), relCmp+truncs+1, fmt.Sprintf("%d truncated deadline(s), each bumped when it is <= the current second (%d guard(s))", truncs, relCmp),
			fmt.Sprintf("a relative expiry that truncates to the current second can be stored as-is (%d truncated deadline(s), %d guarded with `<= now`, offending guard `%s`): the engine treats expiresAt <= now as expired, so the key is gone when SET replies OK", truncs, guarded, relBad))
		// the duration of a relative expiry must not be built as time.Duration(arg) * unit without an
		// upper bound on arg (overflow wraps into the past): MUL of a ParseInt-derived value by a constant >= 1e6
		mulBad := 0
		AllInstrs(fn, false, func(in ssa.Instruction) {
			bo, ok := in.(*ssa.BinOp)
			if !ok || bo.Op != token.MUL {
				return
			}
			k, isK := ConstInt(bo.Y)
			if !isK || k < 1000000 {
				return
			}
			if ex, ok := Unwrap(bo.X).(*ssa.Extract); ok {
				if call, ok := ex.Tuple.(*ssa.Call); ok && Named("strconv.ParseInt")(call.Common()) {
					// bounded above on a dominating edge?
					bounded := false
					for _, b := range fn.Blocks {
						ifi := ifOf(b)
						if ifi == nil || !b.Dominates(bo.Block()) {
							continue
						}
						if cmp, ok := ifi.Cond.(*ssa.BinOp); ok && (cmp.Op == token.GTR || cmp.Op == token.GEQ) && Unwrap(cmp.X) == ssa.Value(ex) {
							bounded = true
						}
					}
					if !bounded {
						mulBad++
					}
				}
			}
		})
		c.Decide(mulBad == 0, r2, key(fn, "relative-expiry#no-duration-overflow"), fn.Pos(), 1, "no unbounded client integer is scaled into a time.Duration", fmt.Sprintf("%d multiplication(s) scale an unbounded client-supplied integer to nanoseconds: large valid TTLs overflow time.Duration and wrap into the past", mulBad))
		// setArgs passes nx/xx
		for i, s := range need(c, r2, fn, false, "backend.Set", Named("("+redisPkg+".redisBackend).Set"), 1) {
			_ = i
			_ = s
		}
	}

	const r2b = "K5.empty-value-is-a-value"
	c.Rule(r2b, "an empty string is a value, not a missing key: every redisValue.Value of a found key is built non-nil (no append to a nil slice constant, which stays nil for an empty value and is written as the null bulk string); Txn.Get decides found-ness by the lookup error and the meta/expiry bits, never by `Value == nil`")
	nv := 0
	for _, f := range c.P.ModFuncs {
		if FuncPkgPath(f) != Module+"/"+redisPkg {
			continue
		}
		AllInstrs(f, false, func(in ssa.Instruction) {
			st, ok := in.(*ssa.Store)
			if !ok {
				return
			}
			o, fld, ok := FieldOf(st.Addr)
			if !ok || !strings.HasSuffix(o, "redisValue") || fld != "Value" {
				return
			}
			nv++
			bad := false
			if call, ok := st.Val.(*ssa.Call); ok {
				if bi, ok := call.Call.Value.(*ssa.Builtin); ok && bi.Name() == "append" && IsNilConst(call.Call.Args[0]) {
					bad = true
				}
			}
			c.Decide(!bad, r2b, key(f, fmt.Sprintf("redisValue.Value[%d]#non-nil-copy", ordinalOfStore(f, st))), st.Pos(), 1, "the value of a found key is never a nil slice", "a found key's value is copied with append(nil, v...): for the empty string the copy is nil and GET/MGET answer the null bulk string although the key exists")
		})
	}
	c.Floor(r2b, nv, 2, "redisValue.Value stores")
	txnGetFoundnessRule(c, r2b)
	// DECRBY: negating the client's delta needs the MinInt64 guard
	if fn := c.Fn(redisPkg, "redisServer.execute"); fn != nil {
		negs, guardedNegs := 0, 0
		AllInstrs(fn, false, func(in ssa.Instruction) {
			u, ok := in.(*ssa.UnOp)
			if !ok || u.Op != token.SUB {
				return
			}
			ex, ok := Unwrap(u.X).(*ssa.Extract)
			if !ok {
				return
			}
			if call, ok := ex.Tuple.(*ssa.Call); !ok || !Named("strconv.ParseInt")(call.Common()) {
				return
			}
			negs++
			for _, b := range fn.Blocks {
				ifi := ifOf(b)
				if ifi == nil {
					continue
				}
				bo, ok := ifi.Cond.(*ssa.BinOp)
				if !ok || Unwrap(bo.X) != ssa.Value(ex) {
					continue
				}
				if k, ok := bo.Y.(*ssa.Const); ok && k.Value != nil && k.Value.ExactString() == "-9223372036854775808" {
					if (bo.Op == token.EQL && EdgeDominates(b, b.Succs[1], u.Block())) || (bo.Op == token.NEQ && EdgeDominates(b, b.Succs[0], u.Block())) {
						guardedNegs++
					}
				}
			}
		})
		c.Decide(negs == guardedNegs, r2b, key(fn, "negated-delta#MinInt64-guard"), fn.Pos(), negs+1, fmt.Sprintf("%d negation(s) of a client integer, each behind delta != MinInt64", negs), fmt.Sprintf("%d of %d negations of a client-supplied int64 lack the MinInt64 guard: -MinInt64 is MinInt64, so DECRBY with that argument is applied as an addition instead of reporting overflow", negs-guardedNegs, negs))
	}

	const r3 = "K5.backend-agreement"
	c.Rule(r3, "embeddedBackend.IncrBy and raftBackend.IncrBy both guard the addition with current > MaxInt64-delta (delta>0) and current < MinInt64-delta (delta<0) returning errOverflow, and both return errNotInteger when the stored value does not parse; execIncrBy maps errNotInteger and errOverflow to their Redis error messages")
	for _, be := range []string{"embeddedBackend.IncrBy", "raftBackend.IncrBy"} {
		fn := c.Fn(redisPkg, be)
		if fn == nil {
			continue
		}
		hi, lo := false, false
		AllInstrs(fn, true, func(in ssa.Instruction) {
			bo, ok := in.(*ssa.BinOp)
			if !ok {
				return
			}
			if sub, ok := bo.Y.(*ssa.BinOp); ok && sub.Op == token.SUB {
				if k, ok := sub.X.(*ssa.Const); ok && k.Value != nil {
					if bo.Op == token.GTR && k.Value.ExactString() == "9223372036854775807" {
						hi = true
					}
					if bo.Op == token.LSS && k.Value.ExactString() == "-9223372036854775808" {
						lo = true
					}
				}
			}
		})
		c.Decide(hi, r3, key(fn, "guard:current>MaxInt64-delta"), fn.Pos(), 1, "positive overflow guarded", be+" lacks the positive overflow guard")
		c.Decide(lo, r3, key(fn, "guard:current<MinInt64-delta"), fn.Pos(), 1, "negative overflow guarded", be+" lacks the negative overflow guard")
		for _, sentinel := range []string{"errOverflow", "errNotInteger"} {
			n := 0
			AllInstrs(fn, true, func(in ssa.Instruction) {
				if r, ok := in.(*ssa.Return); ok {
					for _, v := range r.Results {
						if u, ok := v.(*ssa.UnOp); ok {
							if g, ok := u.X.(*ssa.Global); ok && g.Name() == sentinel {
								n++
							}
						}
					}
				}
			})
			c.Decide(n >= 1, r3, key(fn, "returns:"+sentinel), fn.Pos(), n+1, sentinel+" is raised", be+" never returns "+sentinel)
		}
	}
	if fn := c.Fn(redisPkg, "redisServer.execIncrBy"); fn != nil {
		seen := map[string]bool{}
		for _, is := range Calls(fn, false, Named("errors.Is")) {
			if u, ok := is.Common().Args[1].(*ssa.UnOp); ok {
				if g, ok := u.X.(*ssa.Global); ok {
					seen[g.Name()] = true
				}
			}
		}
		for _, s := range []string{"errNotInteger", "errOverflow"} {
			c.Decide(seen[s], r3, key(fn, "maps:"+s), fn.Pos(), 1, "error class mapped to its Redis message", "execIncrBy no longer maps "+s)
		}
	}
	// both backends implement every method of redisBackend (type checker guarantees); methods list frozen for evidence
}

func isLenOf(v ssa.Value, of ssa.Value) bool {
	call, ok := v.(*ssa.Call)
	if !ok {
		return false
	}
	bi, ok := call.Call.Value.(*ssa.Builtin)
	if !ok || bi.Name() != "len" {
		// len(args[1:])%2 style
		return false
	}
	a := call.Call.Args[0]
	if a == of {
		return true
	}
	if sl, ok := a.(*ssa.Slice); ok && sl.X == of {
		return true
	}
	return false
}

// lenZeroReaches: target reachable from the true edge of len(x)==0.
func lenZeroReaches(fn *ssa.Function, target ssa.Instruction) bool {
	found := false
	for _, b := range fn.Blocks {
		if ifi := ifOf(b); ifi != nil {
			if bo, ok := ifi.Cond.(*ssa.BinOp); ok && bo.Op == token.EQL {
				if call, ok := bo.X.(*ssa.Call); ok {
					if bi, ok := call.Call.Value.(*ssa.Builtin); ok && bi.Name() == "len" {
						if z, ok := ConstInt(bo.Y); ok && z == 0 && b.Dominates(target.Block()) {
							found = true
							if blockReachesAvoiding(b.Succs[0], target.Block(), map[*ssa.BasicBlock]bool{loopHeaderOf(b): true}) {
								return true
							}
						}
					}
				}
			}
		}
	}
	return !found
}

func C30(c *Ctx) {
	c.Note("fingerprint collisions; retry policy on conflicts")
	raftRMWGroup(c, "K1.raft-rmw-reads-at-its-start-version")
	conflictTestShapeGroup(c, "K2.conflict-test-shape")
	const r1 = "K11.conflict-detection-enabled"
	c.Rule(r1, "cmd/nokv-redis main: the Options value passed to NoKV.Open has DetectConflicts stored true on every path to the call (and no later store of false); NewDefaultOptions is reached through the single-assignment package variable newDefaultOptions")
	if fn := c.Fn(redisPkg, "main"); fn != nil {
		for i, op := range need(c, r1, fn, false, "NoKV.Open", Named("NoKV.Open"), 1) {
			opt := op.Common().Args[0]
			var trues, falses []ssa.Instruction
			AllInstrs(fn, false, func(in ssa.Instruction) {
				st, ok := in.(*ssa.Store)
				if !ok {
					return
				}
				fa, ok := st.Addr.(*ssa.FieldAddr)
				if !ok || fa.X != opt {
					return
				}
				if o, f, _ := FieldOf(fa); o == "NoKV.Options" && f == "DetectConflicts" {
					if k, ok := st.Val.(*ssa.Const); ok && k.Value != nil && k.Value.String() == "true" {
						trues = append(trues, in)
					} else {
						falses = append(falses, in)
					}
				}
			})
			ok, n := MustPrecede(fn, op.(ssa.Instruction), trues)
			c.Decide(ok && len(trues) > 0 && len(falses) == 0, r1, key(fn, fmt.Sprintf("NoKV.Open[%d]#DetectConflicts=true", i+1)), op.Pos(), n+len(trues)+len(falses),
				"the embedded database is opened with conflict detection on", "the embedded gateway opens its database without DetectConflicts=true on every path: concurrent INCR / SET NX transactions are never checked against each other (lost updates)")
		}
	}
	// NewDefaultOptions leaves it false, so the store in main is the only source (info): check the field exists in Options and oracle reads it
	if fn := c.Fn("", "newOracle"); fn != nil {
		reads := fieldReads(fn)
		c.Decide(reads["NoKV.Options.DetectConflicts"], r1, key(fn, "reads:Options.DetectConflicts"), fn.Pos(), 1, "the oracle's conflict detection follows the option", "newOracle no longer derives detectConflicts from Options.DetectConflicts")
	}

	const r2 = "K1.rmw-in-one-transaction"
	c.Rule(r2, "embeddedBackend.IncrBy, Set (NX/XX path) and Del read (txn.Get) and write (txn.SetEntry / txn.Delete) through the txn parameter of one db.Update closure; DB.Update runs fn and then txn.Commit on the same transaction and returns Commit's error")
	for _, name := range []string{"embeddedBackend.IncrBy", "embeddedBackend.Set", "embeddedBackend.Del"} {
		fn := c.Fn(redisPkg, name)
		if fn == nil {
			continue
		}
		found := false
		for _, cl := range fn.AnonFuncs {
			if len(cl.Params) == 0 {
				continue
			}
			// reads and writes on the closure's transaction, directly or through a same-package
			// helper that is handed that transaction
			nGets, getsOK := txnEffects(c, cl, cl.Params[0], Named("NoKV.(*Txn).Get"), 1)
			nSets, setsOK := txnEffects(c, cl, cl.Params[0], Named("NoKV.(*Txn).SetEntry", "NoKV.(*Txn).Delete", "NoKV.(*Txn).Set"), 1)
			if nGets == 0 || nSets == 0 {
				continue
			}
			found = true
			same := getsOK && setsOK
			c.Decide(same, r2, key(cl, "get+set-on-closure-txn"), cl.Pos(), nGets+nSets, "read and write use the closure's transaction", "the read-modify-write does not use the Update closure's transaction for both the read and the write")
			// the closure is passed to db.Update
			upd := false
			for _, u := range Calls(fn, false, Named("NoKV.(*DB).Update")) {
				if mc, ok := u.Common().Args[1].(*ssa.MakeClosure); ok && mc.Fn == cl {
					upd = true
				}
			}
			c.Decide(upd, r2, key(cl, "passed-to:db.Update"), cl.Pos(), 1, "the closure runs inside db.Update", "the read-modify-write closure is not run by db.Update (read-only View or no transaction)")
		}
		c.Decide(found, r2, key(fn, "has:rmw-closure"), fn.Pos(), 1, "read-modify-write closure found", name+" no longer performs its read and write inside one transaction closure")
	}
	if fn := c.Fn("", "DB.Update"); fn != nil {
		cm := need(c, r2, fn, false, "txn.Commit", Named("NoKV.(*Txn).Commit"), 1)
		nt := need(c, r2, fn, false, "NewTransaction(true)", Named("NoKV.(*DB).NewTransaction"), 1)
		if len(cm) > 0 && len(nt) > 0 {
			c.Decide(cm[0].Common().Args[0] == nt[0].Value(), r2, key(fn, "commit-same-txn"), cm[0].Pos(), 1, "the transaction handed to fn is the one committed", "DB.Update commits a different transaction than the one passed to fn")
			upd, _ := nt[0].Common().Args[1].(*ssa.Const)
			c.Decide(upd != nil && upd.Value != nil && upd.Value.String() == "true", r2, key(fn, "update-txn"), nt[0].Pos(), 1, "read-write transaction (reads are tracked)", "DB.Update creates a read-only transaction")
			// commit result is returned
			good := false
			for _, r := range Returns(fn) {
				if RetVal(r, 0) == cm[0].Value() {
					good = true
				}
			}
			c.Decide(good, r2, key(fn, "returns:Commit-error"), fn.Pos(), 1, "a conflict is reported to the caller", "DB.Update drops the error of txn.Commit")
		}
		// fn error → return before commit
		var fnCalls []ssa.CallInstruction
		AllInstrs(fn, false, func(in ssa.Instruction) {
			if call, ok := in.(*ssa.Call); ok && len(fn.Params) > 1 && call.Call.Value == fn.Params[1] {
				fnCalls = append(fnCalls, call)
			}
		})
		for i, m := range cm {
			succOK(c, r2, key(fn, fmt.Sprintf("Commit[%d]<-ok(fn)", i+1)), fn, fnCalls, "fn(txn)", m.(ssa.Instruction), "Commit")
		}
	}
}

var bceRe = regexp.MustCompile(`^(.*\.go):(\d+):(\d+): Found (IsInBounds|IsSliceInBounds)`)

func C31(c *Ctx) {
	c.Note("exact argument parsing of well-formed frames beyond the separator rule below; line length (ReadString grows with the bytes received, which is proportional); slow-loris style resource holding")
	inlineSplitGroup(c, "K2.inline-arguments-split-on-ascii-blanks")
	const r1 = "K7.input-sized-allocation"
	c.Rule(r1, "in cmd/nokv-redis a length parsed from the request (strconv.Atoi) sizes a make() only through min(·, constant) or behind a rejecting comparison")
	fs := taintScan(c.P, map[string]bool{Module + "/cmd/nokv-redis": true})
	n := 0
	ord := map[string]int{}
	for _, f := range fs {
		if f.Kind == "uvarint-n" {
			continue
		}
		root := FuncName(Root(f.Fn))
		if !strings.Contains(root, "parseRESP") && !strings.Contains(root, "readBulk") && !strings.Contains(root, "readLine") {
			continue
		}
		n++
		c.Touch(Root(f.Fn))
		ord[root+f.Kind]++
		k := fmt.Sprintf("%s#%s[%d]", root, f.Kind, ord[root+f.Kind])
		if f.OK {
			c.Pass(r1, k, f.In.Pos(), 2, "%s: bounded", f.Detail)
		} else {
			c.Fail(r1, k, f.In.Pos(), 2, "%s: a client-declared length sizes this allocation without a bound (a few bytes of input reserve gigabytes)", f.Detail)
		}
	}
	// parameters carrying a declared length into helpers (readBulk's l)
	if rb := c.FnOpt(redisPkg, "readBulk"); rb != nil {
		AllInstrs(rb, false, func(in ssa.Instruction) {
			ms, ok := in.(*ssa.MakeSlice)
			if !ok {
				return
			}
			n++
			ord["readBulk"]++
			bounded := true
			for _, sz := range []ssa.Value{ms.Len, ms.Cap} {
				if !derivesFromParam(sz, rb.Params[len(rb.Params)-1], 6) {
					continue
				}
				call, isCall := Unwrap(sz).(*ssa.Call)
				if !isCall {
					bounded = false
					continue
				}
				bi, isB := call.Call.Value.(*ssa.Builtin)
				hasConst := false
				for _, a := range call.Call.Args {
					if _, ok := a.(*ssa.Const); ok {
						hasConst = true
					}
				}
				if !isB || bi.Name() != "min" || !hasConst {
					bounded = false
				}
			}
			c.Decide(bounded, r1, fmt.Sprintf("%s#alloc[%d]", FuncName(rb), ord["readBulk"]), in.Pos(), 2, "sized by min(declared, constant)", "readBulk allocates from the declared length without min(·, constant)")
		})
	}
	c.Floor(r1, n, 2, "input-sized allocation sites in the RESP parser")

	const r2 = "K15.no-unproven-bounds-check"
	c.Rule(r2, "the Go compiler's prove pass (go build -gcflags=-d=ssa/check_bce/debug=1) leaves no unproven bounds check in parseRESP, readLine, expectCRLF and readBulk beyond the frozen list {parseRESP: 1 IsInBounds inlined from bufio.(*Reader).UnreadByte; readBulk: 1 IsSliceInBounds for buf[start:] where start is the length before a growing append}")
	bceCheck(c, r2)

	const r3 = "K2.index-behind-arity"
	c.Rule(r3, "constant-index accesses args[i] in execute / execSet lie behind the arity guard of their case (C29 K5) and execute is never called with an empty argument list")
	if hc := c.Fn(redisPkg, "redisServer.handleConn"); hc != nil {
		for i, e := range need(c, r3, hc, false, "execute", Named(redisPkg+".(*redisServer).execute"), 1) {
			c.Decide(!lenZeroReaches(hc, e.(ssa.Instruction)), r3, key(hc, fmt.Sprintf("execute[%d]<-len(args)>0", i+1)), e.Pos(), 2, "empty commands are skipped before execute", "execute can be called with an empty argument list (args[0] panics)")
		}
	}
	if fn := c.Fn(redisPkg, "redisServer.execute"); fn != nil {
		// every IndexAddr on args with constant index k>0 is dominated by a rejecting len(args) comparison
		AllInstrs(fn, false, func(in ssa.Instruction) {
			ia, ok := in.(*ssa.IndexAddr)
			if !ok || ia.X != fn.Params[2] {
				return
			}
			k, ok := ConstInt(ia.Index)
			if !ok || k == 0 {
				return
			}
			guard := false
			for _, b := range fn.Blocks {
				if ifi := ifOf(b); ifi != nil && b.Dominates(ia.Block()) {
					if bo, ok := ifi.Cond.(*ssa.BinOp); ok && isLenOf(bo.X, fn.Params[2]) {
						r0 := blockReaches(b.Succs[0], ia.Block())
						r1x := blockReaches(b.Succs[1], ia.Block())
						if r0 != r1x {
							guard = true
						}
					}
				}
			}
			c.Decide(guard, r3, key(fn, fmt.Sprintf("args[%d]@%s", k, c.P.Pos(in.Pos()))[:0]+fmt.Sprintf("args[%d]#%d", k, ordinalIdx(fn, ia))), in.Pos(), 2, "index is behind an arity guard", fmt.Sprintf("args[%d] is read without a dominating len(args) guard", k))
		})
	}
}

func ordinalIdx(fn *ssa.Function, ia *ssa.IndexAddr) int {
	n := 0
	for _, b := range fn.Blocks {
		for _, in := range b.Instrs {
			if x, ok := in.(*ssa.IndexAddr); ok && x.X == ia.X {
				n++
				if x == ia {
					return n
				}
			}
		}
	}
	return 0
}

func bceCheck(c *Ctx, rule string) {
	pk := c.P.ByPath[Module+"/cmd/nokv-redis"]
	if pk == nil {
		c.Errorf("UNRESOLVED-ANCHOR package cmd/nokv-redis")
		return
	}
	cmd := exec.Command("go", "build", "-o", os.DevNull, "-gcflags=-d=ssa/check_bce/debug=1", "./cmd/nokv-redis")
	cmd.Dir = c.P.Dir
	cmd.Env = c.P.Env
	var buf bytes.Buffer
	cmd.Stdout = &buf
	cmd.Stderr = &buf
	if err := cmd.Run(); err != nil && !strings.Contains(buf.String(), "Found Is") {
		c.Errorf("K15: go build with check_bce failed: %v: %s", err, firstLine(buf.String()))
		return
	}
	// function spans from the AST
	type span struct {
		name       string
		start, end int
		file       string
	}
	var spans []span
	for _, f := range pk.Syntax {
		fname := c.P.Fset.Position(f.Pos()).Filename
		for _, d := range f.Decls {
			if fd, ok := d.(*ast.FuncDecl); ok && fd.Body != nil {
				spans = append(spans, span{fd.Name.Name, c.P.Fset.Position(fd.Pos()).Line, c.P.Fset.Position(fd.End()).Line, fname})
			}
		}
	}
	counts := map[string]map[string]int{}
	total := 0
	for _, line := range strings.Split(buf.String(), "\n") {
		m := bceRe.FindStringSubmatch(strings.TrimSpace(line))
		if m == nil {
			continue
		}
		total++
		ln, _ := strconv.Atoi(m[2])
		for _, s := range spans {
			if strings.HasSuffix(s.file, m[1]) && ln >= s.start && ln <= s.end {
				if counts[s.name] == nil {
					counts[s.name] = map[string]int{}
				}
				counts[s.name][m[4]]++
			}
		}
	}
	// the parser = parseRESP and the package functions it (transitively) calls; the allowance is for
	// the parser as a whole, so inlining a helper or splitting one off does not move the verdict
	group := map[string]bool{}
	if root := c.Fn(redisPkg, "parseRESP"); root != nil {
		var walk func(f *ssa.Function, depth int)
		walk = func(f *ssa.Function, depth int) {
			if f == nil || group[f.Name()] || depth > 3 {
				return
			}
			group[f.Name()] = true
			c.Touch(f)
			AllInstrs(f, true, func(in ssa.Instruction) {
				if ci, ok := in.(ssa.CallInstruction); ok {
					if h := StaticFn(ci.Common()); h != nil && h.Blocks != nil && FuncPkgPath(h) == FuncPkgPath(root) {
						walk(h, depth+1)
					}
				}
			})
		}
		walk(root, 0)
	}
	allowed := map[string]int{"IsInBounds": 1, "IsSliceInBounds": 1}
	got := map[string]int{}
	var names []string
	for fnName := range group {
		names = append(names, fnName)
		for kind, n := range counts[fnName] {
			got[kind] += n
		}
	}
	sort.Strings(names)
	ok := true
	for kind, n := range got {
		if n > allowed[kind] {
			ok = false
		}
	}
	c.Decide(ok, rule, redisPkg+".parseRESP#unproven-bounds-checks", pk.Syntax[0].Pos(), len(got)+len(names)+1, fmt.Sprintf("unproven checks %v in the RESP parser %v within the frozen allowance %v", got, names, allowed), fmt.Sprintf("the compiler cannot prove %v in the RESP parser %v (allowance %v): an input-dependent index or slice bound lost its guard", got, names, allowed))
	if total == 0 {
		c.Errorf("K15: the compiler printed no bounds-check diagnostics at all (flag not honoured?)")
	}
}

func firstLine(s string) string {
	if i := strings.IndexByte(s, '\n'); i >= 0 {
		return s[:i]
	}
	return s
}

// unixOf classifies v (through conversions) as t.Add(d).Unix() (isAdd) or time.Now().Unix() /
// now.Unix() for a plain time value (isNow).
func unixOf(v ssa.Value) (isAdd, isNow bool) {
	call, ok := Unwrap(v).(*ssa.Call)
	if !ok || !Named("(time.Time).Unix")(call.Common()) || len(call.Call.Args) == 0 {
		return false, false
	}
	recv := call.Call.Args[0]
	if u, ok := recv.(*ssa.UnOp); ok && u.Op == token.MUL {
		// spilled local: look at the single store
		if al, ok := u.X.(*ssa.Alloc); ok {
			for _, r := range *al.Referrers() {
				if st, ok := r.(*ssa.Store); ok && st.Addr == al {
					recv = st.Val
				}
			}
		}
	}
	if rc, ok := recv.(*ssa.Call); ok {
		if Named("(time.Time).Add")(rc.Common()) {
			return true, false
		}
		if Named("time.Now")(rc.Common()) {
			return false, true
		}
	}
	return false, false
}

// derivesFromClock: v is computed (through +, -, conversions, phis) from a time.Time clock
// reading (Unix, UnixMilli, UnixNano).
func derivesFromClock(v ssa.Value, depth int) bool {
	if depth <= 0 {
		return false
	}
	switch x := Unwrap(v).(type) {
	case *ssa.Call:
		return Named("(time.Time).UnixMilli", "(time.Time).UnixNano", "(time.Time).Unix", "(time.Time).UnixMicro")(x.Common())
	case *ssa.BinOp:
		return derivesFromClock(x.X, depth-1) || derivesFromClock(x.Y, depth-1)
	case *ssa.Phi:
		for _, e := range x.Edges {
			if derivesFromClock(e, depth-1) {
				return true
			}
		}
	}
	return false
}

func ordinalOfStore(f *ssa.Function, st *ssa.Store) int {
	n := 0
	for _, b := range f.Blocks {
		for _, in := range b.Instrs {
			if s2, ok := in.(*ssa.Store); ok {
				if o, fld, ok := FieldOf(s2.Addr); ok && strings.HasSuffix(o, "redisValue") && fld == "Value" {
					n++
					if s2 == st {
						return n
					}
				}
			}
		}
	}
	return 0
}

// returnsSentinelAnywhere: some return within a few blocks of b returns the named sentinel error.
func returnsSentinelAnywhere(fn *ssa.Function, b *ssa.BasicBlock, name string, depth int) bool {
	if depth < 0 || b == nil {
		return false
	}
	ei := ErrorResultIndex(fn)
	if len(b.Instrs) > 0 {
		if r, ok := b.Instrs[len(b.Instrs)-1].(*ssa.Return); ok {
			if u, ok := RetVal(r, ei).(*ssa.UnOp); ok {
				if g, ok := u.X.(*ssa.Global); ok && g.Name() == name {
					return true
				}
			}
			return false
		}
	}
	for _, s := range b.Succs {
		if returnsSentinelAnywhere(fn, s, name, depth-1) {
			return true
		}
	}
	return false
}

// txnGetFoundnessRule: Txn.Get must not use `Value == nil` to decide that a key is missing.
func txnGetFoundnessRule(c *Ctx, rule string) {
	if fn := c.Fn("", "Txn.Get"); fn != nil {
		bad := false
		for _, b := range fn.Blocks {
			ifi := ifOf(b)
			if ifi == nil {
				continue
			}
			var visit func(v ssa.Value) bool
			visit = func(v ssa.Value) bool {
				bo, ok := v.(*ssa.BinOp)
				if !ok {
					return false
				}
				if bo.Op == token.EQL && IsNilConst(bo.Y) && isFieldLoad(bo.X, "kv.Entry", "Value") {
					return true
				}
				return false
			}
			if visit(ifi.Cond) && returnsSentinelAnywhere(fn, b.Succs[0], "ErrKeyNotFound", 3) {
				bad = true
			}
		}
		c.Decide(!bad, rule, key(fn, "found-ness#not-by-nil-value"), fn.Pos(), 1, "Txn.Get does not treat a nil value as a missing key", "Txn.Get reports ErrKeyNotFound when the entry's value is nil: an entry holding the empty string reads back from an SST with a nil value, so a live key turns invisible to transactional reads after a flush")
	}
}

// txnEffects counts the calls matched by m that f performs on a transaction – directly or in a
// same-package helper it hands a transaction to – and reports whether every one of them is
// made on txn (the closure's own transaction).
func txnEffects(c *Ctx, f *ssa.Function, txn ssa.Value, m Matcher, depth int) (int, bool) {
	n, all := 0, true
	AllInstrs(f, false, func(in ssa.Instruction) {
		ci, ok := in.(ssa.CallInstruction)
		if !ok {
			return
		}
		if m(ci.Common()) {
			n++
			if len(ci.Common().Args) == 0 || ci.Common().Args[0] != txn {
				all = false
			}
			return
		}
		if depth <= 0 {
			return
		}
		h := StaticFn(ci.Common())
		if h == nil || h.Blocks == nil || h == f || FuncPkgPath(h) != FuncPkgPath(f) {
			return
		}
		for i, hp := range h.Params {
			if TypeName(hp.Type()) != "NoKV.Txn" || i >= len(ci.Common().Args) {
				continue
			}
			hn, hall := txnEffects(c, h, hp, m, depth-1)
			if hn == 0 {
				continue
			}
			c.Touch(h)
			n += hn
			if !hall || ci.Common().Args[i] != txn {
				all = false
			}
		}
	})
	return n, all
}

// raftRMWGroup (C30): the raft backend's read-modify-write commands (INCR family, SET NX/XX) are
// Percolator transactions driven by the gateway.  Prewrite rejects only commits at or above the
// start version, so the value must be read at the very version the write is prewritten with; a
// read at one reserved timestamp followed by a write that reserves a later start version lets a
// commit in between go unnoticed (lost update, two successful SET NX).  And a read that met a
// lock must come back as a conflict, not as an empty value.
func raftRMWGroup(c *Ctx, rule string) {
	c.Rule(rule, "in raftBackend.IncrBy and raftBackend.Set every body (function or closure) that reads the key and then writes it reads with raftBackend.getAtVersion(key, v) and writes with raftBackend.mutateAt(v, …) on the same value v – no Get/MGet (fresh timestamp) before a write, no mutate/Set/deleteKeys-style write (fresh start version) after a read; mutateAt hands its start parameter to Client.Mutate as the start version; Client.BatchGet turns a GetResponse.Error into an error return")
	readAt := Named(redisPkg + ".(*raftBackend).getAtVersion")
	readFresh := Named(redisPkg+".(*raftBackend).Get", redisPkg+".(*raftBackend).MGet")
	writeAt := Named(redisPkg + ".(*raftBackend).mutateAt")
	writeFresh := Named(redisPkg+".(*raftBackend).mutate", redisPkg+".(*raftBackend).Set")
	n := 0
	for _, name := range []string{"raftBackend.IncrBy", "raftBackend.Set"} {
		fn := c.Fn(redisPkg, name)
		if fn == nil {
			continue
		}
		bodies := append([]*ssa.Function{fn}, fn.AnonFuncs...)
		// the read-modify-write may live in a same-package helper of the command (and its closures)
		for _, cs := range Calls(fn, true, func(*ssa.CallCommon) bool { return true }) {
			cal := cs.Common().StaticCallee()
			if cal == nil || cal.Blocks == nil || cal.Pkg != fn.Pkg || slices.Contains(bodies, cal) {
				continue
			}
			if readAt(cs.Common()) || readFresh(cs.Common()) || writeAt(cs.Common()) || writeFresh(cs.Common()) {
				continue
			}
			if len(Calls(cal, true, func(cc *ssa.CallCommon) bool { return readAt(cc) || readFresh(cc) })) > 0 {
				bodies = append(bodies, cal)
				bodies = append(bodies, cal.AnonFuncs...)
			}
		}
		for _, g := range bodies {
			reads := Calls(g, false, func(cc *ssa.CallCommon) bool { return readAt(cc) || readFresh(cc) })
			writes := Calls(g, false, func(cc *ssa.CallCommon) bool { return writeAt(cc) || writeFresh(cc) })
			// only writes that can follow a read make the body a read-modify-write
			var rmw []ssa.CallInstruction
			for _, w := range writes {
				for _, r := range reads {
					if reach, _ := CutReach(g, r.(ssa.Instruction), w.(ssa.Instruction), nil, nil); reach {
						rmw = append(rmw, w)
						break
					}
				}
			}
			if len(rmw) == 0 {
				continue
			}
			n++
			var bad []string
			var v ssa.Value
			for _, r := range reads {
				if !readAt(r.Common()) {
					bad = append(bad, "the value is read with a fresh timestamp ("+CalleeObj(r.Common()).Name()+")")
					continue
				}
				rv := Unwrap(r.Common().Args[2])
				if v == nil {
					v = rv
				} else if v != rv {
					bad = append(bad, "the reads use different versions")
				}
			}
			for _, w := range rmw {
				if !writeAt(w.Common()) {
					bad = append(bad, "the write reserves its own, later start version ("+CalleeObj(w.Common()).Name()+")")
					continue
				}
				if v == nil || Unwrap(w.Common().Args[1]) != v {
					bad = append(bad, "mutateAt is not given the version the value was read at")
				}
			}
			c.Decide(len(bad) == 0, rule, key(g, "read-version==start-version"), g.Pos(), len(reads)+len(rmw)+1, "the command reads at the version it prewrites with", strings.Join(bad, "; ")+": a commit between the read and the start version is invisible to the prewrite check, so concurrent INCRs lose updates and two SET NX both succeed")
		}
	}
	c.Floor(rule, n, 2, "read-modify-write bodies in raftBackend.IncrBy / Set")
	if fn := c.FnOpt(redisPkg, "raftBackend.mutateAt"); fn != nil && len(fn.Params) > 1 {
		ok := false
		for _, m := range Calls(fn, false, func(cc *ssa.CallCommon) bool { o := CalleeObj(cc); return o != nil && o.Name() == "Mutate" }) {
			// (ctx, primary, mutations, startVersion, commitVersion, lockTTL), behind the
			// receiver for a static call
			a, at := m.Common().Args, 3
			if !m.Common().IsInvoke() {
				at = 4
			}
			if len(a) > at && Unwrap(a[at]) == fn.Params[1] {
				ok = true
			}
		}
		c.Decide(ok, rule, key(fn, "start-param→Client.Mutate.startVersion"), fn.Pos(), 2, "mutateAt prewrites with the version it is given", "mutateAt does not hand its start parameter to Client.Mutate as the start version")
	}
	if fn := c.Fn("raftstore/client", "Client.BatchGet"); fn != nil {
		ge := Calls(fn, false, Named("(*pb.GetResponse).GetError"))
		ok := false
		for _, g := range ge {
			for _, e := range NilEdges(fn, map[ssa.Value]bool{g.Value(): true}) {
				for _, r := range Returns(fn) {
					if len(r.Results) == 2 && !IsNilConst(r.Results[1]) {
						if reach, _ := reachFromBlock(fn, e.NonNil[1], r, nil); reach {
							ok = true
						}
					}
				}
			}
		}
		c.Decide(ok, rule, key(fn, "GetResponse.Error→error-return"), fn.Pos(), len(ge)+1, "a read that met a lock is reported as a conflict", "Client.BatchGet hands a GetResponse whose Error is set (the read met a lock: no value) to its caller like a hit: the Redis raft backend reads the locked key as present with an empty value – GET returns \"\" and INCR starts from 0")
	}
}

// inlineSplitGroup (C31): "every well-formed inline command is parsed into exactly its
// arguments".  The inline separator is the ASCII blank; the Unicode-aware splitters of the
// standard library (strings.Fields, bytes.Fields, anything built on unicode.IsSpace) also cut an
// argument at U+3000, U+00A0, U+2028 ... once the line contains a non-ASCII byte.
func inlineSplitGroup(c *Ctx, rule string) {
	c.Rule(rule, "parseRESP and the cmd/nokv-redis functions it calls split an inline command without strings.Fields / bytes.Fields / unicode.IsSpace (also inside a FieldsFunc predicate): the separator test compares with ASCII blanks only")
	fn := c.Fn(redisPkg, "parseRESP")
	if fn == nil {
		return
	}
	grp := []*ssa.Function{fn}
	for i := 0; i < len(grp) && len(grp) < 12; i++ {
		grp = append(grp, grp[i].AnonFuncs...)
		for _, cs := range Calls(grp[i], false, func(*ssa.CallCommon) bool { return true }) {
			if cal := cs.Common().StaticCallee(); cal != nil && cal.Blocks != nil && cal.Pkg == fn.Pkg && !slices.Contains(grp, cal) {
				grp = append(grp, cal)
			}
		}
	}
	bad := Named("strings.Fields", "bytes.Fields", "unicode.IsSpace")
	n, splits := 0, 0
	for _, g := range grp {
		for _, b := range Calls(g, false, bad) {
			n++
			c.Fail(rule, key(g, fmt.Sprintf("unicode-aware-split[%d]", n)), b.Pos(), 1, "%s is used on the request line: it splits on every Unicode space once the line holds a non-ASCII byte, so an inline argument containing U+3000 / U+00A0 / U+2028 is cut in two (the same bytes sent as a RESP array are one argument)", CalleeObj(b.Common()).Name())
		}
		splits += len(Calls(g, false, Named("strings.FieldsFunc", "bytes.FieldsFunc", "strings.Split", "strings.SplitN", "bytes.Split", "strings.IndexByte", "bytes.IndexByte", "strings.Cut")))
	}
	if n == 0 {
		c.Pass(rule, key(fn, "ascii-only-split"), fn.Pos(), len(grp)+1, "no Unicode-aware splitter on the request line (%d functions, %d explicit split sites)", len(grp), splits)
	}
}
