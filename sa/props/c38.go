package props

import (
	"fmt"
	"go/constant"
	"go/token"
	"sort"
	"strings"

	"golang.org/x/tools/go/ssa"

	. "nokvsa/core"
)

func init() { register("C38", C38) }

// guardClasses classifies the branch edge (from block p into block rb) that leads to an error return.
func guardClasses(fn *ssa.Function, p, rb *ssa.BasicBlock) string {
	ifi := ifOf(p)
	if ifi == nil {
		return "unconditional"
	}
	taken := p.Succs[0] == rb // true edge
	return condClass(ifi.Cond, taken)
}

func condClass(v ssa.Value, taken bool) string {
	switch x := v.(type) {
	case *ssa.UnOp:
		if x.Op == token.NOT {
			return condClass(x.X, !taken)
		}
	case *ssa.BinOp:
		if x.Op == token.EQL || x.Op == token.NEQ {
			eq := (x.Op == token.EQL) == taken
			if IsNilConst(x.Y) {
				if _, isP := x.X.(*ssa.Parameter); isP {
					return ifs(eq, "nil-receiver", "non-nil-receiver")
				}
			}
			if k, ok := x.Y.(*ssa.Const); ok && k.Value != nil {
				if k.Value.Kind() == constant.Int {
					if z, _ := constant.Int64Val(k.Value); z == 0 {
						return ifs(eq, "zero:", "nonzero:") + qualField(x.X)
					}
				}
				if k.Value.Kind() == constant.String && constant.StringVal(k.Value) == "" {
					return ifs(eq, "empty:", "nonempty:") + originField(x.X)
				}
			}
		}
	case *ssa.Extract:
		if lk, ok := x.Tuple.(*ssa.Lookup); ok && lk.CommaOk && x.Index == 1 {
			return ifs(taken, "present:", "absent:") + qualField(lk.Index)
		}
	case *ssa.Call:
		if Named("strings.Contains")(x.Common()) {
			sub := ""
			if k, ok := x.Call.Args[1].(*ssa.Const); ok && k.Value != nil {
				sub = constant.StringVal(k.Value)
			}
			return ifs(taken, "contains", "lacks") + "(" + sub + "):" + originField(x.Call.Args[0])
		}
	}
	return "other:" + v.String()
}

// qualField renders a field load as Owner.Field (owner without package).
func qualField(v ssa.Value) string {
	v = Unwrap(v)
	var o, f string
	var ok bool
	switch x := v.(type) {
	case *ssa.UnOp:
		o, f, ok = FieldOf(x.X)
	case *ssa.Field:
		o, f, ok = FieldOf(x)
	}
	if !ok {
		return "?"
	}
	if i := strings.LastIndex(o, "."); i >= 0 {
		o = o[i+1:]
	}
	return o + "." + f
}

// originField: v is strings.TrimSpace(field) or the field itself.
func originField(v ssa.Value) string {
	if call, ok := v.(*ssa.Call); ok && Named("strings.TrimSpace")(call.Common()) {
		return qualField(call.Call.Args[0])
	}
	return qualField(v)
}

func C38(c *Ctx) {
	c.Note("path-sensitivity beyond dominance of loop back edges; JSON decoding before Validate")
	const r1 = "K14.rejection-table"
	c.Rule(r1, "config.(*File).Validate: every listed defect class has a guard whose taken edge returns a non-nil error – Store.StoreID == 0; duplicate Store.StoreID (present in the seen-set); Region.ID == 0; Peer.StoreID == 0; Peer.PeerID == 0; Peer.StoreID / non-zero Region.LeaderStoreID absent from the store set; each work-dir template non-empty and lacking \"{id}\" – and every error return of Validate is reached only through guards of those classes (plus the nil-receiver guard): nothing else is rejected")
	fn := c.Fn("config", "File.Validate")
	if fn == nil {
		return
	}
	want := map[string]bool{
		"zero:Store.StoreID": true, "present:Store.StoreID": true, "zero:Region.ID": true, "zero:Peer.StoreID": true, "zero:Peer.PeerID": true,
		"absent:Peer.StoreID": true, "absent:Region.LeaderStoreID": true,
		"lacks({id}):File.StoreWorkDirTemplate": true, "lacks({id}):File.StoreDockerWorkDirTemplate": true,
	}
	allowedExtra := map[string]bool{"nil-receiver": true}
	found := map[string]bool{}
	nret := 0
	for _, r := range Returns(fn) {
		if !ProvablyNonNil(RetVal(r, 0), r, 0) {
			continue
		}
		nret++
		rb := r.Block()
		var classes []string
		for _, p := range rb.Preds {
			classes = append(classes, guardClasses(fn, p, rb))
		}
		sort.Strings(classes)
		k := key(fn, fmt.Sprintf("error-return[%s]", strings.Join(classes, "|")))
		bad := ""
		for _, cl := range classes {
			if want[cl] {
				found[cl] = true
			} else if !allowedExtra[cl] {
				bad = cl
			}
		}
		c.Decide(bad == "", r1, k, r.Pos(), len(classes)+1, "rejection belongs to a listed defect class", "Validate rejects on a condition outside the listed defect classes: "+bad+" (a well-formed topology would be refused, or a listed guard was altered)")
	}
	var names []string
	for w := range want {
		names = append(names, w)
	}
	sort.Strings(names)
	for _, w := range names {
		c.Decide(found[w], r1, key(fn, "row:"+w), fn.Pos(), 1, "defect class is rejected", "no guard rejecting the defect class `"+w+"` leads to an error return: such a topology is accepted")
	}
	c.Floor(r1, nret, 8, "error returns of Validate")

	const r2 = "K1.guard-preconditions"
	c.Rule(r2, "the template rejections require a non-empty trimmed template; the leader-store membership test is applied exactly when LeaderStoreID != 0; the loops range over all Stores, all Regions and all Peers of each region; every store id is inserted into the seen-set and the store loop completes before the region loop starts; the single nil return is reached after all loops")
	// template guard: lacks({id}) preceded by nonempty on the same field
	for _, fld := range []string{"File.StoreWorkDirTemplate", "File.StoreDockerWorkDirTemplate"} {
		ok := false
		for _, b := range fn.Blocks {
			if ifi := ifOf(b); ifi != nil && condClass(ifi.Cond, true) == "nonempty:"+fld {
				// its true edge leads to the Contains test
				if t := ifOf(b.Succs[0]); t != nil && (condClass(t.Cond, true) == "lacks({id}):"+fld || condClass(t.Cond, false) == "lacks({id}):"+fld) {
					ok = true
				}
			}
		}
		c.Decide(ok, r2, key(fn, "template:"+fld+"#nonempty&&lacks"), fn.Pos(), 2, "only a non-empty template without {id} is rejected", "the template guard for "+fld+" is no longer `non-empty && !Contains(\"{id}\")`")
	}
	// leader: nonzero then absent
	okLeader := false
	for _, b := range fn.Blocks {
		if ifi := ifOf(b); ifi != nil && condClass(ifi.Cond, true) == "nonzero:Region.LeaderStoreID" {
			if t := ifOf(b.Succs[0]); t != nil && condClass(t.Cond, false) == "absent:Region.LeaderStoreID" || ifOf(b.Succs[0]) != nil && condClass(ifOf(b.Succs[0]).Cond, true) == "absent:Region.LeaderStoreID" {
				okLeader = true
			}
		}
	}
	c.Decide(okLeader, r2, key(fn, "leader:nonzero→membership"), fn.Pos(), 2, "leader store is checked for membership exactly when set", "the leader-store membership guard is no longer conditioned on LeaderStoreID != 0")
	// loops
	ranged := map[string]bool{}
	AllInstrs(fn, false, func(in ssa.Instruction) {
		if call, ok := in.(*ssa.Call); ok {
			if bi, ok := call.Call.Value.(*ssa.Builtin); ok && bi.Name() == "len" {
				ranged[qualField(call.Call.Args[0])] = true
			}
		}
	})
	for _, f := range []string{"File.Stores", "File.Regions", "Region.Peers"} {
		c.Decide(ranged[f], r2, key(fn, "ranges:"+f), fn.Pos(), 1, "all elements are visited", f+" is no longer ranged over in Validate")
	}
	// no `continue`/break that skips guards: each loop body has no jump back to the header other than the final one:
	// approximated by requiring exactly 3 rangeindex loops and the inserted seen-set update in the store loop
	loops := 0
	for _, b := range fn.Blocks {
		if b.Comment == "rangeindex.loop" {
			loops++
		}
	}
	c.Decide(loops == 3, r2, key(fn, "three-loops"), fn.Pos(), loops+1, "stores, regions and peers loops", fmt.Sprintf("%d range loops in Validate (expected 3)", loops))
	var ins []ssa.Instruction
	AllInstrs(fn, false, func(in ssa.Instruction) {
		if mu, ok := in.(*ssa.MapUpdate); ok && qualField(mu.Key) == "Store.StoreID" {
			ins = append(ins, in)
		}
	})
	c.Decide(len(ins) == 1, r2, key(fn, "seen-set-insert"), fn.Pos(), 1, "every store id enters the seen-set", "store ids are no longer inserted into the seen-set (duplicates and unknown-store references go unnoticed)")
	// membership lookups happen after the store loop: the insert's loop exit dominates them
	for _, b := range fn.Blocks {
		for _, in := range b.Instrs {
			if lk, ok := in.(*ssa.Lookup); ok && lk.CommaOk && (qualField(lk.Index) == "Peer.StoreID" || qualField(lk.Index) == "Region.LeaderStoreID") {
				okOrder := len(ins) == 1 && blockReaches(ins[0].Block(), b) && !blockReaches(b, ins[0].Block())
				c.Decide(okOrder, r2, key(fn, "lookup("+qualField(lk.Index)+")-after-store-loop"), in.Pos(), 2, "store set is complete before it is consulted", "a membership lookup can run before the store set is complete")
			}
		}
	}
	// every iteration passes through the per-element guards: the guard's test block dominates every
	// back edge of its innermost loop (a `continue` placed before the guard breaks this)
	const r3 = "K1.guards-on-every-iteration"
	c.Rule(r3, "each per-element rejection guard of Validate (zero/duplicate store id, zero region id, zero peer store/peer id, peer store membership) dominates every back edge of the innermost loop that contains it, so no element can reach the next iteration without having been tested")
	perElem := map[string]bool{"zero:Store.StoreID": true, "present:Store.StoreID": true, "zero:Region.ID": true, "zero:Peer.StoreID": true, "zero:Peer.PeerID": true, "absent:Peer.StoreID": true}
	var hdrs []*ssa.BasicBlock
	for _, b := range fn.Blocks {
		if b.Comment == "rangeindex.loop" {
			hdrs = append(hdrs, b)
		}
	}
	checked := map[string]bool{}
	for _, b := range fn.Blocks {
		ifi := ifOf(b)
		if ifi == nil {
			continue
		}
		cl := ""
		for _, pol := range []bool{true, false} {
			if k := condClass(ifi.Cond, pol); perElem[k] {
				cl = k
			}
		}
		if cl == "" {
			continue
		}
		// innermost loop containing b
		var inner map[*ssa.BasicBlock]bool
		var hdr *ssa.BasicBlock
		for _, h := range hdrs {
			l := NaturalLoop(h)
			if l[b] && (inner == nil || len(l) < len(inner)) {
				inner, hdr = l, h
			}
		}
		if hdr == nil {
			c.Fail(r3, key(fn, "guard:"+cl+"#in-loop"), ifi.Cond.Pos(), 1, "per-element guard %s is not inside a loop", cl)
			continue
		}
		bad := 0
		for _, p := range hdr.Preds {
			if hdr.Dominates(p) && !b.Dominates(p) {
				bad++
			}
		}
		checked[cl] = true
		c.Decide(bad == 0, r3, key(fn, "guard:"+cl+"#dominates-back-edges"), ifi.Cond.Pos(), len(hdr.Preds)+1, "tested on every iteration", fmt.Sprintf("%d path(s) reach the next iteration without testing `%s`: an element with that defect can be accepted", bad, cl))
	}
	for cl := range perElem {
		if !checked[cl] {
			c.Fail(r3, key(fn, "guard:"+cl+"#dominates-back-edges"), fn.Pos(), 1, "per-element guard %s not found as a branch condition", cl)
		}
	}
	succ := 0
	for _, r := range Returns(fn) {
		if IsNilConst(RetVal(r, 0)) {
			succ++
		}
	}
	c.Decide(succ == 1, r2, key(fn, "single-accept"), fn.Pos(), succ+1, "one accepting return at the end", fmt.Sprintf("%d accepting returns (an early nil return would skip later guards)", succ))
}
