package props

import (
	"fmt"
	"go/constant"
	"go/token"
	"go/types"
	"sort"
	"strings"

	"golang.org/x/tools/go/ssa"

	. "nokvsa/core"
)

func init() { register("C38", C38) }

// guardClasses classifies the branch edge (from block p into block rb) that leads to an error return.
func guardClasses(fn *ssa.Function, p, rb *ssa.BasicBlock) string {
	ifi := ifOf(p)
	if ifi == nil {
		return "unconditional"
	}
	taken := p.Succs[0] == rb // true edge
	return condClass(ifi.Cond, taken)
}

func condClass(v ssa.Value, taken bool) string {
	switch x := v.(type) {
	case *ssa.UnOp:
		if x.Op == token.NOT {
			return condClass(x.X, !taken)
		}
	case *ssa.BinOp:
		if x.Op == token.EQL || x.Op == token.NEQ {
			eq := (x.Op == token.EQL) == taken
			if IsNilConst(x.Y) {
				if _, isP := x.X.(*ssa.Parameter); isP {
					return ifs(eq, "nil-receiver", "non-nil-receiver")
				}
			}
			if k, ok := x.Y.(*ssa.Const); ok && k.Value != nil {
				if k.Value.Kind() == constant.Int {
					if z, _ := constant.Int64Val(k.Value); z == 0 {
						return ifs(eq, "zero:", "nonzero:") + qualField(x.X)
					}
				}
				if k.Value.Kind() == constant.String && constant.StringVal(k.Value) == "" {
					return ifs(eq, "empty:", "nonempty:") + originField(x.X)
				}
			}
		}
	case *ssa.Extract:
		if lk, ok := x.Tuple.(*ssa.Lookup); ok && lk.CommaOk && x.Index == 1 {
			return ifs(taken, "present:", "absent:") + qualField(lk.Index)
		}
	case *ssa.Lookup:
		// a set kept as map[K]bool: the looked-up value is the membership answer
		if _, isMap := x.X.Type().Underlying().(*types.Map); isMap && !x.CommaOk && x.Type().String() == "bool" {
			return ifs(taken, "present:", "absent:") + qualField(x.Index)
		}
	case *ssa.Call:
		if Named("strings.Contains")(x.Common()) {
			sub := ""
			if k, ok := x.Call.Args[1].(*ssa.Const); ok && k.Value != nil {
				sub = constant.StringVal(k.Value)
			}
			return ifs(taken, "contains", "lacks") + "(" + sub + "):" + originField(x.Call.Args[0])
		}
	}
	return "other:" + v.String()
}

// qualField renders a field load as Owner.Field (owner without package).
func qualField(v ssa.Value) string {
	v = Unwrap(v)
	var o, f string
	var ok bool
	switch x := v.(type) {
	case *ssa.UnOp:
		o, f, ok = FieldOf(x.X)
	case *ssa.Field:
		o, f, ok = FieldOf(x)
	}
	if !ok {
		return "?"
	}
	if i := strings.LastIndex(o, "."); i >= 0 {
		o = o[i+1:]
	}
	return o + "." + f
}

// originField: v is strings.TrimSpace(field) or the field itself.
func originField(v ssa.Value) string {
	if call, ok := v.(*ssa.Call); ok && Named("strings.TrimSpace")(call.Common()) {
		return originField(call.Call.Args[0])
	}
	q := qualField(v)
	if strings.HasPrefix(q, "File.") {
		return q
	}
	// a copy of a File field (table element, loop variable, helper parameter): name the fields
	// it can come from
	if fs := tableOrigins(v); len(fs) > 0 {
		return "TABLE{" + strings.Join(fs, ",") + "}"
	}
	return q
}

// paramArgsHook resolves a parameter to the arguments it receives at the call sites of its
// function (set by C38 for the validation group).
var paramArgsHook func(p *ssa.Parameter) []ssa.Value

// tableOrigins: the File.* string fields whose values can flow into v through local copies –
// a table literal the function builds and loops over, a loop variable, a helper's parameter.
// Field- and flow-insensitive closure over loads, element/field projections, stores into the
// same local, phis and strings.TrimSpace.
func tableOrigins(v ssa.Value) []string {
	set := map[string]bool{}
	seen := map[ssa.Value]bool{}
	work := []ssa.Value{v}
	push := func(x ssa.Value) {
		if x != nil && !seen[x] {
			work = append(work, x)
		}
	}
	var storesInto func(addr ssa.Value, depth int)
	storesInto = func(addr ssa.Value, depth int) {
		if depth <= 0 || addr.Referrers() == nil {
			return
		}
		for _, r := range *addr.Referrers() {
			switch x := r.(type) {
			case *ssa.Store:
				if x.Addr == addr {
					push(x.Val)
				}
			case *ssa.IndexAddr:
				if x.X == addr {
					storesInto(x, depth-1)
				}
			case *ssa.FieldAddr:
				if x.X == addr {
					storesInto(x, depth-1)
				}
			case *ssa.Slice:
				if x.X == addr {
					storesInto(x, depth-1)
				}
			}
		}
	}
	for n := 0; len(work) > 0 && n < 400; n++ {
		cur := work[len(work)-1]
		work = work[:len(work)-1]
		if cur == nil || seen[cur] {
			continue
		}
		seen[cur] = true
		if q := qualField(cur); strings.HasPrefix(q, "File.") {
			set[q] = true
			continue
		}
		switch x := cur.(type) {
		case *ssa.UnOp:
			push(x.X)
		case *ssa.FieldAddr:
			push(x.X)
		case *ssa.Field:
			push(x.X)
		case *ssa.IndexAddr:
			push(x.X)
		case *ssa.Index:
			push(x.X)
		case *ssa.Slice:
			push(x.X)
		case *ssa.Convert:
			push(x.X)
		case *ssa.ChangeType:
			push(x.X)
		case *ssa.Phi:
			for _, e := range x.Edges {
				push(e)
			}
		case *ssa.Extract:
			push(x.Tuple)
		case *ssa.Next:
			push(x.Iter)
		case *ssa.Range:
			push(x.X)
		case *ssa.Alloc:
			storesInto(x, 4)
		case *ssa.Call:
			if Named("strings.TrimSpace")(x.Common()) {
				push(x.Call.Args[0])
			}
		case *ssa.Parameter:
			if paramArgsHook != nil {
				for _, a := range paramArgsHook(x) {
					push(a)
				}
			}
		}
	}
	var out []string
	for k := range set {
		out = append(out, k)
	}
	sort.Strings(out)
	return out
}

func C38(c *Ctx) {
	c.Note("path-sensitivity beyond dominance of loop back edges; JSON decoding before Validate")
	const r1 = "K14.rejection-table"
	c.Rule(r1, "config.(*File).Validate, together with the package functions it calls: every listed defect class has a guard whose taken edge returns a non-nil error – Store.StoreID == 0; duplicate Store.StoreID (present in the seen-set); Region.ID == 0; Peer.StoreID == 0; Peer.PeerID == 0; Peer.StoreID / non-zero Region.LeaderStoreID absent from the store set; each work-dir template non-empty and lacking \"{id}\" – every error created there is reached only through guards of those classes (plus the nil-receiver guard), and a helper's error is handed on: nothing else is rejected")
	root := c.Fn("config", "File.Validate")
	if root == nil {
		return
	}
	// the validation group: Validate and the same-package functions it (transitively) calls
	var group []*ssa.Function
	inGroup := map[*ssa.Function]bool{}
	var walk func(f *ssa.Function, depth int)
	walk = func(f *ssa.Function, depth int) {
		if f == nil || inGroup[f] || depth > 3 {
			return
		}
		inGroup[f] = true
		group = append(group, f)
		c.Touch(f)
		AllInstrs(f, false, func(in ssa.Instruction) {
			if ci, ok := in.(ssa.CallInstruction); ok {
				if h := StaticFn(ci.Common()); h != nil && h.Blocks != nil && FuncPkgPath(h) == FuncPkgPath(root) && ErrorResultIndex(h) >= 0 {
					walk(h, depth+1)
				}
			}
		})
	}
	walk(root, 0)
	paramArgsHook = func(p *ssa.Parameter) []ssa.Value {
		f := p.Parent()
		idx := -1
		for i, q := range f.Params {
			if q == p {
				idx = i
			}
		}
		var out []ssa.Value
		for _, g := range group {
			AllInstrs(g, false, func(in ssa.Instruction) {
				if ci, ok := in.(ssa.CallInstruction); ok && StaticFn(ci.Common()) == f && idx >= 0 && idx < len(ci.Common().Args) {
					out = append(out, ci.Common().Args[idx])
				}
			})
		}
		return out
	}
	defer func() { paramArgsHook = nil }()
	want := map[string]bool{
		"zero:Store.StoreID": true, "present:Store.StoreID": true, "zero:Region.ID": true, "zero:Peer.StoreID": true, "zero:Peer.PeerID": true,
		"absent:Peer.StoreID": true, "absent:Region.LeaderStoreID": true,
		"lacks({id}):File.StoreWorkDirTemplate": true, "lacks({id}):File.StoreDockerWorkDirTemplate": true,
	}
	allowedExtra := map[string]bool{"nil-receiver": true}
	found := map[string]bool{}
	nret := 0
	// guardBlocks[class] = the branch blocks (with their function) that reject that class
	type site struct {
		f *ssa.Function
		b *ssa.BasicBlock
	}
	guardBlocks := map[string][]site{}
	for _, fn := range group {
		ei := ErrorResultIndex(fn)
		for _, r := range Returns(fn) {
			rv := RetVal(r, ei)
			if !ProvablyNonNil(rv, r, 0) {
				continue
			}
			// a helper's error handed on is not a rejection of its own
			if fromGroupCall(rv, inGroup, 4) {
				continue
			}
			nret++
			rb := r.Block()
			var classes []string
			for _, p := range rb.Preds {
				for _, cl := range expandClass(guardClasses(fn, p, rb)) {
					classes = append(classes, cl)
					guardBlocks[cl] = append(guardBlocks[cl], site{fn, p})
				}
			}
			sort.Strings(classes)
			k := key(root, fmt.Sprintf("error-return[%s]", strings.Join(classes, "|")))
			bad := ""
			for _, cl := range classes {
				if want[cl] {
					found[cl] = true
				} else if !allowedExtra[cl] {
					bad = cl
				}
			}
			c.Decide(bad == "", r1, k, r.Pos(), len(classes)+1, "rejection belongs to a listed defect class", "Validate rejects on a condition outside the listed defect classes: "+bad+" (a well-formed topology would be refused, or a listed guard was altered)")
		}
		// errors of group callees are propagated
		for _, ci := range Calls(fn, false, func(cc *ssa.CallCommon) bool { h := StaticFn(cc); return h != nil && inGroup[h] && h != fn }) {
			errPropagated(c, r1, key(fn, "propagates:"+FuncName(StaticFn(ci.Common()))), fn, ci)
		}
	}
	var names []string
	for w := range want {
		names = append(names, w)
	}
	sort.Strings(names)
	for _, w := range names {
		c.Decide(found[w], r1, key(root, "row:"+w), root.Pos(), 1, "defect class is rejected", "no guard rejecting the defect class `"+w+"` leads to an error return: such a topology is accepted")
	}
	c.Floor(r1, nret, 7, "error returns of Validate")

	const r2 = "K1.guard-preconditions"
	c.Rule(r2, "the template rejections require a non-empty trimmed template; the leader-store membership test is applied exactly when LeaderStoreID != 0; the loops range over all Stores, all Regions and all Peers of each region; every store id is inserted into the seen-set and the store set is complete before it is consulted; an accepting return is reached only after all loops")
	// precondition edges: the rejecting branch of class `cl` is dominated by the taken edge of a test of class `pre`
	dominatedBy := func(cl, pre string) bool {
		sites := guardBlocks[cl]
		if len(sites) == 0 {
			return false
		}
		for _, st := range sites {
			ok := false
			for _, b := range st.f.Blocks {
				ifi := ifOf(b)
				if ifi == nil {
					continue
				}
				for si, pol := range []bool{true, false} {
					for _, k := range expandClass(condClass(ifi.Cond, pol)) {
						if k == pre && (EdgeDominates(b, b.Succs[si], st.b) || b.Succs[si] == st.b && len(st.b.Preds) == 1) {
							ok = true
						}
					}
				}
			}
			if !ok {
				return false
			}
		}
		return true
	}
	for _, fld := range []string{"File.StoreWorkDirTemplate", "File.StoreDockerWorkDirTemplate"} {
		c.Decide(dominatedBy("lacks({id}):"+fld, "nonempty:"+fld), r2, key(root, "template:"+fld+"#nonempty&&lacks"), root.Pos(), 2, "only a non-empty template without {id} is rejected", "the template guard for "+fld+" is no longer `non-empty && !Contains(\"{id}\")`")
	}
	c.Decide(dominatedBy("absent:Region.LeaderStoreID", "nonzero:Region.LeaderStoreID"), r2, key(root, "leader:nonzero→membership"), root.Pos(), 2, "leader store is checked for membership exactly when set", "the leader-store membership guard is no longer conditioned on LeaderStoreID != 0")
	// loops
	ranged := map[string]bool{}
	for _, fn := range group {
		AllInstrs(fn, false, func(in ssa.Instruction) {
			if call, ok := in.(*ssa.Call); ok {
				if bi, ok := call.Call.Value.(*ssa.Builtin); ok && bi.Name() == "len" {
					ranged[qualField(call.Call.Args[0])] = true
				}
			}
		})
	}
	for _, f := range []string{"File.Stores", "File.Regions", "Region.Peers"} {
		c.Decide(ranged[f], r2, key(root, "ranges:"+f), root.Pos(), 1, "all elements are visited", f+" is no longer ranged over in Validate")
	}
	// the seen-set: inserted for every store, complete before it is consulted
	var ins []ssa.Instruction
	var lookups []ssa.Instruction
	for _, fn := range group {
		AllInstrs(fn, false, func(in ssa.Instruction) {
			if mu, ok := in.(*ssa.MapUpdate); ok && qualField(mu.Key) == "Store.StoreID" {
				ins = append(ins, in)
			}
			if lk, ok := in.(*ssa.Lookup); ok && (qualField(lk.Index) == "Peer.StoreID" || qualField(lk.Index) == "Region.LeaderStoreID") {
				if _, isMap := lk.X.Type().Underlying().(*types.Map); isMap {
					lookups = append(lookups, in)
				}
			}
		})
	}
	c.Decide(len(ins) == 1, r2, key(root, "seen-set-insert"), root.Pos(), 1, "every store id enters the seen-set", "store ids are no longer inserted into the seen-set (duplicates and unknown-store references go unnoticed)")
	for _, lk := range lookups {
		okOrder := false
		if len(ins) == 1 {
			fi, fl := ins[0].Parent(), lk.Parent()
			if fi == fl {
				okOrder = blockReaches(ins[0].Block(), lk.Block()) && !blockReaches(lk.Block(), ins[0].Block())
			} else {
				okOrder = callOrdered(group, fi, fl)
			}
		}
		idx := qualField(lk.(*ssa.Lookup).Index)
		c.Decide(okOrder, r2, key(root, "lookup("+idx+")-after-store-loop"), lk.Pos(), 2, "store set is complete before it is consulted", "a membership lookup can run before the store set is complete")
	}
	// every iteration passes through the per-element guards
	const r3 = "K1.guards-on-every-iteration"
	c.Rule(r3, "each per-element rejection guard of Validate (zero/duplicate store id, zero region id, zero peer store/peer id, peer store membership) dominates every back edge of the innermost loop that contains it (in its own function, or – for a guard in a per-element helper – the helper's call does), so no element can reach the next iteration without having been tested")
	perElem := []string{"zero:Store.StoreID", "present:Store.StoreID", "zero:Region.ID", "zero:Peer.StoreID", "zero:Peer.PeerID", "absent:Peer.StoreID"}
	for _, cl := range perElem {
		sites := guardBlocks[cl]
		if len(sites) == 0 {
			c.Fail(r3, key(root, "guard:"+cl+"#dominates-back-edges"), root.Pos(), 1, "per-element guard %s not found as a branch condition", cl)
			continue
		}
		bad := 0
		for _, st := range sites {
			bad += skippingBackEdges(group, st.f, st.b, 2)
		}
		c.Decide(bad == 0, r3, key(root, "guard:"+cl+"#dominates-back-edges"), sites[0].b.Instrs[len(sites[0].b.Instrs)-1].Pos(), len(sites)+1, "tested on every iteration", fmt.Sprintf("%d path(s) reach the next iteration without testing `%s`: an element with that defect can be accepted", bad, cl))
	}
	// accepting returns: the root's nil returns come after its loops / helper calls
	succ := 0
	for _, r := range Returns(root) {
		rv := RetVal(r, ErrorResultIndex(root))
		if IsNilConst(rv) || (!ProvablyNonNil(rv, r, 0) && fromGroupCall(rv, inGroup, 4)) {
			succ++
		}
	}
	c.Decide(succ >= 1 && succ <= 2, r2, key(root, "single-accept"), root.Pos(), succ+1, "accepting return at the end", fmt.Sprintf("%d accepting returns (an early nil return would skip later guards)", succ))
}

// expandClass: a class whose field could not be named directly but whose value comes out of a
// local table built from named fields stands for one class per such field.
func expandClass(cl string) []string {
	i := strings.Index(cl, "TABLE{")
	if i < 0 {
		return []string{cl}
	}
	prefix := cl[:i]
	body := strings.TrimSuffix(cl[i+len("TABLE{"):], "}")
	var out []string
	for _, f := range strings.Split(body, ",") {
		if f != "" {
			out = append(out, prefix+f)
		}
	}
	return out
}

// fromGroupCall: v is (a phi/extract of) the error result of a call to a function of the group.
func fromGroupCall(v ssa.Value, inGroup map[*ssa.Function]bool, depth int) bool {
	if depth <= 0 || v == nil {
		return false
	}
	switch x := v.(type) {
	case *ssa.Call:
		h := StaticFn(x.Common())
		return h != nil && inGroup[h]
	case *ssa.Extract:
		return fromGroupCall(x.Tuple, inGroup, depth-1)
	case *ssa.Phi:
		for _, e := range x.Edges {
			if fromGroupCall(e, inGroup, depth-1) {
				return true
			}
		}
	}
	return false
}

// callOrdered: in some function of the group, every call that (transitively) leads to `second`
// is preceded by one that leads to `first` (or `second` is that function itself and the call to
// `first` dominates its use).
func callOrdered(group []*ssa.Function, first, second *ssa.Function) bool {
	leadsTo := func(h, target *ssa.Function) bool {
		if h == target {
			return true
		}
		found := false
		AllInstrs(h, false, func(in ssa.Instruction) {
			if ci, ok := in.(ssa.CallInstruction); ok && StaticFn(ci.Common()) == target {
				found = true
			}
		})
		return found
	}
	for _, p := range group {
		var a, b []ssa.Instruction
		AllInstrs(p, false, func(in ssa.Instruction) {
			ci, ok := in.(ssa.CallInstruction)
			if !ok {
				return
			}
			h := StaticFn(ci.Common())
			if h == nil {
				return
			}
			if leadsTo(h, first) {
				a = append(a, in)
			}
			if leadsTo(h, second) {
				b = append(b, in)
			}
		})
		if len(a) == 0 || len(b) == 0 {
			continue
		}
		ok := true
		for _, y := range b {
			if pre, _ := MustPrecede(p, y, a); !pre {
				ok = false
			}
		}
		return ok
	}
	return false
}

// skippingBackEdges counts the ways an element can reach the next iteration without passing
// block b of function f: in f's innermost loop around b, or – when b is not inside a loop of f –
// in the loops of the group functions that call f.
func skippingBackEdges(group []*ssa.Function, f *ssa.Function, b *ssa.BasicBlock, depth int) int {
	var hdrs []*ssa.BasicBlock
	for _, h := range f.Blocks {
		if h.Comment == "rangeindex.loop" || h.Comment == "for.loop" || h.Comment == "rangeiter.loop" {
			hdrs = append(hdrs, h)
		}
	}
	var inner map[*ssa.BasicBlock]bool
	var hdr *ssa.BasicBlock
	for _, h := range hdrs {
		l := NaturalLoop(h)
		if l[b] && (inner == nil || len(l) < len(inner)) {
			inner, hdr = l, h
		}
	}
	if hdr != nil {
		bad := 0
		for _, p := range hdr.Preds {
			if hdr.Dominates(p) && !b.Dominates(p) {
				bad++
			}
		}
		return bad
	}
	if depth <= 0 {
		return 1
	}
	// b is straight-line code of f: every call of f must itself be on every iteration
	bad, calls := 0, 0
	for _, p := range group {
		AllInstrs(p, false, func(in ssa.Instruction) {
			if ci, ok := in.(ssa.CallInstruction); ok && StaticFn(ci.Common()) == f {
				calls++
				bad += skippingBackEdges(group, p, in.Block(), depth-1)
			}
		})
	}
	if calls == 0 {
		return 1
	}
	return bad
}
