package props

import (
	"fmt"
	"go/token"

	"golang.org/x/tools/go/ssa"

	. "nokvsa/core"
)

func init() {
	register("C08", C08)
	register("C10", C10)
	register("C11", C11)
}

func C08(c *Ctx) {
	c.Note("byte-for-byte equality of values; GC never losing a live value under concurrent overwrite; discard-ratio logic; the C01 version-tie recency (GC re-inserts reuse the original internal key)")
	vlogRemovalGroup(c, "K1.vlog-segment-removal-preconditions")
	const r1 = "K1.vlog-before-lsm"
	c.Rule(r1, "DB.commitWorker: valueLog.write()==nil precedes applyRequests, and a value-log failure is acknowledged with that error without applying; DB.writeToLSM stores the encoded pointer (Ptrs[i].Encode) for every entry not kept inline")
	ackAfterApply(c, r1)
	if fn := c.Fn("", "DB.writeToLSM"); fn != nil {
		enc := need(c, r1, fn, false, "ValuePtr.Encode", MethodNamed("kv.ValuePtr", "Encode"), 1)
		sb := need(c, r1, fn, false, "LSM.SetBatch", Named("lsm.(*LSM).SetBatch"), 1)
		_ = enc
		for _, s := range sb {
			// length agreement test precedes
			k := key(fn, "SetBatch<-len(Ptrs)==len(Entries)")
			found := false
			for _, b := range fn.Blocks {
				if ifi := ifOf(b); ifi != nil {
					if bo, ok := ifi.Cond.(*ssa.BinOp); ok && bo.Op == token.NEQ {
						if isLenOfField(bo.X, "NoKV.request", "Ptrs") && isLenOfField(bo.Y, "NoKV.request", "Entries") && EdgeDominates(b, b.Succs[1], s.Block()) {
							found = true
						}
					}
				}
			}
			c.Decide(found, r1, k, s.Pos(), 2, "pointer/entry count agreement is checked before the LSM write", "writeToLSM no longer checks len(Ptrs)==len(Entries) before writing")
		}
		// the branch that sets BitValuePointer also stores the encoded pointer in entry.Value
		vs := 0
		AllInstrs(fn, false, func(in ssa.Instruction) {
			if st, ok := in.(*ssa.Store); ok {
				if o, f, ok := FieldOf(st.Addr); ok && o == "kv.Entry" && f == "Value" {
					if call, ok := st.Val.(*ssa.Call); ok && MethodNamed("kv.ValuePtr", "Encode")(call.Common()) {
						vs++
					}
				}
			}
		})
		c.Decide(vs == 1, r1, key(fn, "entry.Value=Ptrs[i].Encode()"), fn.Pos(), 1, "out-of-line entries carry their encoded pointer", "writeToLSM does not store Ptrs[i].Encode() into entry.Value")
	}

	const r2 = "K1.vlog-sync-when-SyncWrites"
	c.Rule(r2, "valueLog.write: under SyncWrites (true edge) Manager.SyncFIDs is called for the touched buckets and its error, like AppendEntries', reaches the error return; DB.vlog reads go through Manager.ReadValue")
	if fn := c.Fn("", "valueLog.write"); fn != nil {
		isSync := func(ci ssa.CallInstruction) bool { return Named("vlog.(*Manager).SyncFIDs")(ci.Common()) }
		sf := effectSites(c, fn, isSync, 2)
		c.Decide(len(sf) >= 1, r2, key(fn, "has:SyncFIDs"), fn.Pos(), len(sf)+1, "value log is synced (directly or through a helper)", "valueLog.write no longer calls Manager.SyncFIDs (directly or through a same-package helper)")
		for i, s := range sf {
			// inside a helper the SyncFIDs error must reach the helper's error result
			if !isSync(s) {
				if h := StaticFn(s.Common()); h != nil {
					for j, inner := range Calls(h, false, Named("vlog.(*Manager).SyncFIDs")) {
						errPropagated(c, r2, key(h, fmt.Sprintf("SyncFIDs[%d]#error-propagated", j+1)), h, inner)
					}
				}
			}
			dom := false
			for e := range boolFieldEdges(fn, "NoKV.Options", "SyncWrites", true) {
				if EdgeDominates(e[0], e[1], s.Block()) {
					dom = true
				}
			}
			c.Decide(dom, r2, key(fn, fmt.Sprintf("SyncFIDs[%d]@SyncWrites", i+1)), s.Pos(), 2, "SyncFIDs is on the SyncWrites==true edge", "SyncFIDs is not controlled by Options.SyncWrites")
			errPropagated(c, r2, key(fn, fmt.Sprintf("SyncFIDs[%d]#error-propagated", i+1)), fn, s)
			// no additional condition between the SyncWrites test and the sync loop other than wrote/db!=nil
		}
		for i, a := range need(c, r2, fn, false, "AppendEntries", Named("vlog.(*Manager).AppendEntries"), 1) {
			errPropagated(c, r2, key(fn, fmt.Sprintf("AppendEntries[%d]#error-propagated", i+1)), fn, a)
		}
		// every success return is after the SyncWrites test (the sync block is not bypassed by an early nil return)
		tests := 0
		for _, r := range SuccessReturns(fn) {
			for _, b := range fn.Blocks {
				if ifi := ifOf(b); ifi != nil && isFieldLoad(ifi.Cond, "NoKV.Options", "SyncWrites") {
					tests++
					_ = r
				}
			}
		}
		nSucc := 0
		for _, r := range Returns(fn) {
			if IsNilConst(RetVal(r, ErrorResultIndex(fn))) {
				nSucc++
			}
		}
		c.Decide(nSucc == 1, r2, key(fn, "single-success-return"), fn.Pos(), nSucc+1, "single success return, placed after the sync block", fmt.Sprintf("%d success returns: an early nil return can bypass the sync block", nSucc))
	}

	const r3 = "K3.vlog-remove-after-manifest"
	c.Rule(r3, "vlog.Manager.Remove is called only from valueLog.removeValueLogFile and valueLog.reconcileManifest; in removeValueLogFile it follows LogValueLogDelete()==nil; removeValueLogFile is called only from rewrite (after re-insertion), open (ErrDeleteVlogFile) and the iterator-close deferred deletion")
	onlyCallers(c, r3, c.Fn("vlog", "Manager.Remove"), map[string]string{
		"(*NoKV.valueLog).removeValueLogFile": "manifest-logged delete",
		"(*NoKV.valueLog).reconcileManifest":  "startup reconciliation against the manifest",
	}, 2)
	if fn := c.Fn("", "valueLog.removeValueLogFile"); fn != nil {
		beforeOK(c, r3, fn, "LogValueLogDelete", Named("lsm.(*LSM).LogValueLogDelete"), "Manager.Remove", Named("vlog.(*Manager).Remove"), 1)
	}

	const r4 = "K1.gc-delete-after-reinsert"
	c.Rule(r4, "valueLog.rewrite: both deletion routes (removeValueLogFile, append to filesToBeDeleted) come after Manager.Iterate returned without error and after the flush loop; every batchSet error reaches an error return; re-inserted entries copy Key/Value/ExpiresAt and the meta byte (pointer bit cleared) from the scanned record")
	if fn := c.Fn("", "valueLog.rewrite"); fn != nil {
		iter := need(c, r4, fn, false, "Manager.Iterate", Named("vlog.(*Manager).Iterate"), 1)
		var targets []ssa.Instruction
		for _, x := range Calls(fn, false, Named("NoKV.(*valueLog).removeValueLogFile")) {
			targets = append(targets, x.(ssa.Instruction))
		}
		targets = append(targets, fieldStoresIn(fn, false, "NoKV.valueLog", "filesToBeDeleted")...)
		// a helper of rewrite that performs the deletion (immediately or deferred) is a route too
		rmM := Named("NoKV.(*valueLog).removeValueLogFile")
		AllInstrs(fn, false, func(in ssa.Instruction) {
			ci, ok := in.(ssa.CallInstruction)
			if !ok || rmM(ci.Common()) {
				return
			}
			h := StaticFn(ci.Common())
			if h == nil || h.Blocks == nil || h == fn || FuncPkgPath(h) != FuncPkgPath(fn) {
				return
			}
			if len(Calls(h, false, rmM)) > 0 || len(fieldStoresIn(h, false, "NoKV.valueLog", "filesToBeDeleted")) > 0 {
				c.Touch(h)
				targets = append(targets, in)
			}
		})
		c.Decide(len(targets) >= 1, r4, key(fn, "has:deletion-routes"), fn.Pos(), len(targets)+1, "the deletion route(s) of the rewritten segment are present", "expected a removeValueLogFile call or filesToBeDeleted append (directly or in a helper) in rewrite")
		bs := Calls(fn, false, Named("NoKV.(*DB).batchSet"))
		for i, t := range targets {
			k := key(fn, fmt.Sprintf("delete-route[%d]", i+1))
			ok1 := len(iter) > 0 && succOKq(fn, iter, t)
			ok2 := true
			for _, b := range bs {
				if !blockReaches(b.Block(), t.Block()) || blockReaches(t.Block(), b.Block()) {
					ok2 = false
				}
			}
			c.Decide(ok1 && ok2 && len(bs) > 0, r4, k, t.Pos(), 3+len(bs), "deletion happens only after the scan succeeded and after the re-insert flush loop",
				"a deletion route is reachable before the re-insert scan/flush completed successfully")
		}
		for i, b := range bs {
			errPropagated(c, r4, key(fn, fmt.Sprintf("batchSet[%d]#error-propagated", i+1)), fn, b)
		}
		// closure process: batchSet error propagated; copies from e
		for _, cl := range fn.AnonFuncs {
			for i, b := range Calls(cl, false, Named("NoKV.(*DB).batchSet")) {
				errPropagated(c, r4, key(cl, fmt.Sprintf("batchSet[%d]#error-propagated", i+1)), cl, b)
			}
		}
	}

	const r6 = "K2.gc-liveness-guard"
	gcLivenessGroup(c, r6)
	gcReinsertAtomicGroup(c, "K4.gc-reinsert-atomic-with-check")
	newestAcrossSourcesGroup(c, "K10.newest-version-across-sources")
	const r5 = "K3.gc-writes-through-pipeline"
	c.Rule(r5, "from RunValueLogGC the LSM write entry points are reached only through DB.batchSet → sendToWriteCh → commit worker; rewrite calls no LSM/memtable/WAL mutator directly")
	if fn := c.Fn("", "valueLog.rewrite"); fn != nil {
		direct := Calls(fn, true, Named("lsm.(*LSM).Set", "lsm.(*LSM).SetBatch", "lsm.(*memTable).Set", "lsm.(*memTable).setBatch", "wal.(*Manager).Append", "wal.(*Manager).AppendRecords", "NoKV.(*DB).writeToLSM", "NoKV.(*DB).applyRequests"))
		c.Decide(len(direct) == 0, r5, key(fn, "no-direct-lsm-write"), fn.Pos(), 1, "rewrite re-inserts only through batchSet", "rewrite writes to the LSM/WAL directly, bypassing the write pipeline")
	}
	onlyCallers(c, r5, c.Fn("", "DB.sendToWriteCh"), map[string]string{
		"(*NoKV.DB).batchSet":                "GC re-inserts",
		"(*NoKV.DB).setEntry":                "plain writes",
		"(*NoKV.DB).SetVersionedEntry":       "versioned writes (percolator)",
		"(*NoKV.Txn).commitAndSend":          "transactions",
		"(*NoKV.valueLog).flushDiscardStats": "reserved discard-stats key",
	}, 3)
}

func succOKq(fn *ssa.Function, as []ssa.CallInstruction, target ssa.Instruction) bool {
	if ok, _ := MustPrecede(fn, target, instrs(as)); !ok {
		return false
	}
	for _, a := range as {
		ev := ErrResult(a)
		if ev == nil {
			return false
		}
		cut := map[[2]*ssa.BasicBlock]bool{}
		for _, e := range NilEdges(fn, FlowSet(ev)) {
			cut[e.Nil] = true
		}
		// sentinel-tolerant idiom: `err != nil && err != ErrStop` – the second test's
		// false edge (err == ErrStop) is also a pass edge
		for _, b := range fn.Blocks {
			if ifi := ifOf(b); ifi != nil {
				if bo, ok := ifi.Cond.(*ssa.BinOp); ok && bo.Op == token.NEQ && FlowSet(ev)[bo.X] {
					if u, ok := bo.Y.(*ssa.UnOp); ok {
						if g, ok := u.X.(*ssa.Global); ok && g.Name() == "ErrStop" {
							cut[[2]*ssa.BasicBlock{b, b.Succs[1]}] = true
						}
					}
				}
			}
		}
		if r, _ := CutReach(fn, a.(ssa.Instruction), target, nil, cut); r {
			return false
		}
	}
	return true
}

func isLenOfField(v ssa.Value, owner, field string) bool {
	call, ok := v.(*ssa.Call)
	if !ok {
		return false
	}
	bi, ok := call.Call.Value.(*ssa.Builtin)
	if !ok || bi.Name() != "len" {
		return false
	}
	return isFieldLoad(call.Call.Args[0], owner, field)
}

func C10(c *Ctx) {
	c.Note("prefix consistency itself; batch atomicity (a request is one WAL record per entry and LSM.SetBatch may split it across segments); reopen succeeding on every crash image")
	activeSegmentStateGroup(c, "K6.active-segment-is-in-active-state")
	const r1 = "K5.torn-tail-classification"
	c.Rule(r1, "wal.replayFile and wal.verifySegment classify the record iterator's terminal error identically (nil/EOF → clean end, ErrPartialRecord → clean end resp. truncate at the last complete record, ErrBadChecksum → error, default → error); vlog.iterateLogFile and sanitizeValueLog agree (nil/EOF → end, ErrPartialEntry/ErrBadChecksum → stop at the last valid offset resp. ErrTruncate, default → error)")
	errM := MethodNamed("wal.RecordIterator", "Err")
	rf := c.Fn("wal", "Manager.replayFile")
	vs := c.Fn("wal", "verifySegment")
	if rf != nil && vs != nil {
		a, _, fa := errSwitch(rf, errM)
		b, _, fb := errSwitch(vs, errM)
		wantA := map[string]string{"nil": "ok", "EOF": "ok", "ErrPartialRecord": "ok", "ErrBadChecksum": "error", "default": "error"}
		wantB := map[string]string{"nil": "ok", "EOF": "ok", "ErrPartialRecord": "call:Truncate", "ErrBadChecksum": "error", "default": "error"}
		c.Decide(sameMap(a, wantA), r1, key(rf, "switch(reIter.Err)"), rf.Pos(), fa+1, "replay: "+renderSwitch(a), "replay classifies stream endings as {"+renderSwitch(a)+"}, expected {"+renderSwitch(wantA)+"}")
		c.Decide(sameMap(b, wantB), r1, key(vs, "switch(reIter.Err)"), vs.Pos(), fb+1, "verify: "+renderSwitch(b), "verify classifies stream endings as {"+renderSwitch(b)+"}, expected {"+renderSwitch(wantB)+"}")
	}
	eM := MethodNamed("kv.EntryIterator", "Err")
	il := c.Fn("vlog", "iterateLogFile")
	sv := c.Fn("vlog", "sanitizeValueLog")
	if il != nil && sv != nil {
		a, _, fa := errSwitch(il, eM)
		b, _, fb := errSwitch(sv, eM)
		wantA := map[string]string{"nil": "ok", "EOF": "ok", "ErrPartialEntry": "ok", "ErrBadChecksum": "ok", "default": "error"}
		wantB := map[string]string{"nil": "ok", "EOF": "ok", "ErrPartialEntry": "sentinel:ErrTruncate", "ErrBadChecksum": "sentinel:ErrTruncate", "default": "error"}
		c.Decide(sameMap(a, wantA), r1, key(il, "switch(stream.Err)"), il.Pos(), fa+1, "iterate: "+renderSwitch(a), "vlog iterate classifies stream endings as {"+renderSwitch(a)+"}, expected {"+renderSwitch(wantA)+"}")
		c.Decide(sameMap(b, wantB), r1, key(sv, "switch(eIter.Err)"), sv.Pos(), fb+1, "sanitize: "+renderSwitch(b), "vlog sanitize classifies stream endings as {"+renderSwitch(b)+"}, expected {"+renderSwitch(wantB)+"}")
	}

	const r2 = "K1.truncate-at-last-complete-record"
	c.Rule(r2, "wal.verifySegment truncates at an offset that only advances inside the Next() loop by Length()+8 per complete record; vlog.iterateLogFile / sanitizeValueLog return the offset advanced by RecordLen() per complete record; valueLog.replayLog truncates the segment at the offset Iterate returned")
	if vs != nil {
		for i, t := range need(c, r2, vs, false, "File.Truncate", Named("(vfs.File).Truncate"), 1) {
			arg := t.Common().Args[0]
			ok, why := offsetAccumulator(arg, func(call *ssa.Call) bool { return MethodNamed("wal.RecordIterator", "Length")(call.Common()) }, 8)
			c.Decide(ok, r2, key(vs, fmt.Sprintf("Truncate[%d]#offset", i+1)), t.Pos(), 3, "truncation offset = Σ(Length()+8) over complete records", "truncation offset is not the running sum of Length()+8: "+why)
		}
	}
	if fn := c.Fn("", "valueLog.replayLog"); fn != nil {
		it := need(c, r2, fn, false, "Manager.Iterate", Named("vlog.(*Manager).Iterate"), 1)
		for i, t := range need(c, r2, fn, false, "SegmentTruncate", Named("vlog.(*Manager).SegmentTruncate"), 1) {
			arg := t.Common().Args[len(t.Common().Args)-1]
			good := false
			if len(it) > 0 {
				for _, r := range *it[0].Value().Referrers() {
					if ex, ok := r.(*ssa.Extract); ok && ex.Index == 0 && ex == arg {
						good = true
					}
				}
			}
			c.Decide(good, r2, key(fn, fmt.Sprintf("SegmentTruncate[%d]#arg=endOffset", i+1)), t.Pos(), 2, "truncates at the offset returned by Iterate", "SegmentTruncate is not given Iterate's end offset")
			succOK(c, r2, key(fn, fmt.Sprintf("SegmentTruncate[%d]<-ok(Iterate)", i+1)), fn, it, "Iterate", t.(ssa.Instruction), "SegmentTruncate")
		}
	}

	const r3 = "K1.head-after-lsm-write"
	c.Rule(r3, "DB.applyRequests advances the value-log head (updateHead) only after writeToLSM()==nil for that request, under the DB lock")
	if fn := c.Fn("", "DB.applyRequests"); fn != nil {
		beforeOK(c, r3, fn, "writeToLSM", Named("NoKV.(*DB).writeToLSM"), "updateHead", Named("NoKV.(*DB).updateHead"), 1)
		ls := ComputeLockSets(fn)
		underLock(c, r3, fn, ls, "updateHead", instrs(Calls(fn, false, Named("NoKV.(*DB).updateHead"))), "NoKV.DB.RWMutex", false)
		for i, w := range Calls(fn, false, Named("NoKV.(*DB).writeToLSM")) {
			errPropagated(c, r3, key(fn, fmt.Sprintf("writeToLSM[%d]#error-propagated", i+1)), fn, w)
		}
	}

	const r5 = "K11.flush-order"
	flushOrderGroup(c, r5)
	headPersistGroup(c, "K12.vlog-head-persisted-on-file-change")
	orphanSSTGroup(c, "K2.orphan-sst-removed-on-open")
	walBatchAtomicityGroup(c, "K1.request-is-one-wal-unit")
	vlogSegmentKnownGroup(c, "K1.vlog-segment-known-before-referenced")
	segmentIDAllocatorGroup(c, "K3.single-segment-id-allocator")
	const r4 = "K2.orphan-vlog-removal-guard"
	c.Rule(r4, "valueLog.reconcileManifest removes a segment only when the manifest marks it invalid (false edge of meta.Valid) or when its fid is above the highest manifest-valid fid (false edge of fid <= threshold) and at least one valid file exists")
	if fn := c.Fn("", "valueLog.reconcileManifest"); fn != nil {
		// the removals may live in helpers of reconcileManifest; each one is guarded by the invalid
		// edge of meta.Valid, or – decided by order-sign evaluation – is reachable only for a fid
		// above the value it is compared with (the highest manifest-valid fid)
		rmM := Named("vlog.(*Manager).Remove")
		var holders []*ssa.Function
		for _, s := range effectSites(c, fn, func(ci ssa.CallInstruction) bool { return rmM(ci.Common()) }, 1) {
			g := fn
			if !rmM(s.Common()) {
				g = StaticFn(s.Common())
			}
			dup := false
			for _, h := range holders {
				if h == g {
					dup = true
				}
			}
			if !dup {
				holders = append(holders, g)
			}
		}
		n := 0
		for _, g := range holders {
			for _, r := range Calls(g, false, rmM) {
				n++
				g1 := false
				for _, b := range g.Blocks {
					ifi := ifOf(b)
					if ifi == nil {
						continue
					}
					// !meta.Valid  (Field of a struct value)
					v := ifi.Cond
					pol := true
					if u, ok := v.(*ssa.UnOp); ok && u.Op == token.NOT {
						v, pol = u.X, false
					}
					if isFieldLoad(v, "manifest.ValueLogMeta", "Valid") {
						idx := 1 // invalid edge
						if !pol {
							idx = 0
						}
						if EdgeDominates(b, b.Succs[idx], r.Block()) {
							g1 = true
						}
					}
				}
				if !g1 {
					idArg := Unwrap(r.Common().Args[len(r.Common().Args)-1])
					classify := func(bo *ssa.BinOp) (string, bool, bool) {
						x, y := Unwrap(bo.X), Unwrap(bo.Y)
						if _, isC := y.(*ssa.Const); x == idArg && !isC {
							return "fid:thr", false, true
						}
						if _, isC := x.(*ssa.Const); y == idArg && !isC {
							return "fid:thr", true, true
						}
						return "", false, false
					}
					reach := func(sg int) bool {
						env := &SignEnv{Classify: classify, Signs: map[string]int{"fid:thr": sg}, Depth: 1}
						return env.Reaches(g, r.(ssa.Instruction))
					}
					g1 = !reach(-1) && !reach(0) && reach(1)
				}
				c.Decide(g1, r4, key(fn, fmt.Sprintf("Remove[%d]#guard", n)), r.Pos(), 2, "removal is guarded by !meta.Valid or fid > maxValid", "value-log segment removal during reconciliation is not guarded by the manifest validity / max-valid-fid test")
			}
		}
		c.Decide(n >= 2, r4, key(fn, "has:Manager.Remove"), fn.Pos(), n+1, fmt.Sprintf("%d removal site(s)", n), fmt.Sprintf("expected at least 2 call(s) to Manager.Remove in (*NoKV.valueLog).reconcileManifest (invalidated segments and orphans above the highest valid fid), found %d", n))
	}
}

func sameMap(a, b map[string]string) bool {
	if len(a) != len(b) {
		return false
	}
	for k, v := range a {
		if b[k] != v {
			return false
		}
	}
	return true
}

// offsetAccumulator: v is a loop phi whose non-initial edges are `phi + conv(lenCall) + k`.
func offsetAccumulator(v ssa.Value, isLen func(*ssa.Call) bool, k int64) (bool, string) {
	phi, ok := v.(*ssa.Phi)
	if !ok {
		return false, "argument is not a loop-carried value"
	}
	incs := 0
	for _, e := range phi.Edges {
		if c, ok := e.(*ssa.Const); ok {
			if i, ok := ConstInt(c); ok && i == 0 {
				continue
			}
		}
		// e = (phi + conv(len)) + k   in any association
		terms, consts := flattenAdd(e)
		hasPhi, hasLen := false, false
		for _, t := range terms {
			if t == phi {
				hasPhi = true
			}
			if call, ok := Unwrap(t).(*ssa.Call); ok && isLen(call) {
				hasLen = true
			}
		}
		if !(hasPhi && hasLen && consts == k && len(terms) == 2) {
			return false, fmt.Sprintf("increment has %d terms, constant %d", len(terms), consts)
		}
		incs++
	}
	if incs == 0 {
		return false, "no increment edge"
	}
	return true, ""
}

func flattenAdd(v ssa.Value) ([]ssa.Value, int64) {
	if bo, ok := v.(*ssa.BinOp); ok && bo.Op == token.ADD {
		a, ca := flattenAdd(bo.X)
		b, cb := flattenAdd(bo.Y)
		return append(a, b...), ca + cb
	}
	if i, ok := ConstInt(v); ok {
		return nil, i
	}
	return []ssa.Value{v}, 0
}

func C11(c *Ctx) {
	c.Note("that compaction never drops or resurrects a version (value reasoning); crash/reopen cycles; the C01 tie-break")
	compactionOutcomeGroup(c, "K2.compaction-outcome-reported-truthfully")
	const r1 = "K3.background-cannot-write"
	c.Rule(r1, "from the background roots (memtable flush, compaction, WAL watchdog, stats, prefetch) no user-data write entry point (DB.batchSet, DB.sendToWriteCh, LSM.Set, LSM.SetBatch, memTable.Set/setBatch, wal.Manager.Append) is reachable in the call graph (VTA); from the value-log GC root they are reachable only through valueLog.rewrite → DB.batchSet")
	sinks := map[*ssa.Function]string{}
	for _, s := range [][2]string{{"", "DB.batchSet"}, {"", "DB.sendToWriteCh"}, {"lsm", "LSM.Set"}, {"lsm", "LSM.SetBatch"}, {"lsm", "memTable.Set"}, {"lsm", "memTable.setBatch"}, {"wal", "Manager.Append"}} {
		if f := c.Fn(s[0], s[1]); f != nil {
			sinks[f] = FuncName(f)
		}
	}
	roots := [][2]string{{"lsm", "levelManager.flush"}, {"lsm", "levelManager.doCompact"}, {"lsm", "levelManager.runCompactDef"}, {"lsm", "levelManager.subcompact"},
		{"lsm", "levelManager.moveToIngest"}, {"wal", "Watchdog.observe"}, {"", "DB.prefetchLoop"}, {"", "Stats.collect"}, {"lsm", "LSM.recovery"}}
	for _, rt := range roots {
		f := c.FnOpt(rt[0], rt[1])
		if f == nil {
			if rt[1] == "Stats.collect" {
				continue
			}
			c.Errorf("UNRESOLVED-ANCHOR %s.%s", rt[0], rt[1])
			continue
		}
		reach := c.P.Reach([]*ssa.Function{f}, nil)
		for s, name := range sinks {
			k := FuncName(f) + "#cannot-reach:" + name
			if path, ok := reach[s]; ok {
				c.Fail(r1, k, f.Pos(), len(reach), "background root %s reaches write entry point %s via %s", FuncName(f), name, pathStr(path))
			} else {
				c.Pass(r1, k, f.Pos(), len(reach), "%d functions reachable, write entry point not among them", len(reach))
			}
		}
	}
	// GC root: only via rewrite
	if gc := c.Fn("", "DB.RunValueLogGC"); gc != nil {
		rw := c.Fn("", "valueLog.rewrite")
		stop := map[*ssa.Function]bool{}
		if rw != nil {
			stop[rw] = true
		}
		reach := c.P.Reach([]*ssa.Function{gc}, stop)
		for s, name := range sinks {
			k := FuncName(gc) + "#reaches-only-via-rewrite:" + name
			if path, ok := reach[s]; ok {
				c.Fail(r1, k, gc.Pos(), len(reach), "value-log GC reaches %s without passing valueLog.rewrite: %s", name, pathStr(path))
			} else {
				c.Pass(r1, k, gc.Pos(), len(reach), "not reachable when rewrite is cut (%d functions explored)", len(reach))
			}
		}
		if _, ok := reach[rw]; !ok && rw != nil {
			c.Fail(r1, FuncName(gc)+"#reaches:rewrite", gc.Pos(), 1, "RunValueLogGC no longer reaches valueLog.rewrite (anchor drift)")
		}
	}
	// flushDiscardStats writes only the reserved key
	if fn := c.Fn("", "valueLog.flushDiscardStats"); fn != nil {
		sends := Calls(fn, true, Named("NoKV.(*DB).sendToWriteCh"))
		iks := Calls(fn, true, Named("kv.InternalKey"))
		good := len(sends) == 1 && len(iks) == 1
		if good {
			g, ok := iks[0].Common().Args[1].(*ssa.UnOp)
			if !ok {
				good = false
			} else if gl, ok := g.X.(*ssa.Global); !ok || gl.Name() != "lfDiscardStatsKey" {
				good = false
			}
		}
		c.Decide(good, r1, key(fn, "writes-only-reserved-key"), fn.Pos(), 3, "the discard-stats flusher writes only the reserved lfDiscardStatsKey", "flushDiscardStats sends a key other than the reserved discard-stats key (or more than one write)")
	}

	const r2 = "K2.gc-liveness-guard"
	gcLivenessGroup(c, r2)
	const r4 = "K1.compaction-keeps-every-entry"
	compactionKeepsAllGroup(c, r4)
	levelDisjointGroup(c, "K2.level-tables-disjoint")
	const r3 = "K3.lsm-set-callers"
	c.Rule(r3, "LSM.Set (single-entry write path) has no caller in non-test module code other than none; memTable.setBatch is called only from LSM.SetBatch / memTable.Set")
	if f := c.Fn("lsm", "LSM.Set"); f != nil {
		roots := c.P.CallerRoots(f)
		for _, r := range roots {
			c.Fail(r3, FuncName(f)+"#caller:"+FuncName(r), r.Pos(), 1, "LSM.Set is called by %s: a write path that bypasses the commit worker", FuncName(r))
		}
		if len(roots) == 0 {
			c.Pass(r3, FuncName(f)+"#no-callers", f.Pos(), 1, "no non-test caller")
		}
	}
	onlyCallers(c, r3, c.Fn("lsm", "memTable.setBatch"), map[string]string{"(*lsm.LSM).SetBatch": "batch write", "(*lsm.memTable).Set": "single write wrapper", "(*lsm.LSM).Set": "single write"}, 1)
}

func pathStr(p []*ssa.Function) string {
	s := ""
	for i, f := range p {
		if i > 0 {
			s += " → "
		}
		s += FuncName(f)
	}
	return s
}

// gcLiveness inspects the re-insert closure of valueLog.rewrite.
func gcLiveness(c *Ctx, rule string, proc *ssa.Function) {
	c.Touch(proc)
	// the construction site: EntryPool.Get
	gets := Calls(proc, false, Named("(*sync.Pool).Get"))
	if len(gets) == 0 {
		c.Undec(rule, key(proc, "reinsert-construction"), proc.Pos(), 1, "cannot find the re-insert entry construction (EntryPool.Get)")
		return
	}
	g := gets[0].(ssa.Instruction)
	// guards: DiscardEntry false edge dominates
	okD, _ := guardedByCall(proc, g, Named("kv.DiscardEntry"), false)
	c.Decide(okD, rule, key(proc, "reinsert<-!DiscardEntry"), g.Pos(), 2, "re-insert lies behind the false edge of kv.DiscardEntry", "re-insert is not guarded by kv.DiscardEntry")
	// liveness decision by exhaustive order-sign evaluation: the guard touches the decoded live
	// pointer (bucket, fid, offset) and the scanned position only through comparisons, so its
	// behaviour is fixed by the three signs of live−scanned.  Helpers are evaluated too.
	live := livePointerRoots(proc, 2)
	classify := func(bo *ssa.BinOp) (string, bool, bool) {
		xr, xf, xok := ptrFieldRoot(bo.X)
		yr, yf, yok := ptrFieldRoot(bo.Y)
		xl := xok && live[xr]
		yl := yok && live[yr]
		switch {
		case xl && !yl:
			return xf, false, true
		case yl && !xl:
			return yf, true, true
		}
		return "", false, false
	}
	mustSkipBad, keepBad := "", ""
	explored := 0
	for _, sb := range []int{0, 1, -1} {
		for _, sf := range []int{0, 1, -1} {
			for _, so := range []int{0, 1, -1} {
				env := &SignEnv{Classify: classify, Signs: map[string]int{"Bucket": sb, "Fid": sf, "Offset": so}, Depth: 2}
				reach := env.Reaches(proc, g)
				explored += env.Visited
				// only the record the LSM points at is live: a newer pointer means it was
				// overwritten, an older one that it never became visible (a lost write kept by
				// recovery as an orphan record)
				superseded := sb != 0 || sf != 0 || so != 0
				if superseded && reach && mustSkipBad == "" {
					mustSkipBad = fmt.Sprintf("live pointer vs scanned record: bucket %s, fid %s, offset %s", signStr(sb), signStr(sf), signStr(so))
				}
				if sb == 0 && sf == 0 && so == 0 && !reach {
					keepBad = "live pointer == scanned position"
				}
			}
		}
	}
	c.Decide(mustSkipBad == "", rule, key(proc, "reinsert-unreachable-when-superseded"), g.Pos(), explored, "for all 27 orderings of (bucket, fid, offset): only the record the LSM points at exactly is re-inserted", "a record the LSM does not point at can be re-inserted ("+mustSkipBad+"): GC brings back an overwritten value, or brings to life a write that was lost before it reached the WAL (the LSM still points at the older record)")
	c.Decide(keepBad == "", rule, key(proc, "reinsert-reachable-when-live"), g.Pos(), explored, "the record the LSM points at is re-inserted", "the live record ("+keepBad+") is not re-inserted: GC drops a live value when it deletes the file")
	// copies from the scanned entry (parameter 0)
	var scanned *ssa.Parameter
	for _, p := range proc.Params {
		if TypeName(p.Type()) == "kv.Entry" && scanned == nil {
			scanned = p
		}
	}
	if scanned == nil && len(proc.Params) >= 1 {
		scanned = proc.Params[0]
	}
	if scanned != nil {
		e := scanned
		copied := map[string]bool{}
		AllInstrs(proc, false, func(in ssa.Instruction) {
			st, ok := in.(*ssa.Store)
			if !ok {
				return
			}
			o, f, ok := FieldOf(st.Addr)
			if !ok || o != "kv.Entry" {
				return
			}
			if valueFromParamField(st.Val, e, f, 5) {
				copied[f] = true
			}
		})
		for _, f := range []string{"Key", "Value", "ExpiresAt", "Meta"} {
			c.Decide(copied[f], rule, key(proc, "reinsert."+f+"=scanned."+f), g.Pos(), 1, "copied from the scanned record", "re-inserted entry's "+f+" is not copied from the scanned record's "+f)
		}
	}
}

func blockReachesAvoiding(from, to *ssa.BasicBlock, avoid map[*ssa.BasicBlock]bool) bool {
	seen := map[*ssa.BasicBlock]bool{}
	work := []*ssa.BasicBlock{from}
	for len(work) > 0 {
		b := work[len(work)-1]
		work = work[:len(work)-1]
		if b == to {
			return true
		}
		if seen[b] || avoid[b] {
			continue
		}
		seen[b] = true
		work = append(work, b.Succs...)
	}
	return false
}

// valueFromParamField: v is (an append/copy of) param.field.
func valueFromParamField(v ssa.Value, p *ssa.Parameter, field string, depth int) bool {
	if depth <= 0 {
		return false
	}
	switch x := v.(type) {
	case *ssa.UnOp:
		if x.Op == token.MUL {
			if fa, ok := x.X.(*ssa.FieldAddr); ok && fa.X == p {
				_, f, _ := FieldOf(fa)
				return f == field
			}
		}
	case *ssa.Call:
		if bi, ok := x.Call.Value.(*ssa.Builtin); ok && bi.Name() == "append" {
			for _, a := range x.Call.Args[1:] {
				if valueFromParamField(a, p, field, depth-1) {
					return true
				}
			}
		}
	case *ssa.Slice:
		return valueFromParamField(x.X, p, field, depth-1)
	case *ssa.BinOp:
		// the field with some bits masked (e.Meta &^ kv.BitValuePointer)
		if x.Op == token.AND || x.Op == token.AND_NOT {
			return valueFromParamField(x.X, p, field, depth-1)
		}
	case *ssa.Phi:
		for _, e := range x.Edges {
			if valueFromParamField(e, p, field, depth-1) {
				return true
			}
		}
	}
	return false
}

func signStr(s int) string {
	switch {
	case s < 0:
		return "older/less"
	case s > 0:
		return "newer/greater"
	}
	return "equal"
}

// ptrFieldRoot: v is (a conversion of) field f of a kv.ValuePtr; root is the struct's
// alloc or parameter.
func ptrFieldRoot(v ssa.Value) (root ssa.Value, field string, ok bool) {
	v = Unwrap(v)
	switch x := v.(type) {
	case *ssa.UnOp:
		if x.Op != token.MUL {
			return nil, "", false
		}
		fa, ok := x.X.(*ssa.FieldAddr)
		if !ok {
			return nil, "", false
		}
		o, f, _ := FieldOf(fa)
		if o != "kv.ValuePtr" {
			return nil, "", false
		}
		return fa.X, f, true
	case *ssa.Field:
		o, f, _ := FieldOf(x)
		if o != "kv.ValuePtr" {
			return nil, "", false
		}
		r := x.X
		if u, ok := r.(*ssa.UnOp); ok && u.Op == token.MUL {
			r = u.X
		}
		return r, f, true
	}
	return nil, "", false
}

// livePointerRoots: the kv.ValuePtr allocs of fn that are filled by ValuePtr.Decode (the
// pointer currently stored in the LSM), and — through static module calls — the callee
// parameters (or their spill slots) that receive them.
func livePointerRoots(fn *ssa.Function, depth int) map[ssa.Value]bool {
	live := map[ssa.Value]bool{}
	for _, ci := range Calls(fn, false, Named("kv.(*ValuePtr).Decode")) {
		if al, ok := ci.Common().Args[0].(*ssa.Alloc); ok {
			live[al] = true
		}
	}
	var prop func(f *ssa.Function, d int)
	prop = func(f *ssa.Function, d int) {
		if d <= 0 {
			return
		}
		AllInstrs(f, false, func(in ssa.Instruction) {
			ci, ok := in.(ssa.CallInstruction)
			if !ok {
				return
			}
			sf := StaticFn(ci.Common())
			if sf == nil || sf.Blocks == nil || !InModule(sf) {
				return
			}
			args := ci.Common().Args
			any := false
			for i, a := range args {
				r := a
				if u, ok := r.(*ssa.UnOp); ok && u.Op == token.MUL {
					r = u.X
				}
				if !live[r] || i >= len(sf.Params) {
					continue
				}
				p := sf.Params[i]
				live[p] = true
				any = true
				// by-value parameter spilled to an alloc
				if p.Referrers() != nil {
					for _, ref := range *p.Referrers() {
						if st, ok := ref.(*ssa.Store); ok && st.Val == p {
							live[st.Addr] = true
						}
					}
				}
			}
			if any {
				prop(sf, d-1)
			}
		})
	}
	prop(fn, depth)
	return live
}
