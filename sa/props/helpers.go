package props

import (
	"fmt"
	"go/token"
	"go/types"
	"strings"

	"golang.org/x/tools/go/ssa"

	. "nokvsa/core"
)

// site key: function + role + ordinal (never a line number).
func key(fn *ssa.Function, role string) string {
	return FuncName(fn) + "#" + role
}

func instrs(cs []ssa.CallInstruction) []ssa.Instruction {
	out := make([]ssa.Instruction, len(cs))
	for i, c := range cs {
		out[i] = c.(ssa.Instruction)
	}
	return out
}

// need asserts that fn contains at least min calls matching m; a missing necessary
// call is a violation of the rule (not an analysis error).
func need(c *Ctx, rule string, fn *ssa.Function, deep bool, desc string, m Matcher, min int) []ssa.CallInstruction {
	if fn == nil {
		return nil
	}
	cs := Calls(fn, deep, m)
	if len(cs) < min {
		c.Fail(rule, key(fn, "has:"+desc), fn.Pos(), 1, "expected at least %d call(s) to %s in %s, found %d", min, desc, FuncName(fn), len(cs))
	} else if min > 0 {
		c.Pass(rule, key(fn, "has:"+desc), fn.Pos(), len(cs), "%d call site(s) of %s", len(cs), desc)
	}
	return cs
}

// before: for every call B in fn (same function body, no closures), every path from
// entry to B executes a call A first.
func before(c *Ctx, rule string, fn *ssa.Function, aDesc string, A Matcher, bDesc string, B Matcher, minB int) {
	if fn == nil {
		return
	}
	as := Calls(fn, false, A)
	bs := need(c, rule, fn, false, bDesc, B, minB)
	for i, b := range bs {
		k := key(fn, fmt.Sprintf("%s<-%s[%d]", bDesc, aDesc, i+1))
		ok, n := MustPrecede(fn, b.(ssa.Instruction), instrs(as))
		if ok {
			c.Pass(rule, k, b.Pos(), n, "%s is preceded by %s on every path (%d blocks explored, %d %s site(s))", bDesc, aDesc, n, len(as), aDesc)
		} else {
			c.Fail(rule, k, b.Pos(), n, "a path reaches %s without executing %s first", bDesc, aDesc)
		}
	}
}

// beforeOK: every path from entry to each B passes a call A whose error result has
// been tested nil (B lies behind A's success edge).
func beforeOK(c *Ctx, rule string, fn *ssa.Function, aDesc string, A Matcher, bDesc string, B Matcher, minB int, skip ...edgeSet) {
	if fn == nil {
		return
	}
	as := Calls(fn, false, A)
	bs := need(c, rule, fn, false, bDesc, B, minB)
	for i, b := range bs {
		k := key(fn, fmt.Sprintf("%s<-ok(%s)[%d]", bDesc, aDesc, i+1))
		succOK(c, rule, k, fn, as, aDesc, b.(ssa.Instruction), bDesc, skip...)
	}
}

// edgeSet is a set of CFG edges that satisfy an ordering obligation by themselves
// (e.g. the "writer == nil" edge satisfies "Flush precedes").
type edgeSet map[[2]*ssa.BasicBlock]bool

// nilFieldEdges: edges taken when owner.field == nil.
func nilFieldEdges(fn *ssa.Function, owner, field string) edgeSet {
	out := edgeSet{}
	for _, b := range fn.Blocks {
		ifi := ifOf(b)
		if ifi == nil {
			continue
		}
		bo, ok := ifi.Cond.(*ssa.BinOp)
		if !ok || !(bo.Op == token.EQL || bo.Op == token.NEQ) || !IsNilConst(bo.Y) || !isFieldLoad(bo.X, owner, field) {
			continue
		}
		if bo.Op == token.EQL {
			out[[2]*ssa.BasicBlock{b, b.Succs[0]}] = true
		} else {
			out[[2]*ssa.BasicBlock{b, b.Succs[1]}] = true
		}
	}
	return out
}

// succOK decides: target is reached only after some call in as returned a nil error.
func succOK(c *Ctx, rule, k string, fn *ssa.Function, as []ssa.CallInstruction, aDesc string, target ssa.Instruction, bDesc string, skip ...edgeSet) bool {
	skipEdges := map[[2]*ssa.BasicBlock]bool{}
	for _, s := range skip {
		for e := range s {
			skipEdges[e] = true
		}
	}
	r0, n := CutReach(fn, nil, target, instrs(as), skipEdges)
	ok := !r0
	if !ok {
		c.Fail(rule, k, target.Pos(), n, "a path reaches %s without executing %s first", bDesc, aDesc)
		return false
	}
	facts := n
	for _, a := range as {
		// other A sites cut the search: the last A before B is the one that counts
		var others []ssa.Instruction
		for _, o := range as {
			if o != a {
				others = append(others, o.(ssa.Instruction))
			}
		}
		// is target reachable from a at all?
		if r, _ := CutReach(fn, a.(ssa.Instruction), target, others, nil); !r {
			continue
		}
		ev := ErrResult(a)
		if ev == nil {
			c.Fail(rule, k, a.Pos(), facts, "the error result of %s is discarded before %s", aDesc, bDesc)
			return false
		}
		fs := FlowSet(ev)
		edges := NilEdges(fn, fs)
		cut := map[[2]*ssa.BasicBlock]bool{}
		for _, e := range edges {
			cut[e.Nil] = true
		}
		// idiom: utils.Panic(err) — execution continues past it only when err == nil
		for _, pc := range Calls(fn, false, Named("utils.Panic")) {
			if len(pc.Common().Args) == 1 && fs[pc.Common().Args[0]] {
				others = append(others, pc.(ssa.Instruction))
			}
		}
		r, m := CutReach(fn, a.(ssa.Instruction), target, others, cut)
		facts += m
		if r {
			c.Fail(rule, k, target.Pos(), facts, "%s is reachable from %s (at %s) without the error having been tested nil", bDesc, aDesc, c.P.Pos(a.Pos()))
			return false
		}
	}
	c.Pass(rule, k, target.Pos(), facts, "%s is reached only after %s returned nil (%d blocks explored)", bDesc, aDesc, facts)
	return true
}

// onlyCallers: the set of declared functions calling fn (call graph) is within allowed.
func onlyCallers(c *Ctx, rule string, fn *ssa.Function, allowed map[string]string, minCallers int) {
	if fn == nil {
		return
	}
	roots := c.P.CallerRoots(fn)
	n := 0
	for _, r := range roots {
		name := FuncName(r)
		if strings.HasSuffix(name, "$bound") || strings.HasSuffix(name, "$thunk") {
			continue
		}
		n++
		k := FuncName(fn) + "#caller:" + name
		if reason, ok := allowed[name]; ok {
			c.Pass(rule, k, r.Pos(), 1, "allowed caller (%s)", reason)
		} else if via := helperOfAllowed(c, r, allowed, 2); via != "" {
			c.Pass(rule, k, r.Pos(), 2, "unexported helper called only from allowed caller(s) %s", via)
		} else {
			c.Fail(rule, k, r.Pos(), 1, "%s is called by %s, which is not in the allowed caller table %v", FuncName(fn), name, keys(allowed))
		}
	}
	c.Floor(rule, n, minCallers, "callers of "+FuncName(fn))
}

func keys(m map[string]string) []string {
	var out []string
	for k := range m {
		out = append(out, k)
	}
	sortStrings(out)
	return out
}

func sortStrings(s []string) {
	for i := 1; i < len(s); i++ {
		for j := i; j > 0 && s[j] < s[j-1]; j-- {
			s[j], s[j-1] = s[j-1], s[j]
		}
	}
}

// fieldStores lists instructions in module functions that write field `field` of
// named type owner ("lsm.levelHandler"): Store through FieldAddr, MapUpdate/delete on
// a map loaded from the field, and atomic/method calls are NOT included.
type fieldWrite struct {
	Fn   *ssa.Function
	In   ssa.Instruction
	Kind string
}

func fieldWrites(p *Program, owner, field string) []fieldWrite {
	var out []fieldWrite
	for _, fn := range p.ModFuncs {
		for _, b := range fn.Blocks {
			for _, in := range b.Instrs {
				switch x := in.(type) {
				case *ssa.Store:
					if o, f, ok := FieldOf(x.Addr); ok && o == owner && f == field {
						if _, isFA := x.Addr.(*ssa.FieldAddr); isFA {
							out = append(out, fieldWrite{fn, in, "store"})
						}
					}
				case *ssa.MapUpdate:
					if o, f, ok := FieldOf(x.Map); ok && o == owner && f == field {
						out = append(out, fieldWrite{fn, in, "mapupdate"})
					}
				case *ssa.Call:
					if bi, ok := x.Call.Value.(*ssa.Builtin); ok && (bi.Name() == "delete" || bi.Name() == "clear") && len(x.Call.Args) > 0 {
						if o, f, ok := FieldOf(x.Call.Args[0]); ok && o == owner && f == field {
							out = append(out, fieldWrite{fn, in, bi.Name()})
						}
					}
				}
			}
		}
	}
	return out
}

// onlyWriters: writers of owner.field are within the allowed root-function table.
func onlyWriters(c *Ctx, rule, owner, field string, allowed map[string]string, min int) []fieldWrite {
	ws := fieldWrites(c.P, owner, field)
	seen := map[string]bool{}
	for _, w := range ws {
		name := FuncName(Root(w.Fn))
		c.Touch(Root(w.Fn))
		k := owner + "." + field + "#writer:" + name
		if seen[k] {
			continue
		}
		seen[k] = true
		if reason, ok := allowed[name]; ok {
			c.Pass(rule, k, w.In.Pos(), 1, "allowed writer (%s)", reason)
		} else if via := helperOfAllowed(c, Root(w.Fn), allowed, 2); via != "" {
			c.Pass(rule, k, w.In.Pos(), 2, "unexported helper called only from allowed writer(s) %s", via)
		} else {
			c.Fail(rule, k, w.In.Pos(), 1, "%s.%s is written (%s) in %s, not in the allowed writer table %v", owner, field, w.Kind, name, keys(allowed))
		}
	}
	c.Floor(rule, len(seen), min, "writers of "+owner+"."+field)
	return ws
}

// condIsFieldLoad: v is (a comparison with a constant of) a load of owner.field.
func isFieldLoad(v ssa.Value, owner, field string) bool {
	v = Unwrap(v)
	if u, ok := v.(*ssa.UnOp); ok && u.Op == token.MUL {
		if o, f, ok := FieldOf(u.X); ok && o == owner && f == field {
			return true
		}
	}
	if f, ok := v.(*ssa.Field); ok {
		if o, fl, ok := FieldOf(f); ok && o == owner && fl == field {
			return true
		}
	}
	return false
}

// ifOf returns the If terminating block b, if any.
func ifOf(b *ssa.BasicBlock) *ssa.If {
	if len(b.Instrs) == 0 {
		return nil
	}
	i, _ := b.Instrs[len(b.Instrs)-1].(*ssa.If)
	return i
}

// guardedByCall: target is dominated by the `want` edge of an If whose condition is
// (derived from) the result of a call matching m.  Derivations accepted: the call
// value itself, its negation, comparison with a constant.
func guardedByCall(fn *ssa.Function, target ssa.Instruction, m Matcher, want bool) (bool, *ssa.If) {
	for _, b := range fn.Blocks {
		ifi := ifOf(b)
		if ifi == nil {
			continue
		}
		call, pol, ok := condCall(ifi.Cond, true)
		if !ok || !m(call.Common()) {
			continue
		}
		// pol: value of cond when call returned true
		edgeIdx := 0
		if pol != want {
			edgeIdx = 1
		}
		if EdgeDominates(b, b.Succs[edgeIdx], target.Block()) {
			return true, ifi
		}
	}
	return false, nil
}

// condCall peels !x and x==true/false to find a call; returns polarity.
func condCall(v ssa.Value, pol bool) (*ssa.Call, bool, bool) {
	switch x := v.(type) {
	case *ssa.Call:
		return x, pol, true
	case *ssa.UnOp:
		if x.Op == token.NOT {
			return condCall(x.X, !pol)
		}
	case *ssa.BinOp:
		if x.Op == token.EQL || x.Op == token.NEQ {
			if cst, ok := x.Y.(*ssa.Const); ok && cst.Value != nil && types.Identical(cst.Type().Underlying(), types.Typ[types.Bool]) {
				bv := cst.Value.String() == "true"
				p := pol
				if (x.Op == token.EQL) != bv {
					p = !p
				}
				return condCall(x.X, p)
			}
		}
	}
	return nil, false, false
}

// hasErrResult reports whether the function type has an error as last result.
func posOf(in ssa.Instruction) token.Pos {
	if in == nil {
		return token.NoPos
	}
	return in.Pos()
}

// fieldStoresIn lists Store/MapUpdate/delete instructions in fn (not closures unless deep) on owner.field.
func fieldStoresIn(fn *ssa.Function, deep bool, owner, field string) []ssa.Instruction {
	var out []ssa.Instruction
	AllInstrs(fn, deep, func(in ssa.Instruction) {
		switch x := in.(type) {
		case *ssa.Store:
			if _, isFA := x.Addr.(*ssa.FieldAddr); isFA {
				if o, f, ok := FieldOf(x.Addr); ok && o == owner && f == field {
					out = append(out, in)
				}
			}
		case *ssa.MapUpdate:
			if o, f, ok := FieldOf(x.Map); ok && o == owner && f == field {
				out = append(out, in)
			}
		case *ssa.Call:
			if bi, ok := x.Call.Value.(*ssa.Builtin); ok && (bi.Name() == "delete" || bi.Name() == "clear") && len(x.Call.Args) > 0 {
				if o, f, ok := FieldOf(x.Call.Args[0]); ok && o == owner && f == field {
					out = append(out, in)
				}
			}
		}
	})
	return out
}

// boolFieldEdges returns the CFG edges taken when `owner.field` (a bool field load used
// directly as an If condition, possibly negated) has value val.
func boolFieldEdges(fn *ssa.Function, owner, field string, val bool) edgeSet {
	out := edgeSet{}
	for _, b := range fn.Blocks {
		ifi := ifOf(b)
		if ifi == nil {
			continue
		}
		v, pol := ifi.Cond, true
		for {
			if u, ok := v.(*ssa.UnOp); ok && u.Op == token.NOT {
				v, pol = u.X, !pol
				continue
			}
			break
		}
		if !isFieldLoad(v, owner, field) {
			continue
		}
		// cond == pol ⇔ field true
		idx := 0
		if pol != val {
			idx = 1
		}
		out[[2]*ssa.BasicBlock{b, b.Succs[idx]}] = true
	}
	return out
}

// underLock: every instruction in ins executes with lock id held (write, or read when allowRead).
func underLock(c *Ctx, rule string, fn *ssa.Function, ls *LockSets, what string, ins []ssa.Instruction, id string, allowRead bool) {
	for i, in := range ins {
		k := key(fn, fmt.Sprintf("%s[%d]@%s", what, i+1, id))
		if ls.Holds(in, id, allowRead) {
			c.Pass(rule, k, in.Pos(), 1, "%s executes with %s held (held: %v)", what, id, ls.HeldAt(in))
		} else {
			c.Fail(rule, k, in.Pos(), 1, "%s executes without %s (held: %v)", what, id, ls.HeldAt(in))
		}
	}
}

// sentinelGuards: every If whose true edge leads directly to a block that returns the
// package-level sentinel error `global` (e.g. "ErrTxnTooBig" in utils) must dominate
// target through its false edge; at least min such guards must exist.
func sentinelGuards(c *Ctx, rule string, fn *ssa.Function, sentinel string, target ssa.Instruction, tDesc string, min int) {
	n := 0
	ei := ErrorResultIndex(fn)
	for _, r := range Returns(fn) {
		v := RetVal(r, ei)
		u, ok := v.(*ssa.UnOp)
		if !ok || u.Op != token.MUL {
			continue
		}
		g, ok := u.X.(*ssa.Global)
		if !ok || g.Name() != sentinel {
			continue
		}
		rb := r.Block()
		for _, p := range rb.Preds {
			ifi := ifOf(p)
			if ifi == nil {
				continue
			}
			n++
			k := key(fn, fmt.Sprintf("%s<-reject(%s)[%d]", tDesc, sentinel, n))
			other := p.Succs[1]
			if p.Succs[0] != rb {
				other = p.Succs[0]
			}
			if EdgeDominates(p, other, target.Block()) || chainDominates(p, other, target.Block()) {
				c.Pass(rule, k, ifi.Pos(), 2, "the %s rejection guards %s (its pass edge dominates it)", sentinel, tDesc)
			} else if blockInLoop(p) && blockReaches(p, target.Block()) && !blockReaches(target.Block(), p) {
				// a per-element test inside a loop that has finished before the target runs
				c.Pass(rule, k, ifi.Pos(), 2, "the per-element %s rejection loop completes before %s", sentinel, tDesc)
			} else {
				c.Fail(rule, k, ifi.Pos(), 2, "%s is reachable without passing the %s rejection test", tDesc, sentinel)
			}
		}
	}
	// rejections performed by a same-package helper whose error is checked before the target
	for _, h := range rejectionHelpers(c, fn, target) {
		hei := ErrorResultIndex(h)
		for _, r := range Returns(h) {
			u, ok := RetVal(r, hei).(*ssa.UnOp)
			if !ok || u.Op != token.MUL {
				continue
			}
			if g, ok := u.X.(*ssa.Global); !ok || g.Name() != sentinel {
				continue
			}
			for _, p := range r.Block().Preds {
				if ifi := ifOf(p); ifi != nil {
					n++
					c.Pass(rule, key(fn, fmt.Sprintf("%s<-reject(%s)[%d]", tDesc, sentinel, n)), ifi.Pos(), 2, "the %s rejection in %s guards %s (the helper's error is tested before it)", sentinel, FuncName(h), tDesc)
				}
			}
		}
	}
	if n < min {
		c.Fail(rule, key(fn, "has:reject("+sentinel+")"), fn.Pos(), 1, "expected at least %d guard(s) returning %s before %s, found %d", min, sentinel, tDesc, n)
	}
}

// rejectionHelpers: same-package callees of fn with an error result such that target lies
// behind the nil edge of that result (a failed check in the helper keeps fn from reaching target).
func rejectionHelpers(c *Ctx, fn *ssa.Function, target ssa.Instruction) []*ssa.Function {
	var out []*ssa.Function
	AllInstrs(fn, false, func(in ssa.Instruction) {
		ci, ok := in.(ssa.CallInstruction)
		if !ok || in == target {
			return
		}
		h := StaticFn(ci.Common())
		if h == nil || h.Blocks == nil || h == fn || FuncPkgPath(h) != FuncPkgPath(fn) || ErrorResultIndex(h) < 0 {
			return
		}
		if succOKq(fn, []ssa.CallInstruction{ci}, target) {
			c.Touch(h)
			out = append(out, h)
		}
	})
	return out
}

// chainDominates handles `a || b` lowering: the pass edge of the first test leads to
// the second test block which has the reject block as other successor; the pass edge of
// the chain dominates target if `other` dominates target or other's non-reject successor does.
func chainDominates(p, other, target *ssa.BasicBlock) bool {
	return other.Dominates(target) && len(other.Preds) == 1
}

// calleeReturnsClosure returns the function literal bodies returned by fn at result index i.
func returnedClosures(fn *ssa.Function, i int) []*ssa.Function {
	var out []*ssa.Function
	for _, r := range Returns(fn) {
		v := RetVal(r, i)
		if mc, ok := v.(*ssa.MakeClosure); ok {
			if f, ok := mc.Fn.(*ssa.Function); ok {
				out = append(out, f)
			}
		}
	}
	return out
}

// effectSites returns the call instructions of fn that perform the effect described by
// direct, either themselves or through a same-package helper (a static callee, to the
// given depth, whose body contains a direct site).  Helper extraction therefore does
// not change the set of obligations.
func effectSites(c *Ctx, fn *ssa.Function, direct func(ssa.CallInstruction) bool, depth int) []ssa.CallInstruction {
	var out []ssa.CallInstruction
	AllInstrs(fn, false, func(in ssa.Instruction) {
		ci, ok := in.(ssa.CallInstruction)
		if !ok {
			return
		}
		if direct(ci) {
			out = append(out, ci)
			return
		}
		if depth <= 0 {
			return
		}
		sf := StaticFn(ci.Common())
		if sf == nil || sf.Blocks == nil || sf == fn || FuncPkgPath(sf) != FuncPkgPath(fn) {
			return
		}
		if len(effectSites(c, sf, direct, depth-1)) > 0 {
			c.Touch(sf)
			out = append(out, ci)
		}
	})
	return out
}

// outcomeChecked: the (error or nillable) result of ci is compared with nil somewhere in fn.
func outcomeChecked(fn *ssa.Function, ci ssa.CallInstruction) bool {
	if ev := ErrResult(ci); ev != nil {
		return len(NilEdges(fn, FlowSet(ev))) > 0
	}
	v := ci.Value()
	if v == nil {
		return false
	}
	fs := FlowSet(v)
	if len(NilEdges(fn, fs)) > 0 {
		return true
	}
	// handed to the caller as this function's own outcome
	for _, r := range Returns(fn) {
		for i := range r.Results {
			if fs[RetVal(r, i)] {
				return true
			}
		}
	}
	return false
}

// deepMatcher widens m to calls of same-package helpers (static callees in pkgPath, to the
// given depth) whose body contains a call matched by m.
func deepMatcher(m Matcher, pkgPath string, depth int) Matcher {
	memo := map[*ssa.Function]bool{}
	var has func(f *ssa.Function, d int) bool
	has = func(f *ssa.Function, d int) bool {
		if v, ok := memo[f]; ok {
			return v
		}
		memo[f] = false
		found := false
		AllInstrs(f, false, func(in ssa.Instruction) {
			if found {
				return
			}
			if ci, ok := in.(ssa.CallInstruction); ok {
				if m(ci.Common()) {
					found = true
					return
				}
				if d > 0 {
					if sf := StaticFn(ci.Common()); sf != nil && sf.Blocks != nil && FuncPkgPath(sf) == pkgPath && has(sf, d-1) {
						found = true
					}
				}
			}
		})
		memo[f] = found
		return found
	}
	return func(cc *ssa.CallCommon) bool {
		if m(cc) {
			return true
		}
		sf := StaticFn(cc)
		return sf != nil && sf.Blocks != nil && FuncPkgPath(sf) == pkgPath && has(sf, depth-1)
	}
}

// helperOfAllowed: r is an unexported declared function all of whose callers are allowed
// callers (or such helpers themselves, to the given depth).  Returns the allowed callers
// it serves, or "".  Extracting part of an allowed caller into a helper keeps the
// who-may-call verdict; the per-caller guard rules look through such helpers themselves.
func helperOfAllowed(c *Ctx, r *ssa.Function, allowed map[string]string, depth int) string {
	if depth <= 0 || r.Object() == nil || r.Object().Exported() {
		return ""
	}
	roots := c.P.CallerRoots(r)
	if len(roots) == 0 {
		return ""
	}
	var via []string
	for _, cr := range roots {
		n := FuncName(cr)
		if cr == r {
			continue
		}
		if _, ok := allowed[n]; ok {
			via = append(via, n)
			continue
		}
		if v := helperOfAllowed(c, cr, allowed, depth-1); v != "" {
			via = append(via, v)
			continue
		}
		return ""
	}
	sortStrings(via)
	return strings.Join(via, ",")
}

// heldAtEveryCall: every call site of fn (to the given caller depth) executes with lock id held,
// either at the site itself or because the calling function is in turn only called with it held.
func heldAtEveryCall(c *Ctx, fn *ssa.Function, id string, depth int) (bool, int) {
	n := 0
	for _, cs := range c.P.CallersOf(fn) {
		if cs.Site == nil {
			continue
		}
		n++
		cls := ComputeLockSets(cs.Caller)
		if cls.Holds(cs.Site.(ssa.Instruction), id, false) {
			continue
		}
		if depth <= 0 {
			return false, n
		}
		ok, m := heldAtEveryCall(c, cs.Caller, id, depth-1)
		n += m
		if !ok || m == 0 {
			return false, n
		}
	}
	return n > 0, n
}

// verifySites returns the calls of fn whose nil error result establishes that a verification
// matched by base succeeded: direct base calls, and calls of same-package verifier helpers
// (functions every one of whose possibly-successful returns hands back the outcome of, or lies
// behind the success edge of, such a site).  Inlining a one-line verifier or moving the
// verification into a helper therefore keeps the same obligations.
func verifySites(c *Ctx, fn *ssa.Function, base Matcher, depth int, skip ...func(*ssa.Function) edgeSet) []ssa.CallInstruction {
	var out []ssa.CallInstruction
	AllInstrs(fn, false, func(in ssa.Instruction) {
		ci, ok := in.(ssa.CallInstruction)
		if !ok {
			return
		}
		if base(ci.Common()) {
			out = append(out, ci)
			return
		}
		if depth <= 0 {
			return
		}
		sf := StaticFn(ci.Common())
		if sf == nil || sf.Blocks == nil || sf == fn || FuncPkgPath(sf) != FuncPkgPath(fn) {
			return
		}
		if isVerifierFn(c, sf, base, depth-1, skip...) {
			c.Touch(sf)
			out = append(out, ci)
		}
	})
	return out
}

// skip (optional) names edges that satisfy the obligation by themselves (e.g. `no storage configured`).
func isVerifierFn(c *Ctx, h *ssa.Function, base Matcher, depth int, skip ...func(*ssa.Function) edgeSet) bool {
	ei := ErrorResultIndex(h)
	if ei < 0 {
		return false
	}
	sites := verifySites(c, h, base, depth, skip...)
	skipEdges := map[[2]*ssa.BasicBlock]bool{}
	for _, sf := range skip {
		for e := range sf(h) {
			skipEdges[e] = true
		}
	}
	if len(sites) == 0 {
		return false
	}
	for _, r := range Returns(h) {
		if h.Recover != nil && r.Block() == h.Recover {
			continue
		}
		rv := RetVal(r, ei)
		if ProvablyNonNil(rv, r, 0) {
			continue
		}
		direct := false
		for _, s := range sites {
			if ev := ErrResult(s); ev != nil && ev == rv {
				direct = true
			}
		}
		if direct || succOKq(h, sites, r) {
			continue
		}
		if len(skipEdges) > 0 {
			// reachable only through a verification site or a satisfying edge, and behind the
			// success edge of every site that reaches it
			if reach, _ := CutReach(h, nil, r, instrs(sites), skipEdges); !reach && succAfterSites(h, sites, r) {
				continue
			}
		}
		return false
	}
	return true
}

// valueSites returns the calls of fn whose result is the value computed by a call matched
// by m: direct sites, and calls of same-package helpers one of whose results derives from
// such a site (a helper that computes and returns the value).
func valueSites(c *Ctx, fn *ssa.Function, m Matcher, depth int) []ssa.CallInstruction {
	var out []ssa.CallInstruction
	AllInstrs(fn, false, func(in ssa.Instruction) {
		ci, ok := in.(ssa.CallInstruction)
		if !ok {
			return
		}
		if m(ci.Common()) {
			out = append(out, ci)
			return
		}
		if depth <= 0 {
			return
		}
		h := StaticFn(ci.Common())
		if h == nil || h.Blocks == nil || h == fn || FuncPkgPath(h) != FuncPkgPath(fn) {
			return
		}
		inner := valueSites(c, h, m, depth-1)
		if len(inner) == 0 {
			return
		}
		src := valuesOf(inner)
		for _, r := range Returns(h) {
			for i := range r.Results {
				if derivedFrom(RetVal(r, i), src, 4) {
					c.Touch(h)
					out = append(out, ci)
					return
				}
			}
		}
	})
	return out
}

// succAfterSites: r is not reachable from any of the sites except over the nil edge of that
// site's error result (or by handing that result back).
func succAfterSites(fn *ssa.Function, sites []ssa.CallInstruction, r ssa.Instruction) bool {
	for _, a := range sites {
		ev := ErrResult(a)
		if ev == nil {
			return false
		}
		cut := map[[2]*ssa.BasicBlock]bool{}
		for _, e := range NilEdges(fn, FlowSet(ev)) {
			cut[e.Nil] = true
		}
		if reach, _ := CutReach(fn, a.(ssa.Instruction), r, nil, cut); reach {
			if ret, ok := r.(*ssa.Return); ok {
				direct := false
				for i := range ret.Results {
					if RetVal(ret, i) == ev {
						direct = true
					}
				}
				if direct {
					continue
				}
			}
			return false
		}
	}
	return true
}

// reachFromBlock: target is reachable from the beginning of blk without executing one of cuts.
func reachFromBlock(fn *ssa.Function, blk *ssa.BasicBlock, target ssa.Instruction, cuts []ssa.Instruction) (bool, int) {
	isCut := map[ssa.Instruction]bool{}
	for _, c := range cuts {
		isCut[c] = true
	}
	for _, in := range blk.Instrs {
		if in == target {
			return true, 1
		}
		if isCut[in] {
			return false, 1
		}
	}
	if len(blk.Instrs) == 0 {
		return false, 0
	}
	return CutReach(fn, blk.Instrs[len(blk.Instrs)-1], target, cuts, nil)
}
