package props

import (
	"fmt"
	"go/token"
	"go/types"
	"strings"

	"golang.org/x/tools/go/ssa"

	. "nokvsa/core"
)

// Decoded-length discipline (rule kind K7).
//
// Sources: value results of binary.Uvarint / binary.ReadUvarint / binary.*Endian.UintNN
// reads of input bytes that are used as a length, results of module helper functions
// whose first result is derived from such a call (one level of summary), and integers
// filled by binary.Read.
// Sinks: (a) make() whose len or cap derives from a source; (b) a conversion of a
// source-derived unsigned value to a signed/narrower integer whose result reaches a
// slice bound, an index, a make size, or an addition compared with len().
// Sanitizer: a relational comparison on the *unconverted* source-derived value whose
// pass edge dominates the sink (comparison against len(...), a constant, or another
// expression – the operand is not interpreted further), or builtin min() with a constant.
// K7u: the byte count n returned by binary.Uvarint must be compared with a constant
// (n <= 0, n < 0, n > 0 …) in the function that called it.

type taintFinding struct {
	Fn     *ssa.Function
	In     ssa.Instruction
	Kind   string // "alloc", "conv-bound", "uvarint-n"
	Detail string
	OK     bool
}

var uvarintM = Named("encoding/binary.Uvarint")
var readUvarintM = Named("encoding/binary.ReadUvarint")
var endianM = Named("(encoding/binary.bigEndian).Uint32", "(encoding/binary.bigEndian).Uint64", "(encoding/binary.bigEndian).Uint16",
	"(encoding/binary.littleEndian).Uint32", "(encoding/binary.littleEndian).Uint64", "(encoding/binary.littleEndian).Uint16",
	"kv.BytesToU32", "kv.BytesToU64", "strconv.Atoi", "strconv.ParseInt", "strconv.ParseUint")

// summarySources: module functions whose first result derives from a Uvarint value.
func summarySources(p *Program, pkgs map[string]bool) map[*ssa.Function]bool {
	out := map[*ssa.Function]bool{}
	for _, f := range p.ModFuncs {
		if !pkgs[FuncPkgPath(f)] || f.Signature.Results().Len() == 0 {
			continue
		}
		src := localSources(f, nil)
		if len(src) == 0 {
			continue
		}
		for _, r := range Returns(f) {
			if len(r.Results) > 0 && derivedFrom(RetVal(r, 0), src, 6) {
				if b, ok := r.Results[0].Type().Underlying().(*types.Basic); ok && b.Info()&types.IsInteger != 0 {
					out[f] = true
				}
			}
		}
	}
	return out
}

// localSources: tainted values created in fn.
func localSources(fn *ssa.Function, summ map[*ssa.Function]bool) map[ssa.Value]bool {
	src := map[ssa.Value]bool{}
	AllInstrs(fn, false, func(in ssa.Instruction) {
		// decoded header fields are lengths too
		if u, ok := in.(*ssa.UnOp); ok && u.Op == token.MUL {
			if o, f, ok := FieldOf(u.X); ok && o == "kv.EntryHeader" && (f == "KeyLen" || f == "ValueLen") {
				src[u] = true
			}
		}
		if fv, ok := in.(*ssa.Field); ok {
			if o, f, ok := FieldOf(fv); ok && o == "kv.EntryHeader" && (f == "KeyLen" || f == "ValueLen") {
				src[fv] = true
			}
		}
		call, ok := in.(*ssa.Call)
		if !ok {
			return
		}
		cc := call.Common()
		switch {
		case uvarintM(cc), readUvarintM(cc):
			for _, r := range *call.Referrers() {
				if ex, ok := r.(*ssa.Extract); ok && ex.Index == 0 {
					src[ex] = true
				}
			}
		case endianM(cc):
			if call.Type().Underlying() != nil {
				if _, isTuple := call.Type().(*types.Tuple); isTuple {
					for _, r := range *call.Referrers() {
						if ex, ok := r.(*ssa.Extract); ok && ex.Index == 0 {
							src[ex] = true
						}
					}
				} else {
					src[call] = true
				}
			}
		case Named("encoding/binary.Read")(cc):
			// binary.Read(r, order, &x): loads of x are tainted
			if len(cc.Args) == 3 {
				if mi, ok := cc.Args[2].(*ssa.MakeInterface); ok {
					if al, ok := mi.X.(*ssa.Alloc); ok && al.Referrers() != nil {
						for _, r := range *al.Referrers() {
							if u, ok := r.(*ssa.UnOp); ok && u.Op == token.MUL {
								src[u] = true
							}
						}
					}
				}
			}
		default:
			if f := StaticFn(cc); f != nil && summ != nil && summ[f] {
				if _, isTuple := call.Type().(*types.Tuple); isTuple {
					for _, r := range *call.Referrers() {
						if ex, ok := r.(*ssa.Extract); ok && ex.Index == 0 {
							src[ex] = true
						}
					}
				} else {
					src[call] = true
				}
			}
			// dynamic call of a local closure that is a summary source
			if mc, ok := cc.Value.(*ssa.MakeClosure); ok {
				if f, ok := mc.Fn.(*ssa.Function); ok && summ != nil && summ[f] {
					for _, r := range *call.Referrers() {
						if ex, ok := r.(*ssa.Extract); ok && ex.Index == 0 {
							src[ex] = true
						}
					}
				}
			}
		}
	})
	return src
}

// taintClosure: values derived from sources through arithmetic, conversions and phis.
// origin maps a derived value to whether it is still "raw" (no signed/narrowing convert applied).
func taintClosure(src map[ssa.Value]bool) (all map[ssa.Value]bool, raw map[ssa.Value]bool) {
	all, raw = map[ssa.Value]bool{}, map[ssa.Value]bool{}
	var visit func(v ssa.Value, isRaw bool)
	visit = func(v ssa.Value, isRaw bool) {
		if all[v] && (!isRaw || raw[v]) {
			return
		}
		all[v] = true
		if isRaw {
			raw[v] = true
		}
		refs := v.Referrers()
		if refs == nil {
			return
		}
		for _, r := range *refs {
			switch x := r.(type) {
			case *ssa.BinOp:
				switch x.Op {
				case token.ADD, token.SUB, token.MUL, token.SHL:
					visit(x, isRaw)
				}
			case *ssa.Phi:
				visit(x, isRaw)
			case *ssa.Convert:
				visit(x, isRaw && !lossy(x))
			case *ssa.ChangeType:
				visit(x, isRaw)
			case *ssa.Call:
				// min/max select one of their operands: the result is as tainted as they are
				// (whether a constant operand bounds it is decided at the sink)
				if bi, ok := x.Call.Value.(*ssa.Builtin); ok && (bi.Name() == "min" || bi.Name() == "max") {
					visit(x, false)
				}
			}
		}
	}
	for v := range src {
		visit(v, true)
	}
	return
}

// lossy: conversion to a signed or narrower integer type.
func lossy(cv *ssa.Convert) bool {
	from, ok1 := cv.X.Type().Underlying().(*types.Basic)
	to, ok2 := cv.Type().Underlying().(*types.Basic)
	if !ok1 || !ok2 || from.Info()&types.IsInteger == 0 || to.Info()&types.IsInteger == 0 {
		return false
	}
	size := func(b *types.Basic) int {
		switch b.Kind() {
		case types.Int8, types.Uint8:
			return 8
		case types.Int16, types.Uint16:
			return 16
		case types.Int32, types.Uint32:
			return 32
		case types.Int, types.Uint, types.Uintptr:
			return 63 // int is 32 or 64 bit: treat as narrower than uint64 and not wider than int64
		default:
			return 64
		}
	}
	fromUnsigned := from.Info()&types.IsUnsigned != 0
	toUnsigned := to.Info()&types.IsUnsigned != 0
	if fromUnsigned && !toUnsigned && size(to) <= size(from) {
		return true // uint64→int, uint32→int32, uint→int …
	}
	if fromUnsigned && !toUnsigned && from.Kind() == types.Uint32 && to.Kind() == types.Int {
		return true // 32-bit int
	}
	return size(to) < size(from) && !(toUnsigned && fromUnsigned && false)
}

// sanitized: a relational comparison on a raw tainted value (same taint family as v)
// whose outcome controls sink: some If whose cond compares a raw value and one of
// whose edges dominates the sink's block.
func sanitizedAt(fn *ssa.Function, sink ssa.Instruction, raw map[ssa.Value]bool, family map[ssa.Value]bool) (bool, string) {
	// A guard is a conditional branch that dominates the sink, one of whose edges cannot
	// reach the sink and rejects (returns / leaves the record loop).  It is an UPPER bound
	// for operand v when the rejecting edge is the one on which v is the greater side.
	rawUpper, famUpper, signChk := false, false, false
	for _, b := range fn.Blocks {
		ifi := ifOf(b)
		if ifi == nil || !b.Dominates(sink.Block()) {
			continue
		}
		bo, ok := ifi.Cond.(*ssa.BinOp)
		if !ok {
			continue
		}
		r0 := blockReaches(b.Succs[0], sink.Block())
		r1 := blockReaches(b.Succs[1], sink.Block())
		if r0 == r1 {
			continue
		}
		rejectOnTrue := !r0
		other := b.Succs[0]
		if r0 {
			other = b.Succs[1]
		}
		if !rejects(other) {
			continue // a branch that merely selects a path is not a bound
		}
		// normalise to "X op Y is true on the rejecting edge"
		op := bo.Op
		if !rejectOnTrue {
			switch op {
			case token.LSS:
				op = token.GEQ
			case token.LEQ:
				op = token.GTR
			case token.GTR:
				op = token.LEQ
			case token.GEQ:
				op = token.LSS
			default:
				continue
			}
		}
		xGreater := op == token.GTR || op == token.GEQ // rejects when X is large
		yGreater := op == token.LSS || op == token.LEQ // rejects when Y is large (X small)
		if !xGreater && !yGreater {
			continue
		}
		if family[bo.X] && xGreater || family[bo.Y] && yGreater {
			famUpper = true
			if raw[bo.X] && xGreater || raw[bo.Y] && yGreater {
				rawUpper = true
			}
		}
		// sign check: X < 0 rejects
		if family[bo.X] && yGreater {
			if z, isC := ConstInt(bo.Y); isC && z == 0 {
				signChk = true
			}
		}
	}
	if rawUpper {
		return true, "upper-bounded by a rejecting comparison on the unconverted length"
	}
	if famUpper && signChk {
		return true, "sign-checked and upper-bounded after conversion"
	}
	return false, ""
}

// rejects: block b leads (through jumps and further tests of the same guard chain only)
// to a return or a loop exit without doing other work – i.e. the edge is a rejection,
// not an alternative way of continuing with the value.
func rejects(b *ssa.BasicBlock) bool {
	seen := map[*ssa.BasicBlock]bool{}
	for steps := 0; steps < 4 && b != nil && !seen[b]; steps++ {
		seen[b] = true
		if len(b.Instrs) == 0 {
			return false
		}
		switch t := b.Instrs[len(b.Instrs)-1].(type) {
		case *ssa.Return:
			return true
		case *ssa.Jump:
			// `continue`/`break` out of a per-record loop also rejects the record
			if len(b.Instrs) <= 3 {
				b = b.Succs[0]
				continue
			}
			return false
		case *ssa.If:
			// `a || b` chains: both arms must reject or continue the chain
			return rejects(t.Block().Succs[0]) || rejects(t.Block().Succs[1])
		default:
			return false
		}
	}
	return false
}

// familyOf: the taint closure of the sources v derives from (approximation: closure of v's roots).
func rootsOf(v ssa.Value, src map[ssa.Value]bool, depth int, out map[ssa.Value]bool) {
	if depth <= 0 || v == nil {
		return
	}
	if src[v] {
		out[v] = true
		// loads of the same field of the same object are one root
		if ap := AccessPath(v); ap != "?" && strings.Contains(ap, ".") {
			for o := range src {
				if AccessPath(o) == ap {
					out[o] = true
				}
			}
		}
		return
	}
	switch x := v.(type) {
	case *ssa.BinOp:
		rootsOf(x.X, src, depth-1, out)
		rootsOf(x.Y, src, depth-1, out)
	case *ssa.Convert:
		rootsOf(x.X, src, depth-1, out)
	case *ssa.ChangeType:
		rootsOf(x.X, src, depth-1, out)
	case *ssa.Phi:
		for _, e := range x.Edges {
			rootsOf(e, src, depth-1, out)
		}
	}
}

// reachesBound: the converted value flows (through +,-,phi) into a slice bound, index,
// make size, or a comparison with len().
func reachesBound(v ssa.Value, depth int, seen map[ssa.Value]bool) (bool, string) {
	in, what := boundUse(v, depth, seen)
	return in != nil, what
}

// boundUse returns the first instruction that uses v (through +,-,phi) as a bound.
func boundUse(v ssa.Value, depth int, seen map[ssa.Value]bool) (ssa.Instruction, string) {
	if depth <= 0 || seen[v] {
		return nil, ""
	}
	seen[v] = true
	refs := v.Referrers()
	if refs == nil {
		return nil, ""
	}
	for _, r := range *refs {
		switch x := r.(type) {
		case *ssa.Slice:
			if x.Low == v || x.High == v || x.Max == v {
				return x, "slice bound"
			}
		case *ssa.IndexAddr:
			if x.Index == v {
				return x, "index"
			}
		case *ssa.Index:
			if x.Index == v {
				return x, "index"
			}
		case *ssa.MakeSlice:
			if x.Len == v || x.Cap == v {
				return x, "make size"
			}
		case *ssa.BinOp:
			switch x.Op {
			case token.ADD, token.SUB:
				if in, w := boundUse(x, depth-1, seen); in != nil {
					return in, w
				}
			}
		case *ssa.Phi:
			if in, w := boundUse(x, depth-1, seen); in != nil {
				return in, w
			}
		case *ssa.Store:
			if x.Val == v {
				if _, ok := x.Addr.(*ssa.Parameter); ok {
					return x, "index variable"
				}
			}
		}
	}
	return nil, ""
}

func reachesBoundOld(v ssa.Value, depth int, seen map[ssa.Value]bool) (bool, string) {
	if depth <= 0 || seen[v] {
		return false, ""
	}
	seen[v] = true
	refs := v.Referrers()
	if refs == nil {
		return false, ""
	}
	for _, r := range *refs {
		switch x := r.(type) {
		case *ssa.Slice:
			if x.Low == v || x.High == v || x.Max == v {
				return true, "slice bound"
			}
		case *ssa.IndexAddr:
			if x.Index == v {
				return true, "index"
			}
		case *ssa.Index:
			if x.Index == v {
				return true, "index"
			}
		case *ssa.MakeSlice:
			if x.Len == v || x.Cap == v {
				return true, "make size"
			}
		case *ssa.BinOp:
			switch x.Op {
			case token.ADD, token.SUB:
				if ok, w := reachesBound(x, depth-1, seen); ok {
					return true, w
				}
			}
		case *ssa.Phi:
			if ok, w := reachesBound(x, depth-1, seen); ok {
				return true, w
			}
		case *ssa.Store:
			// stored into a local index variable (e.g. *idx += int(size)) then used as bound elsewhere: treat pointer-to-int stores as bounds
			if x.Val == v {
				if _, ok := x.Addr.(*ssa.Parameter); ok {
					return true, "index variable"
				}
				if al, ok := x.Addr.(*ssa.Alloc); ok && !al.Heap {
					_ = al
				}
			}
		}
	}
	return false, ""
}

// taintScan runs the discipline over the functions of the given packages.
func taintScan(p *Program, pkgs map[string]bool) []taintFinding {
	summ := summarySources(p, pkgs)
	var out []taintFinding
	for _, fn := range p.ModFuncs {
		if !pkgs[FuncPkgPath(fn)] {
			continue
		}
		src := localSources(fn, summ)
		// K7u
		AllInstrs(fn, false, func(in ssa.Instruction) {
			call, ok := in.(*ssa.Call)
			if !ok || !uvarintM(call.Common()) {
				return
			}
			checked := false
			for _, r := range *call.Referrers() {
				ex, ok := r.(*ssa.Extract)
				if !ok || ex.Index != 1 || ex.Referrers() == nil {
					continue
				}
				for _, rr := range *ex.Referrers() {
					if bo, ok := rr.(*ssa.BinOp); ok {
						switch bo.Op {
						case token.LSS, token.LEQ, token.GTR, token.GEQ, token.EQL, token.NEQ:
							// the test has to tell n == 0 (input too short for the varint:
							// a truncated encoding) from n > 0; `n < 0` alone lets a varint
							// cut in the middle decode as value 0 with nothing consumed
							if k, isC := ConstInt(bo.Y); isC {
								switch {
								case k == 0 && (bo.Op == token.LEQ || bo.Op == token.EQL || bo.Op == token.NEQ || bo.Op == token.GTR),
									k == 1 && (bo.Op == token.LSS || bo.Op == token.GEQ):
									checked = true
								}
							}
						}
					}
				}
			}
			out = append(out, taintFinding{fn, in, "uvarint-n", "byte count of binary.Uvarint", checked})
		})
		if len(src) == 0 {
			continue
		}
		all, raw := taintClosure(src)
		AllInstrs(fn, false, func(in ssa.Instruction) {
			switch x := in.(type) {
			case *ssa.MakeSlice:
				for _, sz := range []ssa.Value{x.Len, x.Cap} {
					if sz == nil || !all[sz] {
						continue
					}
					fam := map[ssa.Value]bool{}
					roots := map[ssa.Value]bool{}
					rootsOf(sz, src, 8, roots)
					famAll, _ := taintClosure(roots)
					for k := range famAll {
						fam[k] = true
					}
					ok, why := sanitizedAt(fn, in, raw, fam)
					if !ok {
						// min(x, const)
						if call, isCall := Unwrap(sz).(*ssa.Call); isCall {
							if bi, isB := call.Call.Value.(*ssa.Builtin); isB && bi.Name() == "min" {
								for _, a := range call.Call.Args {
									if _, isK := a.(*ssa.Const); isK || !all[a] {
										ok, why = true, "min() with an input-independent bound"
									}
								}
							}
						}
					}
					out = append(out, taintFinding{fn, in, "alloc", "make() sized by a decoded length" + ifs(why != "", " ("+why+")", ""), ok})
					break
				}
			case *ssa.Convert:
				if !all[x.X] || !lossy(x) {
					return
				}
				var uses []ssa.Instruction
				what := ""
				for _, u := range boundUsesAll(x, 6, map[ssa.Value]bool{}, map[ssa.Instruction]bool{}) {
					if _, isMake := u.in.(*ssa.MakeSlice); isMake {
						continue // reported by the alloc rule
					}
					uses = append(uses, u.in)
					if what == "" {
						what = u.what
					}
				}
				if len(uses) == 0 {
					return
				}
				roots := map[ssa.Value]bool{}
				rootsOf(x.X, src, 8, roots)
				fam, _ := taintClosure(roots)
				ok, why := true, ""
				for _, use := range uses {
					o, w := sanitizedAt(fn, use, raw, fam)
					if !o {
						// re-slicing a buffer behind the edge on which it is large enough
						if sl, isSl := use.(*ssa.Slice); isSl && capGuarded(sl, x) {
							o, w = true, "re-slice behind a capacity test of the same buffer"
						}
					}
					if !o {
						ok, why = false, ""
						break
					}
					why = w
				}
				out = append(out, taintFinding{fn, in, "conv-bound", fmt.Sprintf("decoded length converted %s→%s and used as %s%s", x.X.Type(), x.Type(), what, ifs(why != "", " ("+why+")", "")), ok})
			}
		})
	}
	return out
}

func ifs(c bool, a, b string) string {
	if c {
		return a
	}
	return b
}

type boundUseT struct {
	in   ssa.Instruction
	what string
}

// boundUsesAll returns every instruction that uses v (through +,-,phi) as a bound.
func boundUsesAll(v ssa.Value, depth int, seen map[ssa.Value]bool, got map[ssa.Instruction]bool) []boundUseT {
	if depth <= 0 || seen[v] {
		return nil
	}
	seen[v] = true
	refs := v.Referrers()
	if refs == nil {
		return nil
	}
	var out []boundUseT
	add := func(in ssa.Instruction, what string) {
		if !got[in] {
			got[in] = true
			out = append(out, boundUseT{in, what})
		}
	}
	for _, r := range *refs {
		switch x := r.(type) {
		case *ssa.Slice:
			if x.Low == v || x.High == v || x.Max == v {
				add(x, "slice bound")
			}
		case *ssa.IndexAddr:
			if x.Index == v {
				add(x, "index")
			}
		case *ssa.Index:
			if x.Index == v {
				add(x, "index")
			}
		case *ssa.MakeSlice:
			if x.Len == v || x.Cap == v {
				add(x, "make size")
			}
		case *ssa.BinOp:
			switch x.Op {
			case token.ADD, token.SUB:
				out = append(out, boundUsesAll(x, depth-1, seen, got)...)
			}
		case *ssa.Phi:
			out = append(out, boundUsesAll(x, depth-1, seen, got)...)
		case *ssa.Store:
			if x.Val == v {
				if _, ok := x.Addr.(*ssa.Parameter); ok {
					add(x, "index variable")
				}
			}
		}
	}
	return out
}

// capGuarded: sl is `buf[:n]` and lies behind the edge of a test `n <= cap(buf)` /
// `n <= len(buf)` (any spelling) on the same buffer: the re-slice cannot go out of range.
func capGuarded(sl *ssa.Slice, n ssa.Value) bool {
	if sl.High != n || sl.Low != nil && !isZeroConst(sl.Low) {
		return false
	}
	bufPath := AccessPath(sl.X)
	if bufPath == "?" {
		return false
	}
	fn := sl.Parent()
	for _, b := range fn.Blocks {
		ifi := ifOf(b)
		if ifi == nil {
			continue
		}
		bo, ok := ifi.Cond.(*ssa.BinOp)
		if !ok {
			continue
		}
		isCapOfBuf := func(v ssa.Value) bool {
			call, ok := v.(*ssa.Call)
			if !ok {
				return false
			}
			bi, ok := call.Call.Value.(*ssa.Builtin)
			if !ok || (bi.Name() != "cap" && bi.Name() != "len") || len(call.Call.Args) != 1 {
				return false
			}
			if bi.Name() == "len" && sl.Max == nil {
				// len(buf) <= cap(buf): a len test is the stronger one
			}
			return AccessPath(call.Call.Args[0]) == bufPath
		}
		// normalise to: safeOnTrue when cond true implies n <= cap
		var safeOnTrue bool
		switch {
		case bo.X == n && isCapOfBuf(bo.Y):
			switch bo.Op {
			case token.LEQ, token.LSS:
				safeOnTrue = true
			case token.GTR:
				safeOnTrue = false
			default:
				continue
			}
		case bo.Y == n && isCapOfBuf(bo.X):
			switch bo.Op {
			case token.GEQ, token.GTR:
				safeOnTrue = true
			case token.LSS:
				safeOnTrue = false
			default:
				continue
			}
		default:
			continue
		}
		succ := b.Succs[1]
		if safeOnTrue {
			succ = b.Succs[0]
		}
		if EdgeDominates(b, succ, sl.Block()) {
			return true
		}
	}
	return false
}

func isZeroConst(v ssa.Value) bool {
	k, ok := ConstInt(v)
	return ok && k == 0
}
