// Package core holds the shared machinery of the NoKV static checker: loading the
// type-checked program, building SSA, resolving anchors, the obligation ledger and
// the evidence writer.  Nothing in this package executes code from /repo.
package core

import (
	"fmt"
	"go/ast"
	"go/token"
	"go/types"
	"os"
	"sort"
	"strings"
	"time"

	"golang.org/x/tools/go/packages"
	"golang.org/x/tools/go/ssa"
	"golang.org/x/tools/go/ssa/ssautil"
)

// Module is the import path prefix of the analysed repository.
const Module = "github.com/feichai0017/NoKV"

// Program is the loaded, type-checked, SSA-built repository for one build configuration.
type Program struct {
	Dir      string
	Env      []string // extra GOOS/GOARCH
	Config   string   // e.g. linux/amd64
	Fset     *token.FileSet
	Pkgs     []*packages.Package // module packages (initial)
	ByPath   map[string]*packages.Package
	SSA      *ssa.Program
	SSAPkgs  map[string]*ssa.Package
	AllFuncs map[*ssa.Function]bool
	// ModFuncs are the functions (incl. anonymous and synthetic wrappers) whose
	// package is inside the module and that have a body.
	ModFuncs []*ssa.Function
	LoadTime time.Duration

	cg   *CallGraph
	refs map[*ssa.Function][]fnRef
}

// MinPackages is the floor asserted on every load (40 packages confirmed by hand).
const MinPackages = 38

// Load loads ./... of dir with the given GOOS/GOARCH (empty = host default).
func Load(dir, goos, goarch string) (*Program, error) {
	t0 := time.Now()
	env := os.Environ()
	cfgName := "default"
	if goos != "" {
		env = append(env, "GOOS="+goos)
		cfgName = goos
	}
	if goarch != "" {
		env = append(env, "GOARCH="+goarch, "CGO_ENABLED=0")
		cfgName += "/" + goarch
	}
	fset := token.NewFileSet()
	cfg := &packages.Config{
		Mode:  packages.LoadAllSyntax,
		Dir:   dir,
		Fset:  fset,
		Env:   env,
		Tests: false,
	}
	pkgs, err := packages.Load(cfg, "./...")
	if err != nil {
		return nil, fmt.Errorf("packages.Load: %w", err)
	}
	var errs []string
	packages.Visit(pkgs, nil, func(p *packages.Package) {
		for _, e := range p.Errors {
			errs = append(errs, fmt.Sprintf("%s: %v", p.PkgPath, e))
		}
	})
	if len(errs) > 0 {
		sort.Strings(errs)
		if len(errs) > 10 {
			errs = errs[:10]
		}
		return nil, fmt.Errorf("type-check/load errors (%d shown): %s", len(errs), strings.Join(errs, "; "))
	}
	if len(pkgs) < MinPackages {
		return nil, fmt.Errorf("loaded %d packages, expected at least %d", len(pkgs), MinPackages)
	}
	p := &Program{Dir: dir, Env: env, Config: cfgName, Fset: fset, Pkgs: pkgs,
		ByPath: map[string]*packages.Package{}, SSAPkgs: map[string]*ssa.Package{}}
	for _, pk := range pkgs {
		p.ByPath[pk.PkgPath] = pk
	}
	prog, _ := ssautil.AllPackages(pkgs, ssa.InstantiateGenerics)
	prog.Build()
	p.SSA = prog
	for _, sp := range prog.AllPackages() {
		p.SSAPkgs[sp.Pkg.Path()] = sp
	}
	p.AllFuncs = ssautil.AllFunctions(prog)
	for fn := range p.AllFuncs {
		if fn.Blocks == nil {
			continue
		}
		if pk := FuncPkgPath(fn); pk == Module || strings.HasPrefix(pk, Module+"/") {
			p.ModFuncs = append(p.ModFuncs, fn)
		}
	}
	sort.Slice(p.ModFuncs, func(i, j int) bool {
		a, b := p.ModFuncs[i], p.ModFuncs[j]
		if a.Pos() != b.Pos() {
			return a.Pos() < b.Pos()
		}
		return a.String() < b.String()
	})
	p.LoadTime = time.Since(t0)
	return p, nil
}

// FuncPkgPath returns the package path a function belongs to (for anonymous
// functions and wrappers: that of the enclosing / wrapped declaration).
func FuncPkgPath(fn *ssa.Function) string {
	for f := fn; f != nil; f = f.Parent() {
		if f.Pkg != nil {
			return f.Pkg.Pkg.Path()
		}
		if o := f.Object(); o != nil && o.Pkg() != nil {
			return o.Pkg().Path()
		}
		if f.Origin() != nil && f.Origin().Pkg != nil {
			return f.Origin().Pkg.Pkg.Path()
		}
	}
	return ""
}

// Root returns the outermost enclosing declared function of fn.
func Root(fn *ssa.Function) *ssa.Function {
	for fn.Parent() != nil {
		fn = fn.Parent()
	}
	return fn
}

// PkgPath expands a module-relative package path ("" = root, "lsm", "raftstore/kv").
func PkgPath(rel string) string {
	if rel == "" || rel == "." {
		return Module
	}
	if strings.Contains(rel, ".") && !strings.HasPrefix(rel, "cmd/") {
		return rel // already a full path (e.g. stdlib or third party with a dot)
	}
	if isStd(rel) {
		return rel
	}
	return Module + "/" + rel
}

var stdPkgs = map[string]bool{"bytes": true, "sort": true, "sync": true, "os": true, "io": true, "errors": true,
	"fmt": true, "strconv": true, "encoding/binary": true, "sync/atomic": true, "hash/crc32": true, "bufio": true,
	"slices": true, "strings": true, "syscall": true, "time": true, "math": true, "hash": true, "context": true}

func isStd(p string) bool { return stdPkgs[p] }

// LookupFunc resolves "Name", "T.Method" or "(*T).Method" in the package (relative path).
// It returns the SSA function (with body) or nil.
func (p *Program) LookupFunc(relPkg, name string) *ssa.Function {
	path := PkgPath(relPkg)
	sp := p.SSAPkgs[path]
	if sp == nil {
		return nil
	}
	name = strings.TrimSpace(name)
	recv, meth := "", name
	if i := strings.LastIndex(name, "."); i >= 0 {
		recv, meth = name[:i], name[i+1:]
		recv = strings.Trim(recv, "()*")
	}
	if recv == "" {
		if fn := sp.Func(meth); fn != nil {
			return fn
		}
		return nil
	}
	tn, _ := sp.Pkg.Scope().Lookup(recv).(*types.TypeName)
	if tn == nil {
		return nil
	}
	for _, t := range []types.Type{tn.Type(), types.NewPointer(tn.Type())} {
		ms := p.SSA.MethodSets.MethodSet(t)
		for i := 0; i < ms.Len(); i++ {
			sel := ms.At(i)
			if sel.Obj().Name() == meth {
				// only methods declared on this type (not promoted)
				if fnObj, ok := sel.Obj().(*types.Func); ok {
					if fn := p.SSA.FuncValue(fnObj); fn != nil && fn.Blocks != nil {
						rt := fnObj.Type().(*types.Signature).Recv().Type()
						if named := namedOf(rt); named != nil && named.Obj() == tn {
							return fn
						}
					}
				}
			}
		}
	}
	return nil
}

func namedOf(t types.Type) *types.Named {
	if pt, ok := t.(*types.Pointer); ok {
		t = pt.Elem()
	}
	n, _ := types.Unalias(t).(*types.Named)
	return n
}

// LookupType resolves a named type.
func (p *Program) LookupType(relPkg, name string) *types.TypeName {
	sp := p.SSAPkgs[PkgPath(relPkg)]
	if sp == nil {
		return nil
	}
	tn, _ := sp.Pkg.Scope().Lookup(name).(*types.TypeName)
	return tn
}

// LookupObj resolves any package-level object.
func (p *Program) LookupObj(relPkg, name string) types.Object {
	sp := p.SSAPkgs[PkgPath(relPkg)]
	if sp == nil {
		return nil
	}
	return sp.Pkg.Scope().Lookup(name)
}

// Pos renders a position relative to the repo directory.
func (p *Program) Pos(pos token.Pos) string {
	if !pos.IsValid() {
		return "-"
	}
	ps := p.Fset.Position(pos)
	f := strings.TrimPrefix(ps.Filename, p.Dir+"/")
	return fmt.Sprintf("%s:%d", f, ps.Line)
}

// FuncName renders a function as pkg-relative "lsm.(*levelManager).flush" (closures get $n).
func FuncName(fn *ssa.Function) string {
	if fn == nil {
		return "<nil>"
	}
	s := fn.String()
	s = strings.ReplaceAll(s, Module+"/", "")
	s = strings.ReplaceAll(s, Module+".", "NoKV.")
	s = strings.ReplaceAll(s, "("+Module+")", "NoKV")
	return s
}

// FileOf returns the syntax file containing pos.
func (p *Program) FileOf(pos token.Pos) (*packages.Package, *ast.File) {
	for _, pk := range p.Pkgs {
		for _, f := range pk.Syntax {
			if f.FileStart <= pos && pos <= f.FileEnd {
				return pk, f
			}
		}
	}
	return nil, nil
}
