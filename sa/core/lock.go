package core

import (
	"sort"
	"strings"

	"golang.org/x/tools/go/ssa"
)

// LockOp describes a mutex operation instruction.
type LockOp struct {
	In    ssa.Instruction
	ID    string // owner type + field, e.g. "NoKV.oracle.Mutex" (instance-insensitive)
	Path  string // access path, e.g. "o.Mutex"
	Op    string // Lock, Unlock, RLock, RUnlock
	Defer bool
}

var lockMethods = map[string]string{
	"(*sync.Mutex).Lock": "Lock", "(*sync.Mutex).Unlock": "Unlock",
	"(*sync.RWMutex).Lock": "Lock", "(*sync.RWMutex).Unlock": "Unlock",
	"(*sync.RWMutex).RLock": "RLock", "(*sync.RWMutex).RUnlock": "RUnlock",
	"(*sync.Mutex).TryLock": "TryLock",
}

// LockOpOf classifies an instruction.
func LockOpOf(in ssa.Instruction) *LockOp {
	ci, ok := in.(ssa.CallInstruction)
	if !ok {
		return nil
	}
	o := CalleeObj(ci.Common())
	if o == nil {
		return nil
	}
	op, ok := lockMethods[ObjName(o)]
	if !ok {
		return nil
	}
	args := ci.Common().Args
	if len(args) == 0 {
		return nil
	}
	recv := args[0]
	id := "?"
	if ow, f, ok := FieldOf(recv); ok {
		id = ow + "." + f
	} else {
		id = TypeName(recv.Type()) + ":" + AccessPath(recv)
	}
	_, isDefer := in.(*ssa.Defer)
	return &LockOp{In: in, ID: id, Path: AccessPath(recv), Op: op, Defer: isDefer}
}

// LockSets computes, for every instruction of fn, the set of lock IDs that are
// held on every path reaching it (must-analysis; RLock counts as held, recorded with
// the suffix "(r)").  Deferred unlocks keep the lock until the function exits.
type LockSets struct {
	fn *ssa.Function
	in map[*ssa.BasicBlock]map[string]bool
}

func ComputeLockSets(fn *ssa.Function) *LockSets {
	ls := &LockSets{fn: fn, in: map[*ssa.BasicBlock]map[string]bool{}}
	if len(fn.Blocks) == 0 {
		return ls
	}
	// universe
	all := map[string]bool{}
	for _, b := range fn.Blocks {
		for _, in := range b.Instrs {
			if op := LockOpOf(in); op != nil && !op.Defer {
				all[op.ID] = true
				all[op.ID+"(r)"] = true
			}
		}
	}
	copyOf := func(m map[string]bool) map[string]bool {
		o := map[string]bool{}
		for k := range m {
			o[k] = true
		}
		return o
	}
	out := map[*ssa.BasicBlock]map[string]bool{}
	for _, b := range fn.Blocks {
		out[b] = copyOf(all) // top
	}
	ls.in[fn.Blocks[0]] = map[string]bool{}
	changed := true
	for changed {
		changed = false
		for _, b := range fn.Blocks {
			var inSet map[string]bool
			if b == fn.Blocks[0] {
				inSet = map[string]bool{}
			} else if len(b.Preds) == 0 {
				inSet = map[string]bool{} // recover block etc.
			} else {
				for i, p := range b.Preds {
					if i == 0 {
						inSet = copyOf(out[p])
					} else {
						for k := range inSet {
							if !out[p][k] {
								delete(inSet, k)
							}
						}
					}
				}
			}
			ls.in[b] = inSet
			cur := copyOf(inSet)
			for _, in := range b.Instrs {
				applyLockOp(cur, in)
			}
			if !sameSet(cur, out[b]) {
				out[b] = cur
				changed = true
			}
		}
	}
	return ls
}

func applyLockOp(cur map[string]bool, in ssa.Instruction) {
	op := LockOpOf(in)
	if op == nil || op.Defer {
		return
	}
	switch op.Op {
	case "Lock":
		cur[op.ID] = true
	case "RLock":
		cur[op.ID+"(r)"] = true
	case "Unlock":
		delete(cur, op.ID)
	case "RUnlock":
		delete(cur, op.ID+"(r)")
	}
}

func sameSet(a, b map[string]bool) bool {
	if len(a) != len(b) {
		return false
	}
	for k := range a {
		if !b[k] {
			return false
		}
	}
	return true
}

// HeldAt returns the locks held immediately before instruction at.
func (ls *LockSets) HeldAt(at ssa.Instruction) []string {
	b := at.Block()
	cur := map[string]bool{}
	for k := range ls.in[b] {
		cur[k] = true
	}
	for _, in := range b.Instrs {
		if in == at {
			break
		}
		applyLockOp(cur, in)
	}
	var out []string
	for k := range cur {
		out = append(out, k)
	}
	sort.Strings(out)
	return out
}

// Holds reports whether lock id (write) — or, when allowRead, its read form — is held at at.
func (ls *LockSets) Holds(at ssa.Instruction, id string, allowRead bool) bool {
	for _, h := range ls.HeldAt(at) {
		if h == id || (allowRead && h == id+"(r)") {
			return true
		}
	}
	return false
}

// HoldsSuffix: some held lock id ends with suffix.
func (ls *LockSets) HoldsSuffix(at ssa.Instruction, suffix string, allowRead bool) bool {
	for _, h := range ls.HeldAt(at) {
		if strings.HasSuffix(h, suffix) || (allowRead && strings.HasSuffix(h, suffix+"(r)")) {
			return true
		}
	}
	return false
}
