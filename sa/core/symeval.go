package core

import (
	"fmt"
	"go/constant"
	"go/token"

	"golang.org/x/tools/go/ssa"
)

// Term evaluation: a path-sensitive abstract interpretation of loop-free integer code in
// the domain "named quantity + constant".  A scenario fixes the order of a few named
// quantities (facts such as  ckpt+1 < start); branches whose outcome follows from the
// facts are resolved, every other branch is taken both ways, and the analysis reports the
// set of terms a function can return in the scenario.  A selection such as
// `max(start, ckpt+1)` therefore has one verdict however it is spelled (if/else, builtin
// max, a helper function, inverted comparison).  Nothing is executed: quantities stay
// symbolic and only their stated order is used.

// Term is atom+K; Atom=="" is the plain constant K; !Known is "anything".
type Term struct {
	Atom  string
	K     int64
	Known bool
}

func (t Term) String() string {
	if !t.Known {
		return "?"
	}
	if t.Atom == "" {
		return fmt.Sprint(t.K)
	}
	switch {
	case t.K == 0:
		return t.Atom
	case t.K > 0:
		return fmt.Sprintf("%s+%d", t.Atom, t.K)
	}
	return fmt.Sprintf("%s%d", t.Atom, t.K)
}

// Fact states sign((A+I) − (B+J)) = S.
type Fact struct {
	A string
	I int64
	B string
	J int64
	S int
}

// TermEnv is one scenario.
type TermEnv struct {
	Atom    func(v ssa.Value) string // names leaves (parameters, field loads, distinguished constants)
	Facts   []Fact
	Depth   int // helper inlining bound
	Visited int
	bind    map[ssa.Value]Term
}

// Cmp returns the sign of a−b when it follows from the facts.
func (e *TermEnv) Cmp(a, b Term) (int, bool) {
	if !a.Known || !b.Known {
		return 0, false
	}
	if a.Atom == b.Atom {
		return sgn(a.K - b.K), true
	}
	for _, f := range e.Facts {
		var d int64
		var s int
		switch {
		case f.A == a.Atom && f.B == b.Atom:
			// (a.Atom+a.K) − (b.Atom+b.K) = [(A+I) − (B+J)] + (a.K−I) − (b.K−J)
			d, s = (a.K-f.I)-(b.K-f.J), f.S
		case f.A == b.Atom && f.B == a.Atom:
			d, s = -((b.K - f.I) - (a.K - f.J)), -f.S
		default:
			continue
		}
		switch {
		case s == 0:
			return sgn(d), true
		case s > 0 && d >= 0:
			return 1, true
		case s < 0 && d <= 0:
			return -1, true
		}
	}
	return 0, false
}

func sgn(x int64) int {
	switch {
	case x > 0:
		return 1
	case x < 0:
		return -1
	}
	return 0
}

type termPath struct {
	vals map[ssa.Value]Term
	on   map[*ssa.BasicBlock]bool
}

// term evaluates v on the current path.
func (e *TermEnv) term(v ssa.Value, p *termPath, depth int) Term {
	if t, ok := p.vals[v]; ok {
		return t
	}
	if t, ok := e.bind[v]; ok {
		return t
	}
	if e.Atom != nil {
		if a := e.Atom(v); a != "" {
			return Term{Atom: a, Known: true}
		}
	}
	switch x := v.(type) {
	case *ssa.Const:
		if x.Value != nil && x.Value.Kind() == constant.Int {
			if k, ok := constant.Int64Val(x.Value); ok {
				return Term{K: k, Known: true}
			}
		}
	case *ssa.Convert:
		return e.term(x.X, p, depth)
	case *ssa.ChangeType:
		return e.term(x.X, p, depth)
	case *ssa.BinOp:
		if x.Op == token.ADD || x.Op == token.SUB {
			l, r := e.term(x.X, p, depth), e.term(x.Y, p, depth)
			if l.Known && r.Known && r.Atom == "" {
				if x.Op == token.ADD {
					return Term{l.Atom, l.K + r.K, true}
				}
				return Term{l.Atom, l.K - r.K, true}
			}
			if x.Op == token.ADD && l.Known && r.Known && l.Atom == "" {
				return Term{r.Atom, l.K + r.K, true}
			}
		}
	case *ssa.Extract:
		if call, ok := x.Tuple.(*ssa.Call); ok {
			if rs := e.callTerms(call, p, depth); rs != nil && x.Index < len(rs) {
				return rs[x.Index]
			}
		}
	case *ssa.Call:
		if bi, ok := x.Call.Value.(*ssa.Builtin); ok && (bi.Name() == "max" || bi.Name() == "min") && len(x.Call.Args) >= 1 {
			best := e.term(x.Call.Args[0], p, depth)
			for _, a := range x.Call.Args[1:] {
				t := e.term(a, p, depth)
				s, ok := e.Cmp(t, best)
				if !ok {
					return Term{}
				}
				if (bi.Name() == "max" && s > 0) || (bi.Name() == "min" && s < 0) {
					best = t
				}
			}
			return best
		}
		if rs := e.callTerms(x, p, depth); len(rs) == 1 {
			return rs[0]
		}
	}
	return Term{}
}

// callTerms evaluates a static module callee with the argument terms bound to its
// parameters; the result is known only when every path of the callee returns the same terms.
func (e *TermEnv) callTerms(call *ssa.Call, p *termPath, depth int) []Term {
	if depth <= 0 {
		return nil
	}
	f := StaticFn(call.Common())
	if f == nil || f.Blocks == nil || !InModule(f) {
		return nil
	}
	saved := e.bind
	nb := map[ssa.Value]Term{}
	for k, v := range saved {
		nb[k] = v
	}
	for i, a := range call.Call.Args {
		if i < len(f.Params) {
			nb[f.Params[i]] = e.term(a, p, depth)
		}
	}
	e.bind = nb
	rs, complete := e.returnsOf(f, depth-1)
	e.bind = saved
	if !complete || len(rs) == 0 {
		return nil
	}
	out := rs[0]
	for _, r := range rs[1:] {
		for i := range r {
			if i >= len(out) || !out[i].Known || !r[i].Known {
				return nil
			}
			if out[i] != r[i] {
				if s, ok := e.Cmp(out[i], r[i]); !ok || s != 0 {
					out[i] = Term{}
				}
			}
		}
	}
	return out
}

// cond evaluates a boolean on the current path.
func (e *TermEnv) cond(v ssa.Value, p *termPath, depth int) Tri {
	switch x := v.(type) {
	case *ssa.Const:
		if x.Value != nil && x.Value.Kind() == constant.Bool {
			if constant.BoolVal(x.Value) {
				return True
			}
			return False
		}
	case *ssa.UnOp:
		if x.Op == token.NOT {
			return e.cond(x.X, p, depth).Not()
		}
	case *ssa.BinOp:
		s, ok := e.Cmp(e.term(x.X, p, depth), e.term(x.Y, p, depth))
		if !ok {
			return Unknown
		}
		if h, ok := cmpHolds(x.Op, s); ok {
			if h {
				return True
			}
			return False
		}
	}
	return Unknown
}

// Returns lists, for every path of f feasible in the scenario, the terms of its results.
// complete is false when f has a loop (the evaluation does not apply).
func (e *TermEnv) Returns(f *ssa.Function) ([][]Term, bool) {
	return e.returnsOf(f, e.Depth)
}

func (e *TermEnv) returnsOf(f *ssa.Function, depth int) ([][]Term, bool) {
	return e.walkPaths(f, depth, nil)
}

// StoredOnPaths lists, for every feasible path of f to a return, the terms of the values
// written by the stores selected by match on that path (in block order).
func (e *TermEnv) StoredOnPaths(f *ssa.Function, match func(*ssa.Store) bool) ([][]Term, bool) {
	return e.walkPaths(f, e.Depth, match)
}

func (e *TermEnv) walkPaths(f *ssa.Function, depth int, match func(*ssa.Store) bool) ([][]Term, bool) {
	var out [][]Term
	complete := true
	var walk func(b, pred *ssa.BasicBlock, p *termPath)
	walk = func(b, pred *ssa.BasicBlock, p *termPath) {
		if !complete {
			return
		}
		if p.on[b] {
			complete = false
			return
		}
		e.Visited++
		// phis take the value of the edge from pred (evaluated simultaneously)
		np := &termPath{vals: map[ssa.Value]Term{}, on: map[*ssa.BasicBlock]bool{}}
		for k, v := range p.vals {
			np.vals[k] = v
		}
		for k := range p.on {
			np.on[k] = true
		}
		np.on[b] = true
		if pred != nil {
			idx := -1
			for i, q := range b.Preds {
				if q == pred {
					idx = i
				}
			}
			for _, in := range b.Instrs {
				ph, ok := in.(*ssa.Phi)
				if !ok {
					break
				}
				if idx >= 0 {
					np.vals[ph] = e.term(ph.Edges[idx], p, depth)
				}
			}
		}
		if len(b.Instrs) == 0 {
			return
		}
		switch t := b.Instrs[len(b.Instrs)-1].(type) {
		case *ssa.Return:
			if f.Recover != nil && b == f.Recover {
				return
			}
			var rs []Term
			if match != nil {
				for _, pb := range f.Blocks {
					if !np.on[pb] {
						continue
					}
					for _, in := range pb.Instrs {
						if st, ok := in.(*ssa.Store); ok && match(st) {
							rs = append(rs, e.term(st.Val, np, depth))
						}
					}
				}
			} else {
				for i := range t.Results {
					rs = append(rs, e.term(RetVal(t, i), np, depth))
				}
			}
			out = append(out, rs)
		case *ssa.If:
			switch e.cond(t.Cond, np, depth) {
			case True:
				walk(b.Succs[0], b, np)
			case False:
				walk(b.Succs[1], b, np)
			default:
				walk(b.Succs[0], b, np)
				walk(b.Succs[1], b, np)
			}
		default:
			for _, s := range b.Succs {
				walk(s, b, np)
			}
		}
	}
	walk(f.Blocks[0], nil, &termPath{vals: map[ssa.Value]Term{}, on: map[*ssa.BasicBlock]bool{}})
	return out, complete
}
