package core

import (
	"sort"

	"golang.org/x/tools/go/callgraph"
	"golang.org/x/tools/go/callgraph/cha"
	"golang.org/x/tools/go/callgraph/vta"
	"golang.org/x/tools/go/ssa"
)

// CallGraph wraps the VTA call graph (seeded by CHA) of the whole loaded program.
type CallGraph struct {
	G     *callgraph.Graph
	Edges int
}

// CG builds (once) and returns the call graph.
func (p *Program) CG() *CallGraph {
	if p.cg != nil {
		return p.cg
	}
	g := vta.CallGraph(p.AllFuncs, cha.CallGraph(p.SSA))
	n := 0
	for _, nd := range g.Nodes {
		n += len(nd.Out)
	}
	p.cg = &CallGraph{G: g, Edges: n}
	return p.cg
}

// CallerSite is one incoming edge.
type CallerSite struct {
	Caller *ssa.Function
	Site   ssa.CallInstruction
}

// CallersOf lists every call edge into fn (callers inside the module only when modOnly).
func (p *Program) CallersOf(fn *ssa.Function) []CallerSite {
	g := p.CG().G
	nd := g.Nodes[fn]
	var out []CallerSite
	if nd == nil {
		return nil
	}
	for _, e := range nd.In {
		if e.Caller == nil || e.Caller.Func == nil {
			continue
		}
		out = append(out, CallerSite{e.Caller.Func, e.Site})
	}
	sort.Slice(out, func(i, j int) bool {
		a, b := out[i], out[j]
		if a.Caller.Pos() != b.Caller.Pos() {
			return a.Caller.Pos() < b.Caller.Pos()
		}
		var pa, pb int
		if a.Site != nil {
			pa = int(a.Site.Pos())
		}
		if b.Site != nil {
			pb = int(b.Site.Pos())
		}
		return pa < pb
	})
	return out
}

// CallerRoots returns the distinct outermost declared functions that call fn.
func (p *Program) CallerRoots(fn *ssa.Function) []*ssa.Function {
	seen := map[*ssa.Function]bool{}
	var out []*ssa.Function
	for _, cs := range p.CallersOf(fn) {
		r := Root(cs.Caller)
		// skip synthetic wrappers: attribute to their own callers
		if r.Synthetic != "" && r.Parent() == nil && r.Pkg == nil {
			for _, r2 := range p.CallerRoots(r) {
				if !seen[r2] {
					seen[r2] = true
					out = append(out, r2)
				}
			}
			continue
		}
		if !seen[r] {
			seen[r] = true
			out = append(out, r)
		}
	}
	sort.Slice(out, func(i, j int) bool { return FuncName(out[i]) < FuncName(out[j]) })
	return out
}

// Reach computes the set of functions reachable from roots along call edges
// (closures are reached through MakeClosure edges that VTA models as calls when
// invoked; to stay over-approximate we also add every anonymous function of a
// reached function).  stop functions are not expanded.
func (p *Program) Reach(roots []*ssa.Function, stop map[*ssa.Function]bool) map[*ssa.Function][]*ssa.Function {
	g := p.CG().G
	parent := map[*ssa.Function][]*ssa.Function{} // fn -> path from root (as predecessor chain)
	pred := map[*ssa.Function]*ssa.Function{}
	var work []*ssa.Function
	for _, r := range roots {
		if r == nil {
			continue
		}
		if _, ok := pred[r]; !ok {
			pred[r] = nil
			work = append(work, r)
		}
	}
	for len(work) > 0 {
		f := work[0]
		work = work[1:]
		if stop[f] {
			continue
		}
		var next []*ssa.Function
		if nd := g.Nodes[f]; nd != nil {
			for _, e := range nd.Out {
				if e.Callee != nil && e.Callee.Func != nil {
					next = append(next, e.Callee.Func)
				}
			}
		}
		next = append(next, f.AnonFuncs...)
		for _, n := range next {
			if _, ok := pred[n]; !ok {
				pred[n] = f
				work = append(work, n)
			}
		}
	}
	for f := range pred {
		var path []*ssa.Function
		for x := f; x != nil; x = pred[x] {
			path = append([]*ssa.Function{x}, path...)
		}
		parent[f] = path
	}
	return parent
}
