package core

import (
	"sort"

	"golang.org/x/tools/go/callgraph"
	"golang.org/x/tools/go/callgraph/cha"
	"golang.org/x/tools/go/callgraph/vta"
	"golang.org/x/tools/go/ssa"
)

// CallGraph wraps the VTA call graph (seeded by CHA) of the whole loaded program.
type CallGraph struct {
	G     *callgraph.Graph
	Edges int
}

// CG builds (once) and returns the call graph.
func (p *Program) CG() *CallGraph {
	if p.cg != nil {
		return p.cg
	}
	g := vta.CallGraph(p.AllFuncs, cha.CallGraph(p.SSA))
	n := 0
	for _, nd := range g.Nodes {
		n += len(nd.Out)
	}
	p.cg = &CallGraph{G: g, Edges: n}
	return p.cg
}

// CallerSite is one incoming edge.
type CallerSite struct {
	Caller *ssa.Function
	Site   ssa.CallInstruction
}

// InModule reports whether fn belongs to the analysed module.
func InModule(fn *ssa.Function) bool {
	pk := FuncPkgPath(fn)
	return pk == Module || len(pk) > len(Module) && pk[:len(Module)+1] == Module+"/"
}

// CallersOf lists every way fn can be invoked from module code: call-graph edges whose
// caller is a module function, plus every module instruction that takes fn (or a
// bound-method / thunk wrapper of it) as a value – e.g. `go f()`, `wg.Go(f)`,
// callbacks stored in structs.  Call edges from non-module trampolines
// (sync.WaitGroup.Go, sort.Slice, …) are replaced by those reference sites, which
// keeps the result over-approximate without merging unrelated callbacks.
func (p *Program) CallersOf(fn *ssa.Function) []CallerSite {
	g := p.CG().G
	var out []CallerSite
	seen := map[ssa.Instruction]bool{}
	if nd := g.Nodes[fn]; nd != nil {
		for _, e := range nd.In {
			if e.Caller == nil || e.Caller.Func == nil || !InModule(e.Caller.Func) {
				continue
			}
			if isWrapper(e.Caller.Func) {
				// wrapper: attribute to the wrapper's own callers / references
				for _, cs := range p.CallersOf(e.Caller.Func) {
					if cs.Site == nil || !seen[cs.Site.(ssa.Instruction)] {
						out = append(out, cs)
						if cs.Site != nil {
							seen[cs.Site.(ssa.Instruction)] = true
						}
					}
				}
				continue
			}
			if e.Site != nil {
				if seen[e.Site.(ssa.Instruction)] {
					continue
				}
				seen[e.Site.(ssa.Instruction)] = true
			}
			out = append(out, CallerSite{e.Caller.Func, e.Site})
		}
	}
	// value references
	for _, ref := range p.refIndex()[fn] {
		if ci, ok := ref.In.(ssa.CallInstruction); ok {
			if seen[ref.In] {
				continue
			}
			seen[ref.In] = true
			out = append(out, CallerSite{ref.Fn, ci})
		} else {
			out = append(out, CallerSite{ref.Fn, nil})
		}
	}
	sort.Slice(out, func(i, j int) bool {
		a, b := out[i], out[j]
		if a.Caller.Pos() != b.Caller.Pos() {
			return a.Caller.Pos() < b.Caller.Pos()
		}
		var pa, pb int
		if a.Site != nil {
			pa = int(a.Site.Pos())
		}
		if b.Site != nil {
			pb = int(b.Site.Pos())
		}
		return pa < pb
	})
	return out
}

type fnRef struct {
	Fn *ssa.Function
	In ssa.Instruction
}

// refIndex maps a function to the module instructions that use it as a value (not as
// the callee of a static call).
func (p *Program) refIndex() map[*ssa.Function][]fnRef {
	if p.refs != nil {
		return p.refs
	}
	p.refs = map[*ssa.Function][]fnRef{}
	var buf [10]*ssa.Value
	for _, f := range p.ModFuncs {
		if isWrapper(f) {
			continue
		}
		for _, b := range f.Blocks {
			for _, in := range b.Instrs {
				ops := in.Operands(buf[:0])
				var calleeOp *ssa.Value
				if ci, ok := in.(ssa.CallInstruction); ok && !ci.Common().IsInvoke() {
					calleeOp = &ci.Common().Value
				}
				for _, op := range ops {
					if op == nil || *op == nil {
						continue
					}
					if calleeOp != nil && op == calleeOp {
						continue
					}
					var target *ssa.Function
					switch v := (*op).(type) {
					case *ssa.Function:
						target = v
					case *ssa.MakeClosure:
						continue // handled when visiting the MakeClosure instruction itself
					}
					if mc, ok := in.(*ssa.MakeClosure); ok && op == &mc.Fn {
						if tf, ok := mc.Fn.(*ssa.Function); ok {
							target = tf
						}
					}
					if target == nil {
						continue
					}
					if isWrapper(target) {
						if o := synthTarget(target); o != nil {
							if real := p.SSA.FuncValue(o); real != nil {
								target = real
							}
						}
					}
					if target.Parent() != nil {
						continue // anonymous functions belong to their parent
					}
					p.refs[target] = append(p.refs[target], fnRef{f, in})
				}
			}
		}
	}
	return p.refs
}

// CallerRoots returns the distinct outermost declared functions that call fn.
func (p *Program) CallerRoots(fn *ssa.Function) []*ssa.Function {
	seen := map[*ssa.Function]bool{}
	var out []*ssa.Function
	for _, cs := range p.CallersOf(fn) {
		r := Root(cs.Caller)
		// skip synthetic wrappers: attribute to their own callers
		if r.Synthetic != "" && r.Parent() == nil && r.Pkg == nil {
			for _, r2 := range p.CallerRoots(r) {
				if !seen[r2] {
					seen[r2] = true
					out = append(out, r2)
				}
			}
			continue
		}
		if !seen[r] {
			seen[r] = true
			out = append(out, r)
		}
	}
	sort.Slice(out, func(i, j int) bool { return FuncName(out[i]) < FuncName(out[j]) })
	return out
}

// Reach computes the module functions reachable from roots.  Edges: static calls to
// module functions; dynamic / interface calls resolved by VTA to module functions;
// for calls whose callee is outside the module, the function values passed as
// arguments (callbacks); every anonymous function of a reached function; every module
// function referenced as a value in a reached function.  Non-module callees are not
// entered, so unrelated callbacks sharing a stdlib trampoline are not merged.
// stop functions are not expanded.  The map value is the path from a root.
func (p *Program) Reach(roots []*ssa.Function, stop map[*ssa.Function]bool) map[*ssa.Function][]*ssa.Function {
	g := p.CG().G
	pred := map[*ssa.Function]*ssa.Function{}
	var work []*ssa.Function
	for _, r := range roots {
		if r == nil {
			continue
		}
		if _, ok := pred[r]; !ok {
			pred[r] = nil
			work = append(work, r)
		}
	}
	var buf [10]*ssa.Value
	for len(work) > 0 {
		f := work[0]
		work = work[1:]
		if stop[f] || stop[Root(f)] {
			continue
		}
		var next []*ssa.Function
		add := func(t *ssa.Function) {
			if t == nil {
				return
			}
			if isWrapper(t) {
				if o := synthTarget(t); o != nil {
					if real := p.SSA.FuncValue(o); real != nil {
						t = real
					}
				}
			}
			if InModule(t) && t.Blocks != nil {
				next = append(next, t)
			}
		}
		if nd := g.Nodes[f]; nd != nil {
			for _, e := range nd.Out {
				if e.Callee != nil && e.Callee.Func != nil {
					add(e.Callee.Func)
				}
			}
		}
		for _, b := range f.Blocks {
			for _, in := range b.Instrs {
				for _, op := range in.Operands(buf[:0]) {
					if op == nil || *op == nil {
						continue
					}
					switch v := (*op).(type) {
					case *ssa.Function:
						add(v)
					case *ssa.MakeClosure:
						if tf, ok := v.Fn.(*ssa.Function); ok {
							add(tf)
						}
					}
				}
			}
		}
		next = append(next, f.AnonFuncs...)
		for _, n := range next {
			if _, ok := pred[n]; !ok {
				pred[n] = f
				work = append(work, n)
			}
		}
	}
	parent := map[*ssa.Function][]*ssa.Function{}
	for f := range pred {
		var path []*ssa.Function
		for x := f; x != nil; x = pred[x] {
			path = append([]*ssa.Function{x}, path...)
		}
		parent[f] = path
	}
	return parent
}
