package core

import (
	"go/constant"
	"go/token"
	"go/types"
	"sort"
	"strings"

	"golang.org/x/tools/go/ssa"
)

// ---------------------------------------------------------------------------------
// instruction enumeration

// AllInstrs visits every instruction of fn and, when deep, of its anonymous functions.
func AllInstrs(fn *ssa.Function, deep bool, f func(in ssa.Instruction)) {
	if fn == nil {
		return
	}
	for _, b := range fn.Blocks {
		for _, in := range b.Instrs {
			f(in)
		}
	}
	if deep {
		for _, a := range fn.AnonFuncs {
			AllInstrs(a, true, f)
		}
	}
}

// Matcher selects call instructions.
type Matcher func(c *ssa.CallCommon) bool

// CalleeObj returns the *types.Func a call resolves to statically (function, method
// or interface method), or nil for dynamic calls of function values.
func CalleeObj(c *ssa.CallCommon) *types.Func {
	if c.IsInvoke() {
		return c.Method
	}
	switch v := c.Value.(type) {
	case *ssa.Function:
		if o, ok := v.Object().(*types.Func); ok {
			return o
		}
		if v.Origin() != nil {
			if o, ok := v.Origin().Object().(*types.Func); ok {
				return o
			}
		}
		// bound method wrapper / thunk
		if isWrapper(v) {
			if o := synthTarget(v); o != nil {
				return o
			}
		}
	case *ssa.MakeClosure:
		if f, ok := v.Fn.(*ssa.Function); ok {
			if o, ok := f.Object().(*types.Func); ok {
				return o
			}
			if isWrapper(f) {
				return synthTarget(f)
			}
		}
	case *ssa.UnOp:
		// call through a package-level function variable assigned exactly once in the
		// package initializer (`var IsEmptyHardState = etcdraft.IsEmptyHardState`)
		if g, ok := v.X.(*ssa.Global); ok && v.Op == token.MUL {
			if f := globalFuncValue(g); f != nil {
				if o, ok := f.Object().(*types.Func); ok {
					return o
				}
			}
		}
	}
	return nil
}

var globalFuncCache = map[*ssa.Global]*ssa.Function{}

// ResetCaches drops the memo tables keyed by SSA objects.  The checker self-test loads one
// program per seeded change; without this every one of them stays reachable (a Global leads to
// its whole ssa.Program) and a property with many seeds needs tens of gigabytes.
func ResetCaches() {
	globalFuncCache = map[*ssa.Global]*ssa.Function{}
}

func globalFuncValue(g *ssa.Global) *ssa.Function {
	if f, ok := globalFuncCache[g]; ok {
		return f
	}
	var found *ssa.Function
	n := 0
	if g.Pkg != nil {
		if init := g.Pkg.Func("init"); init != nil {
			for _, b := range init.Blocks {
				for _, in := range b.Instrs {
					if st, ok := in.(*ssa.Store); ok && st.Addr == g {
						n++
						if f, ok := st.Val.(*ssa.Function); ok {
							found = f
						}
					}
				}
			}
		}
	}
	if n != 1 {
		found = nil
	}
	globalFuncCache[g] = found
	return found
}

func isWrapper(f *ssa.Function) bool {
	s := f.Synthetic
	return strings.HasPrefix(s, "wrapper for") || strings.HasPrefix(s, "bound method wrapper") || strings.HasPrefix(s, "thunk for")
}

// synthTarget finds the declared method a synthetic wrapper/bound-method forwards to
// (one level only: the wrapped callee must be a declared function or interface method).
func synthTarget(f *ssa.Function) *types.Func {
	var res *types.Func
	for _, b := range f.Blocks {
		for _, in := range b.Instrs {
			if ci, ok := in.(ssa.CallInstruction); ok {
				cc := ci.Common()
				if cc.IsInvoke() {
					res = cc.Method
				} else if fn, ok := cc.Value.(*ssa.Function); ok {
					if o, ok := fn.Object().(*types.Func); ok {
						res = o
					}
				}
			}
		}
	}
	return res
}

// StaticFn returns the *ssa.Function called, if static (incl. closures created inline).
func StaticFn(c *ssa.CallCommon) *ssa.Function {
	if c.IsInvoke() {
		return nil
	}
	switch v := c.Value.(type) {
	case *ssa.Function:
		return v
	case *ssa.MakeClosure:
		f, _ := v.Fn.(*ssa.Function)
		return f
	}
	return nil
}

// FullName of a types.Func relative to the module: "lsm.(*LSM).Get", "bytes.Compare".
func ObjName(o *types.Func) string {
	if o == nil {
		return ""
	}
	s := o.FullName()
	s = strings.ReplaceAll(s, Module+"/", "")
	s = strings.ReplaceAll(s, Module+".", "NoKV.")
	s = strings.ReplaceAll(s, "("+Module+")", "NoKV")
	return s
}

// Named matches calls whose resolved callee has one of the given ObjName forms.
// Forms: "wal.(*Manager).Sync", "(*sync.Mutex).Lock", "bytes.Compare",
// "NoKV.(*DB).batchSet" (root package is spelled NoKV).
func Named(names ...string) Matcher {
	set := map[string]bool{}
	for _, n := range names {
		set[NormName(n)] = true
	}
	return func(c *ssa.CallCommon) bool {
		o := CalleeObj(c)
		if o == nil {
			return false
		}
		return set[ObjName(o)]
	}
}

// NormName rewrites "pkg.(*T).M" / "pkg.(T).M" into the types.Func.FullName form
// "(*pkg.T).M" / "(pkg.T).M" used by ObjName.
func NormName(n string) string {
	i := strings.Index(n, ".(")
	if i < 0 || strings.HasPrefix(n, "(") {
		return n
	}
	pkg, rest := n[:i], n[i+2:] // rest = "*T).M" or "T).M"
	if strings.HasPrefix(rest, "*") {
		return "(*" + pkg + "." + rest[1:]
	}
	return "(" + pkg + "." + rest
}

// MethodNamed matches any call (static or invoke) to a method with the given bare
// name whose receiver's named type is typeName (package-relative "wal.Manager").
func MethodNamed(typeName, method string) Matcher {
	return func(c *ssa.CallCommon) bool {
		o := CalleeObj(c)
		if o == nil || o.Name() != method {
			return false
		}
		sig, _ := o.Type().(*types.Signature)
		if sig == nil || sig.Recv() == nil {
			return false
		}
		return TypeName(sig.Recv().Type()) == typeName
	}
}

// TypeName renders a (pointer to) named type as "pkgrel.Name".
func TypeName(t types.Type) string {
	if pt, ok := t.(*types.Pointer); ok {
		t = pt.Elem()
	}
	n, _ := types.Unalias(t).(*types.Named)
	if n == nil {
		return t.String()
	}
	o := n.Obj()
	if o.Pkg() == nil {
		return o.Name()
	}
	p := o.Pkg().Path()
	if p == Module {
		p = "NoKV"
	} else {
		p = strings.TrimPrefix(p, Module+"/")
	}
	return p + "." + o.Name()
}

// Fnm matches static calls to exactly this SSA function.
func Fnm(fn *ssa.Function) Matcher {
	return func(c *ssa.CallCommon) bool {
		if fn == nil {
			return false
		}
		if s := StaticFn(c); s != nil {
			if s == fn || s.Origin() == fn {
				return true
			}
		}
		if o := CalleeObj(c); o != nil && fn.Object() != nil && o == fn.Object() {
			return true
		}
		return false
	}
}

// Or combines matchers.
func Or(ms ...Matcher) Matcher {
	return func(c *ssa.CallCommon) bool {
		for _, m := range ms {
			if m(c) {
				return true
			}
		}
		return false
	}
}

// Calls returns the call instructions (call, go, defer) in fn matching m, in source
// order.  With deep, anonymous functions nested in fn are searched too.
func Calls(fn *ssa.Function, deep bool, m Matcher) []ssa.CallInstruction {
	var out []ssa.CallInstruction
	AllInstrs(fn, deep, func(in ssa.Instruction) {
		if ci, ok := in.(ssa.CallInstruction); ok && m(ci.Common()) {
			out = append(out, ci)
		}
	})
	return out
}

// ---------------------------------------------------------------------------------
// dominance and reachability at instruction granularity

func idx(in ssa.Instruction) int {
	for i, x := range in.Block().Instrs {
		if x == in {
			return i
		}
	}
	return -1
}

// Dominates reports whether a is executed before b on every path to b (same function).
func Dominates(a, b ssa.Instruction) bool {
	if a.Parent() != b.Parent() {
		return false
	}
	if a.Block() == b.Block() {
		return idx(a) < idx(b)
	}
	return a.Block().Dominates(b.Block())
}

// AnyDominates: some a in as dominates b.
func AnyDominates(as []ssa.Instruction, b ssa.Instruction) bool {
	for _, a := range as {
		if Dominates(a, b) {
			return true
		}
	}
	return false
}

// CutReach reports whether target is reachable from the function entry along a path
// that executes none of the cut instructions first, and crosses none of the cut edges.
// (false ⇒ every path to target passes through a cut: the collective-dominance test.)
// It returns the number of blocks explored.
func CutReach(fn *ssa.Function, start ssa.Instruction, target ssa.Instruction, cuts []ssa.Instruction, cutEdges map[[2]*ssa.BasicBlock]bool) (reach bool, explored int) {
	isCut := map[ssa.Instruction]bool{}
	for _, c := range cuts {
		isCut[c] = true
	}
	type st struct {
		b    *ssa.BasicBlock
		from int
	}
	var work []st
	seen := map[*ssa.BasicBlock]bool{}
	if start == nil {
		if len(fn.Blocks) == 0 {
			return false, 0
		}
		work = append(work, st{fn.Blocks[0], 0})
	} else {
		work = append(work, st{start.Block(), idx(start) + 1})
	}
	for len(work) > 0 {
		s := work[len(work)-1]
		work = work[:len(work)-1]
		if s.from == 0 {
			if seen[s.b] {
				continue
			}
			seen[s.b] = true
		}
		explored++
		stopped := false
		for i := s.from; i < len(s.b.Instrs); i++ {
			in := s.b.Instrs[i]
			if in == target {
				return true, explored
			}
			if isCut[in] {
				stopped = true
				break
			}
		}
		if stopped {
			continue
		}
		for _, succ := range s.b.Succs {
			if cutEdges != nil && cutEdges[[2]*ssa.BasicBlock{s.b, succ}] {
				continue
			}
			work = append(work, st{succ, 0})
		}
	}
	return false, explored
}

// MustPrecede: every path from entry to target passes one of the cuts.
func MustPrecede(fn *ssa.Function, target ssa.Instruction, cuts []ssa.Instruction) (bool, int) {
	r, n := CutReach(fn, nil, target, cuts, nil)
	return !r, n
}

// ---------------------------------------------------------------------------------
// error-value tracking

// IsNilConst reports whether v is the nil constant.
func IsNilConst(v ssa.Value) bool {
	c, ok := v.(*ssa.Const)
	return ok && c.Value == nil
}

// ErrResult returns the SSA value carrying the error result of a call (the call
// itself for single-result calls, the Extract for tuples), or nil.
func ErrResult(ci ssa.CallInstruction) ssa.Value {
	v := ci.Value()
	if v == nil {
		return nil
	}
	sig := ci.Common().Signature()
	n := sig.Results().Len()
	if n == 0 {
		return nil
	}
	last := sig.Results().At(n - 1).Type()
	if !isErrorType(last) {
		return nil
	}
	if n == 1 {
		return v
	}
	for _, r := range *v.Referrers() {
		if ex, ok := r.(*ssa.Extract); ok && ex.Index == n-1 {
			return ex
		}
	}
	return nil
}

func isErrorType(t types.Type) bool {
	n, ok := types.Unalias(t).(*types.Named)
	return ok && n.Obj().Pkg() == nil && n.Obj().Name() == "error"
}

// FlowSet returns the set of values that may carry v: closure over phi nodes, stores
// to local allocs (named results / captured variables) and loads from them,
// ChangeInterface/MakeInterface passthrough.
func FlowSet(v ssa.Value) map[ssa.Value]bool {
	set := map[ssa.Value]bool{}
	var add func(x ssa.Value)
	add = func(x ssa.Value) {
		if x == nil || set[x] {
			return
		}
		set[x] = true
		refs := x.Referrers()
		if refs == nil {
			return
		}
		for _, r := range *refs {
			switch r := r.(type) {
			case *ssa.Phi:
				add(r)
			case *ssa.ChangeInterface:
				add(r)
			case *ssa.Store:
				if r.Val == x {
					// loads of the same address
					if ar := r.Addr.Referrers(); ar != nil {
						for _, l := range *ar {
							if u, ok := l.(*ssa.UnOp); ok && u.Op == token.MUL {
								add(u)
							}
						}
					}
				}
			}
		}
	}
	add(v)
	return set
}

// NilEdges returns, for every If in fn whose condition compares a value of set with
// nil, the edge taken when the value IS nil (success edge) and the If instruction.
type CondEdge struct {
	If      *ssa.If
	Nil     [2]*ssa.BasicBlock // edge taken when value == nil
	NonNil  [2]*ssa.BasicBlock
	Operand ssa.Value
}

func NilEdges(fn *ssa.Function, set map[ssa.Value]bool) []CondEdge {
	var out []CondEdge
	for _, b := range fn.Blocks {
		if len(b.Instrs) == 0 {
			continue
		}
		ifi, ok := b.Instrs[len(b.Instrs)-1].(*ssa.If)
		if !ok {
			continue
		}
		bo, ok := ifi.Cond.(*ssa.BinOp)
		if !ok || (bo.Op != token.NEQ && bo.Op != token.EQL) {
			continue
		}
		var operand ssa.Value
		if set[bo.X] && IsNilConst(bo.Y) {
			operand = bo.X
		} else if set[bo.Y] && IsNilConst(bo.X) {
			operand = bo.Y
		} else {
			continue
		}
		t, f := b.Succs[0], b.Succs[1]
		ce := CondEdge{If: ifi, Operand: operand}
		if bo.Op == token.NEQ { // v != nil: true edge = non-nil
			ce.NonNil = [2]*ssa.BasicBlock{b, t}
			ce.Nil = [2]*ssa.BasicBlock{b, f}
		} else {
			ce.Nil = [2]*ssa.BasicBlock{b, t}
			ce.NonNil = [2]*ssa.BasicBlock{b, f}
		}
		out = append(out, ce)
	}
	return out
}

// SuccessGuards: target is reachable from the call only across a nil edge of the
// call's error (i.e. the call's failure never reaches target).  Returns
// (guarded, explored, reason).
func SuccessGuards(ci ssa.CallInstruction, target ssa.Instruction) (bool, int, string) {
	fn := ci.Parent()
	ev := ErrResult(ci)
	if ev == nil {
		return false, 0, "call has no error result (or it is discarded)"
	}
	set := FlowSet(ev)
	edges := NilEdges(fn, set)
	if len(edges) == 0 {
		return false, 0, "error result is never compared with nil"
	}
	// Remove nil edges: if target still reachable from the call, some path reaches it
	// without the error having been tested nil.
	cut := map[[2]*ssa.BasicBlock]bool{}
	for _, e := range edges {
		cut[e.Nil] = true
	}
	r, n := CutReach(fn, ci.(ssa.Instruction), target, nil, cut)
	if r {
		return false, n, "a path from the call reaches the target without crossing an err==nil edge"
	}
	return true, n, ""
}

// ---------------------------------------------------------------------------------
// returns

// Returns lists the Return instructions of fn.
func Returns(fn *ssa.Function) []*ssa.Return {
	var out []*ssa.Return
	for _, b := range fn.Blocks {
		if len(b.Instrs) == 0 {
			continue
		}
		if r, ok := b.Instrs[len(b.Instrs)-1].(*ssa.Return); ok {
			out = append(out, r)
		}
	}
	return out
}

// RetVal resolves result i of return r through go/ssa's defer spill (functions with
// defer store results to a local alloc, run defers, reload, return): it yields the
// value stored in the same block when the operand is such a reload.
func RetVal(r *ssa.Return, i int) ssa.Value {
	if i < 0 || i >= len(r.Results) {
		return nil
	}
	v := r.Results[i]
	u, ok := v.(*ssa.UnOp)
	if !ok || u.Op != token.MUL {
		return v
	}
	al, ok := u.X.(*ssa.Alloc)
	if !ok {
		return v
	}
	b := r.Block()
	for j := len(b.Instrs) - 1; j >= 0; j-- {
		if st, ok := b.Instrs[j].(*ssa.Store); ok && st.Addr == al {
			return st.Val
		}
	}
	// single-predecessor chain
	for p := b; len(p.Preds) == 1; {
		p = p.Preds[0]
		for j := len(p.Instrs) - 1; j >= 0; j-- {
			if st, ok := p.Instrs[j].(*ssa.Store); ok && st.Addr == al {
				return st.Val
			}
		}
	}
	return v
}

// ProvablyNonNil reports whether v cannot be nil at instruction at.
func ProvablyNonNil(v ssa.Value, at ssa.Instruction, depth int) bool {
	return provablyNonNil(v, at, depth, nil)
}

// provablyNonNil: as ProvablyNonNil, with a set of values assumed non-nil (the parameters of a
// callee that receive provably non-nil arguments).
func provablyNonNil(v ssa.Value, at ssa.Instruction, depth int, assume map[ssa.Value]bool) bool {
	if depth > 6 {
		return false
	}
	if assume[v] {
		return true
	}
	if r, ok := calleeResultNonNil(v, depth, assume); ok && r {
		return true
	}
	switch x := v.(type) {
	case *ssa.Const:
		return x.Value != nil || !isNillable(x.Type())
	case *ssa.MakeInterface, *ssa.Alloc, *ssa.MakeClosure, *ssa.MakeMap, *ssa.MakeSlice, *ssa.MakeChan, *ssa.Function, *ssa.Global:
		return true
	case *ssa.Call:
		if o := CalleeObj(x.Common()); o != nil {
			if ObjName(o) == "errors.Join" && len(x.Call.Args) == 1 {
				// variadic slice: non-nil if any stored element is provably non-nil
				for _, el := range variadicElems(x.Call.Args[0]) {
					if provablyNonNil(el, x, depth+1, assume) {
						return true
					}
				}
				return false
			}
			switch ObjName(o) {
			case "errors.New", "fmt.Errorf", "github.com/pkg/errors.New", "github.com/pkg/errors.Errorf",
				"github.com/pkg/errors.Wrapf", "github.com/pkg/errors.Wrap", "github.com/pkg/errors.WithStack",
				"google.golang.org/grpc/status.Error", "google.golang.org/grpc/status.Errorf":
				// Wrap(nil) returns nil; treat Wrap* as non-nil only if operand non-nil
				n := ObjName(o)
				if strings.Contains(n, "Wrap") || strings.Contains(n, "WithStack") {
					if len(x.Call.Args) > 0 {
						return provablyNonNil(x.Call.Args[0], at, depth+1, assume)
					}
					return false
				}
				return true
			}
		}
	case *ssa.Phi:
		for _, e := range x.Edges {
			if !provablyNonNil(e, at, depth+1, assume) {
				// maybe guarded below
				goto guard
			}
		}
		return true
	case *ssa.UnOp:
		if x.Op == token.MUL {
			// load of a package-level error variable (sentinel)
			if g, ok := x.X.(*ssa.Global); ok && isErrorType(g.Type().(*types.Pointer).Elem()) {
				return true
			}
		}
	}
guard:
	// dominated by the non-nil edge of a test on v
	if at != nil {
		fn := at.Parent()
		for _, e := range NilEdges(fn, map[ssa.Value]bool{v: true}) {
			if edgeDominates(e.NonNil, at.Block()) {
				return true
			}
		}
	}
	return false
}

// calleeResultNonNil: v is the (error) result of a call to a module function with a body whose
// every return yields a provably non-nil value for that result, assuming the parameters that
// receive provably non-nil arguments are non-nil (e.g. `return m.abandon(err)` where abandon
// returns errors.Join(cause, closeErr)).  ok=false when v is not such a call.
func calleeResultNonNil(v ssa.Value, depth int, assume map[ssa.Value]bool) (result bool, ok bool) {
	var call *ssa.Call
	idx := 0
	switch x := v.(type) {
	case *ssa.Call:
		call = x
	case *ssa.Extract:
		c, isCall := x.Tuple.(*ssa.Call)
		if !isCall {
			return false, false
		}
		call, idx = c, x.Index
	default:
		return false, false
	}
	f := StaticFn(call.Common())
	if f == nil || f.Blocks == nil || !InModule(f) || depth > 4 {
		return false, false
	}
	if _, isCall := v.(*ssa.Call); isCall && f.Signature.Results().Len() != 1 {
		return false, false
	}
	inner := map[ssa.Value]bool{}
	for i, a := range call.Call.Args {
		if i < len(f.Params) && provablyNonNil(a, call, depth+1, assume) {
			inner[f.Params[i]] = true
		}
	}
	n := 0
	for _, b := range f.Blocks {
		if len(b.Instrs) == 0 || (f.Recover != nil && b == f.Recover) {
			continue
		}
		r, isRet := b.Instrs[len(b.Instrs)-1].(*ssa.Return)
		if !isRet || idx >= len(r.Results) {
			continue
		}
		n++
		if !provablyNonNil(RetVal(r, idx), r, depth+2, inner) {
			return false, true
		}
	}
	return n > 0, true
}

// variadicElems returns the values stored into the backing array of a variadic slice.
func variadicElems(v ssa.Value) []ssa.Value {
	sl, ok := v.(*ssa.Slice)
	if !ok {
		return nil
	}
	al, ok := sl.X.(*ssa.Alloc)
	if !ok || al.Referrers() == nil {
		return nil
	}
	var out []ssa.Value
	for _, r := range *al.Referrers() {
		if ia, ok := r.(*ssa.IndexAddr); ok && ia.Referrers() != nil {
			for _, rr := range *ia.Referrers() {
				if st, ok := rr.(*ssa.Store); ok && st.Addr == ia {
					out = append(out, st.Val)
				}
			}
		}
	}
	return out
}

func isNillable(t types.Type) bool {
	switch types.Unalias(t).Underlying().(type) {
	case *types.Pointer, *types.Interface, *types.Slice, *types.Map, *types.Chan, *types.Signature:
		return true
	}
	return false
}

// edgeDominates: every path to b crosses edge e (from→to).
func edgeDominates(e [2]*ssa.BasicBlock, b *ssa.BasicBlock) bool {
	from, to := e[0], e[1]
	if to == nil || from == nil {
		return false
	}
	// to dominates b, and to's only way in (on paths to b) is via from: require that
	// to has a single predecessor or that to is dominated by from and all other preds
	// of to are dominated by to (loop back edges).
	if !to.Dominates(b) {
		return false
	}
	for _, p := range to.Preds {
		if p == from {
			continue
		}
		if !to.Dominates(p) {
			return false
		}
	}
	// both successors identical ⇒ edge carries no information
	if len(from.Succs) == 2 && from.Succs[0] == from.Succs[1] {
		return false
	}
	return true
}

// EdgeDominates is the exported form.
func EdgeDominates(from, to, b *ssa.BasicBlock) bool {
	return edgeDominates([2]*ssa.BasicBlock{from, to}, b)
}

// ErrorResultIndex returns the index of the (last) error result of fn, or -1.
func ErrorResultIndex(fn *ssa.Function) int {
	res := fn.Signature.Results()
	for i := res.Len() - 1; i >= 0; i-- {
		if isErrorType(res.At(i).Type()) {
			return i
		}
	}
	return -1
}

// SuccessReturns lists returns of fn whose error result is not provably non-nil.
// For functions without error result every return is a success return.
func SuccessReturns(fn *ssa.Function) []*ssa.Return {
	ei := ErrorResultIndex(fn)
	var out []*ssa.Return
	for _, r := range Returns(fn) {
		if ei < 0 || ei >= len(r.Results) {
			out = append(out, r)
			continue
		}
		if fn.Recover != nil && r.Block() == fn.Recover {
			continue // panic-recovery exit, not a normal return
		}
		if !ProvablyNonNil(RetVal(r, ei), r, 0) {
			out = append(out, r)
		}
	}
	return out
}

// ---------------------------------------------------------------------------------
// small value helpers

// ConstInt returns the integer value of a constant SSA value.
func ConstInt(v ssa.Value) (int64, bool) {
	c, ok := v.(*ssa.Const)
	if !ok || c.Value == nil || c.Value.Kind() != constant.Int {
		return 0, false
	}
	i, ok := constant.Int64Val(c.Value)
	return i, ok
}

// ConstUint is ConstInt for constants that need the full unsigned 64-bit range.
func ConstUint(v ssa.Value) (uint64, bool) {
	c, ok := v.(*ssa.Const)
	if !ok || c.Value == nil || c.Value.Kind() != constant.Int {
		return 0, false
	}
	return constant.Uint64Val(c.Value)
}

// Unwrap strips conversions and ChangeType.
func Unwrap(v ssa.Value) ssa.Value {
	for {
		switch x := v.(type) {
		case *ssa.Convert:
			v = x.X
		case *ssa.ChangeType:
			v = x.X
		case *ssa.ChangeInterface:
			v = x.X
		case *ssa.MakeInterface:
			v = x.X
		default:
			return v
		}
	}
}

// AccessPath renders the address/value v as a symbolic path from parameters, free
// variables and globals: "o.Mutex", "db.lsm", "c.mu".  Unknown parts render as "?".
func AccessPath(v ssa.Value) string {
	switch x := v.(type) {
	case *ssa.Parameter:
		return x.Name()
	case *ssa.FreeVar:
		return x.Name()
	case *ssa.Global:
		return x.Name()
	case *ssa.FieldAddr:
		return AccessPath(x.X) + "." + fieldName(x.X.Type(), x.Field)
	case *ssa.Field:
		return AccessPath(x.X) + "." + fieldName(x.X.Type(), x.Field)
	case *ssa.UnOp:
		if x.Op == token.MUL {
			return AccessPath(x.X)
		}
	case *ssa.IndexAddr:
		return AccessPath(x.X) + "[]"
	case *ssa.Index:
		return AccessPath(x.X) + "[]"
	case *ssa.Alloc:
		if x.Comment != "" {
			return x.Comment
		}
	case *ssa.Phi:
		if x.Comment != "" {
			return x.Comment
		}
	case *ssa.Convert:
		return AccessPath(x.X)
	case *ssa.ChangeType:
		return AccessPath(x.X)
	case *ssa.MakeInterface:
		return AccessPath(x.X)
	case *ssa.Call:
		if o := CalleeObj(x.Common()); o != nil {
			return ObjName(o) + "()"
		}
	case *ssa.Extract:
		return AccessPath(x.Tuple)
	}
	return "?"
}

func fieldName(t types.Type, i int) string {
	if pt, ok := t.Underlying().(*types.Pointer); ok {
		t = pt.Elem()
	}
	if st, ok := t.Underlying().(*types.Struct); ok && i < st.NumFields() {
		return st.Field(i).Name()
	}
	return "?"
}

// FieldOf: if v is a FieldAddr/Field (possibly loaded), return owner type name and field name.
func FieldOf(v ssa.Value) (owner, field string, ok bool) {
	switch x := v.(type) {
	case *ssa.FieldAddr:
		return TypeName(x.X.Type()), fieldName(x.X.Type(), x.Field), true
	case *ssa.Field:
		return TypeName(x.X.Type()), fieldName(x.X.Type(), x.Field), true
	case *ssa.UnOp:
		if x.Op == token.MUL {
			return FieldOf(x.X)
		}
	}
	return "", "", false
}

// ---------------------------------------------------------------------------------
// loops known to execute at least once

// NonEmptyRangeLoops returns, for every `for range s` loop over a slice whose length
// was tested non-zero on a dominating edge (`if len(s) == 0 { return }`), the loop
// header and its exit block.  Such a loop's exit edge is infeasible before the body
// has run once.
func NonEmptyRangeLoops(fn *ssa.Function) map[*ssa.BasicBlock]*ssa.BasicBlock {
	out := map[*ssa.BasicBlock]*ssa.BasicBlock{}
	for _, h := range fn.Blocks {
		if h.Comment != "rangeindex.loop" || len(h.Succs) != 2 || len(h.Instrs) == 0 {
			continue
		}
		ifi, ok := h.Instrs[len(h.Instrs)-1].(*ssa.If)
		if !ok {
			continue
		}
		bo, ok := ifi.Cond.(*ssa.BinOp)
		if !ok || bo.Op != token.LSS {
			continue
		}
		lenCall, ok := bo.Y.(*ssa.Call)
		if !ok {
			continue
		}
		bi, ok := lenCall.Call.Value.(*ssa.Builtin)
		if !ok || bi.Name() != "len" {
			continue
		}
		s := lenCall.Call.Args[0]
		// dominating guard len(s) == 0 → other edge dominates h
		for _, b := range fn.Blocks {
			if len(b.Instrs) == 0 {
				continue
			}
			gi, ok := b.Instrs[len(b.Instrs)-1].(*ssa.If)
			if !ok {
				continue
			}
			gb, ok := gi.Cond.(*ssa.BinOp)
			if !ok {
				continue
			}
			gl, ok := gb.X.(*ssa.Call)
			if !ok {
				continue
			}
			gbi, ok := gl.Call.Value.(*ssa.Builtin)
			if !ok || gbi.Name() != "len" || gl.Call.Args[0] != s {
				continue
			}
			z, isC := ConstInt(gb.Y)
			if !isC || z != 0 {
				continue
			}
			var nonEmptyEdge *ssa.BasicBlock
			switch gb.Op {
			case token.EQL:
				nonEmptyEdge = b.Succs[1]
			case token.NEQ, token.GTR:
				nonEmptyEdge = b.Succs[0]
			}
			if nonEmptyEdge != nil && edgeDominates([2]*ssa.BasicBlock{b, nonEmptyEdge}, h) {
				out[h] = h.Succs[1]
			}
		}
	}
	return out
}

// MustPrecedeLA is MustPrecede that knows non-empty range loops: the exit edge of such
// a loop is not followed until its body has been entered on the current path.
func MustPrecedeLA(fn *ssa.Function, target ssa.Instruction, cuts []ssa.Instruction) (bool, int) {
	loops := NonEmptyRangeLoops(fn)
	if len(loops) == 0 {
		return MustPrecede(fn, target, cuts)
	}
	isCut := map[ssa.Instruction]bool{}
	for _, c := range cuts {
		isCut[c] = true
	}
	hdrIdx := map[*ssa.BasicBlock]uint{}
	for h := range loops {
		hdrIdx[h] = uint(len(hdrIdx))
	}
	type st struct {
		b    *ssa.BasicBlock
		mask uint64
	}
	seen := map[st]bool{}
	work := []st{{fn.Blocks[0], 0}}
	explored := 0
	for len(work) > 0 {
		s := work[len(work)-1]
		work = work[:len(work)-1]
		if seen[s] {
			continue
		}
		seen[s] = true
		explored++
		stopped := false
		for _, in := range s.b.Instrs {
			if in == target {
				return false, explored
			}
			if isCut[in] {
				stopped = true
				break
			}
		}
		if stopped {
			continue
		}
		for i, succ := range s.b.Succs {
			m := s.mask
			if exit, isHdr := loops[s.b]; isHdr {
				bit := uint64(1) << hdrIdx[s.b]
				if succ == exit && i == 1 && m&bit == 0 {
					continue // exit before first iteration: infeasible
				}
				if i == 0 {
					m |= bit
				}
			}
			work = append(work, st{succ, m})
		}
	}
	return true, explored
}

// ---------------------------------------------------------------------------------
// natural loops

// NaturalLoop returns the blocks of the natural loop with header h (h included): all
// blocks that reach a back edge p→h (h dominates p) without passing through h.
func NaturalLoop(h *ssa.BasicBlock) map[*ssa.BasicBlock]bool {
	loop := map[*ssa.BasicBlock]bool{h: true}
	var work []*ssa.BasicBlock
	for _, p := range h.Preds {
		if h.Dominates(p) {
			work = append(work, p)
		}
	}
	for len(work) > 0 {
		b := work[len(work)-1]
		work = work[:len(work)-1]
		if loop[b] {
			continue
		}
		loop[b] = true
		work = append(work, b.Preds...)
	}
	return loop
}

// RangeLoopHeaders returns the headers of `for … range s` loops over a slice for which
// match(s) holds (s is the operand of the len() the loop header compares with).
func RangeLoopHeaders(fn *ssa.Function, match func(s ssa.Value) bool) []*ssa.BasicBlock {
	var out []*ssa.BasicBlock
	for _, h := range fn.Blocks {
		if h.Comment != "rangeindex.loop" || len(h.Succs) != 2 || len(h.Instrs) == 0 {
			continue
		}
		ifi, ok := h.Instrs[len(h.Instrs)-1].(*ssa.If)
		if !ok {
			continue
		}
		bo, ok := ifi.Cond.(*ssa.BinOp)
		if !ok || bo.Op != token.LSS {
			continue
		}
		lenCall, ok := bo.Y.(*ssa.Call)
		if !ok {
			continue
		}
		bi, ok := lenCall.Call.Value.(*ssa.Builtin)
		if !ok || bi.Name() != "len" {
			continue
		}
		if match(lenCall.Call.Args[0]) {
			out = append(out, h)
		}
	}
	return out
}

// LoopEarlyExits lists the edges that leave the natural loop of h from a block other
// than h itself (break, return, goto out of the loop).  Edges into blocks that end in a
// panic are not counted.
func LoopEarlyExits(h *ssa.BasicBlock) [][2]*ssa.BasicBlock {
	loop := NaturalLoop(h)
	var out [][2]*ssa.BasicBlock
	for b := range loop {
		if b == h {
			continue
		}
		for _, s := range b.Succs {
			if loop[s] {
				continue
			}
			if len(s.Instrs) > 0 {
				if _, isPanic := s.Instrs[len(s.Instrs)-1].(*ssa.Panic); isPanic {
					continue
				}
			}
			out = append(out, [2]*ssa.BasicBlock{b, s})
		}
		if len(b.Succs) == 0 && len(b.Instrs) > 0 {
			if _, isRet := b.Instrs[len(b.Instrs)-1].(*ssa.Return); isRet {
				out = append(out, [2]*ssa.BasicBlock{b, nil})
			}
		}
	}
	sort.Slice(out, func(i, j int) bool { return out[i][0].Index < out[j][0].Index })
	return out
}

// ---------------------------------------------------------------------------------
// affine forms

// Affine is c + Σ coeff[atom]·atom over SSA values (integer arithmetic, wrap-around ignored).
type Affine struct {
	K     int64
	Terms map[ssa.Value]int64
}

// AffineOf normalises v through ADD, SUB, constants and integer conversions; every
// other value, and every value listed in atoms, is an atom.
func AffineOf(v ssa.Value, atoms ...ssa.Value) Affine {
	a := Affine{Terms: map[ssa.Value]int64{}}
	isAtom := map[ssa.Value]bool{}
	for _, x := range atoms {
		isAtom[x] = true
	}
	var add func(v ssa.Value, sign int64, depth int)
	add = func(v ssa.Value, sign int64, depth int) {
		v = Unwrap(v)
		if k, ok := ConstInt(v); ok {
			a.K += sign * k
			return
		}
		if bo, ok := v.(*ssa.BinOp); ok && depth < 16 && !isAtom[v] {
			switch bo.Op {
			case token.ADD:
				add(bo.X, sign, depth+1)
				add(bo.Y, sign, depth+1)
				return
			case token.SUB:
				add(bo.X, sign, depth+1)
				add(bo.Y, -sign, depth+1)
				return
			}
		}
		a.Terms[v] += sign
		if a.Terms[v] == 0 {
			delete(a.Terms, v)
		}
	}
	add(v, 1, 0)
	return a
}
