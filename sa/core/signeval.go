package core

import (
	"go/constant"
	"go/token"
	"sort"
	"strings"

	"golang.org/x/tools/go/ssa"
)

// Sign evaluation: a guard that touches its operands only through comparisons has
// finitely many behaviours — one per ordering of each compared pair.  SignEnv fixes
// the ordering (sign of X−Y) of every classified comparison ("atom") and decides which
// instructions stay reachable when branches on classified comparisons are resolved and
// every other branch is taken both ways.  Pure boolean helpers (static module callees)
// are evaluated the same way, so a guard keeps its verdict when it is moved into a
// helper function.  Nothing is executed: this is a reachability analysis over the CFG
// with an abstract (order-sign) interpretation of conditions.

// Tri is a three-valued boolean.
type Tri int

const (
	Unknown Tri = iota
	True
	False
)

func (t Tri) Not() Tri {
	switch t {
	case True:
		return False
	case False:
		return True
	}
	return Unknown
}

// SignEnv fixes the sign of every atom.
type SignEnv struct {
	// Classify maps a comparison to an atom name; flipped reports that the atom's
	// subject is the right-hand operand (the sign applies to Y−X).
	Classify func(bo *ssa.BinOp) (atom string, flipped bool, ok bool)
	Signs    map[string]int
	Depth    int // helper inlining bound
	Visited  int // blocks explored (evidence)

	// Role-based classification (optional, used when Classify is nil): Role names the
	// abstract quantity a value stands for ("" = none); the constant 0 has role "0".
	// A comparison between two values with roles a and b is the atom "a:b" (a < b
	// lexicographically; Signs holds the sign of a−b).  Roles of arguments are bound to
	// the parameters of evaluated helpers.
	Role  func(v ssa.Value) string
	bound map[ssa.Value]string

	// Bool (optional) fixes the value of boolean leaves (flags such as a direction field).
	Bool func(v ssa.Value) Tri

	// phi holds, for the path being explored, the values boolean phis took when their block
	// was entered (so a flag computed earlier – `before := a && b` – is still known later).
	phi map[*ssa.Phi]Tri
}

func (e *SignEnv) roleOf(v ssa.Value) string {
	v = Unwrap(v)
	if r, ok := e.bound[v]; ok {
		return r
	}
	if k, ok := ConstInt(v); ok && k == 0 {
		return "0"
	}
	if e.Role != nil {
		return e.Role(v)
	}
	return ""
}

func (e *SignEnv) classify(bo *ssa.BinOp) (string, bool, bool) {
	if e.Classify != nil {
		return e.Classify(bo)
	}
	// three-way comparison calls: bytes.Compare(a, b) <op> 0 is the comparison a <op> b
	if a, b, ok := compareCall(bo.X); ok {
		if k, isC := ConstInt(bo.Y); isC && k == 0 {
			return e.pairAtom(e.roleOf(a), e.roleOf(b), false)
		}
	}
	if a, b, ok := compareCall(bo.Y); ok {
		if k, isC := ConstInt(bo.X); isC && k == 0 {
			return e.pairAtom(e.roleOf(a), e.roleOf(b), true)
		}
	}
	return e.pairAtom(e.roleOf(bo.X), e.roleOf(bo.Y), false)
}

// pairAtom names the atom for the ordered pair (rx, ry); swap exchanges the operands first.
func (e *SignEnv) pairAtom(rx, ry string, swap bool) (string, bool, bool) {
	if swap {
		rx, ry = ry, rx
	}
	if rx == "" || ry == "" || rx == ry {
		return "", false, false
	}
	if rx < ry {
		return rx + ":" + ry, false, true
	}
	return ry + ":" + rx, true, true
}

// compareCall: v is bytes.Compare / strings.Compare / cmp.Compare (a, b).
func compareCall(v ssa.Value) (a, b ssa.Value, ok bool) {
	call, isCall := Unwrap(v).(*ssa.Call)
	if !isCall || len(call.Call.Args) != 2 {
		return nil, nil, false
	}
	f := StaticFn(call.Common())
	if f == nil || f.Pkg == nil {
		return nil, nil, false
	}
	switch f.Pkg.Pkg.Path() + "." + f.Name() {
	case "bytes.Compare", "strings.Compare", "cmp.Compare":
		return call.Call.Args[0], call.Call.Args[1], true
	}
	return nil, nil, false
}

// equalCall: v is bytes.Equal / slices.Equal / strings.EqualFold-free equality of (a, b).
func equalCall(v ssa.Value) (a, b ssa.Value, ok bool) {
	call, isCall := v.(*ssa.Call)
	if !isCall || len(call.Call.Args) != 2 {
		return nil, nil, false
	}
	f := StaticFn(call.Common())
	if f == nil || f.Pkg == nil {
		return nil, nil, false
	}
	if f.Pkg.Pkg.Path()+"."+f.Name() == "bytes.Equal" {
		return call.Call.Args[0], call.Call.Args[1], true
	}
	return nil, nil, false
}

func cmpHolds(op token.Token, s int) (bool, bool) {
	switch op {
	case token.EQL:
		return s == 0, true
	case token.NEQ:
		return s != 0, true
	case token.LSS:
		return s < 0, true
	case token.LEQ:
		return s <= 0, true
	case token.GTR:
		return s > 0, true
	case token.GEQ:
		return s >= 0, true
	}
	return false, false
}

// Hist is the path suffix by which a block was entered: Hist[0] is the predecessor,
// Hist[1] the predecessor's predecessor, ... (nil = unknown).  It resolves (nested) phis.
type Hist [4]*ssa.BasicBlock

func (h Hist) push(b *ssa.BasicBlock) Hist {
	return Hist{b, h[0], h[1], h[2]}
}

func (h Hist) pop() Hist {
	return Hist{h[1], h[2], h[3], nil}
}

// Eval evaluates a condition in block blk entered along hist.
func (e *SignEnv) Eval(v ssa.Value, blk *ssa.BasicBlock, hist Hist, depth int) Tri {
	if e.Bool != nil {
		if t := e.Bool(v); t != Unknown {
			return t
		}
	}
	switch x := v.(type) {
	case *ssa.Const:
		if x.Value != nil && x.Value.Kind() == constant.Bool {
			if constant.BoolVal(x.Value) {
				return True
			}
			return False
		}
	case *ssa.UnOp:
		if x.Op == token.NOT {
			return e.Eval(x.X, blk, hist, depth).Not()
		}
	case *ssa.BinOp:
		if atom, flipped, ok := e.classify(x); ok {
			s, known := e.Signs[atom]
			if !known {
				return Unknown
			}
			if flipped {
				s = -s
			}
			if h, ok := cmpHolds(x.Op, s); ok {
				if h {
					return True
				}
				return False
			}
		}
	case *ssa.Phi:
		if t, ok := e.phi[x]; ok && t != Unknown {
			return t
		}
		if blk != nil && hist[0] != nil && x.Block() == blk {
			for i, p := range blk.Preds {
				if p == hist[0] {
					return e.Eval(x.Edges[i], p, hist.pop(), depth)
				}
			}
		}
	case *ssa.Call:
		if a, b, ok := equalCall(x); ok && e.Classify == nil {
			if atom, _, ok := e.pairAtom(e.roleOf(a), e.roleOf(b), false); ok {
				if s, known := e.Signs[atom]; known {
					if s == 0 {
						return True
					}
					return False
				}
			}
			return Unknown
		}
		if depth <= 0 {
			return Unknown
		}
		f := StaticFn(x.Common())
		if f == nil || f.Blocks == nil || !InModule(f) {
			return Unknown
		}
		res := f.Signature.Results()
		if res.Len() != 1 || res.At(0).Type().String() != "bool" {
			return Unknown
		}
		if e.Classify == nil {
			if e.bound == nil {
				e.bound = map[ssa.Value]string{}
			}
			for i, a := range x.Call.Args {
				if i < len(f.Params) {
					if r := e.roleOf(a); r != "" {
						e.bound[f.Params[i]] = r
					} else {
						delete(e.bound, f.Params[i])
					}
				}
			}
		}
		return e.callResult(f, depth-1)
	}
	return Unknown
}

// callResult explores f and joins the values of its returns.
func (e *SignEnv) callResult(f *ssa.Function, depth int) Tri {
	var sawT, sawF, sawU bool
	e.explore(f, depth, func(b *ssa.BasicBlock, hist Hist) {
		if len(b.Instrs) == 0 {
			return
		}
		r, ok := b.Instrs[len(b.Instrs)-1].(*ssa.Return)
		if !ok || len(r.Results) != 1 {
			return
		}
		switch e.Eval(RetVal(r, 0), b, hist, depth) {
		case True:
			sawT = true
		case False:
			sawF = true
		default:
			sawU = true
		}
	})
	switch {
	case sawU || (sawT && sawF):
		return Unknown
	case sawT:
		return True
	case sawF:
		return False
	}
	return Unknown
}

// explore visits every (block, path suffix) pair reachable from the entry under the
// environment.
func (e *SignEnv) explore(f *ssa.Function, depth int, visit func(b *ssa.BasicBlock, hist Hist)) {
	type st struct {
		b   *ssa.BasicBlock
		h   Hist
		key string
	}
	type item struct {
		st
		phi map[*ssa.Phi]Tri
	}
	saved := e.phi
	defer func() { e.phi = saved }()
	seen := map[st]bool{}
	work := []item{{st{f.Blocks[0], Hist{}, ""}, nil}}
	steps := 0
	for len(work) > 0 {
		it := work[len(work)-1]
		work = work[:len(work)-1]
		if seen[it.st] {
			continue
		}
		seen[it.st] = true
		steps++
		if steps > 20000 {
			// give up path sensitivity on pathological functions: keep exploring without phi values
			it.phi, it.key = nil, ""
		}
		e.Visited++
		e.phi = it.phi
		visit(it.b, it.h)
		if len(it.b.Instrs) == 0 {
			continue
		}
		nh := it.h.push(it.b)
		var succs []*ssa.BasicBlock
		if ifi, ok := it.b.Instrs[len(it.b.Instrs)-1].(*ssa.If); ok {
			switch e.Eval(ifi.Cond, it.b, it.h, depth) {
			case True:
				succs = []*ssa.BasicBlock{it.b.Succs[0]}
			case False:
				succs = []*ssa.BasicBlock{it.b.Succs[1]}
			default:
				succs = it.b.Succs
			}
		} else {
			succs = it.b.Succs
		}
		for _, n := range succs {
			// boolean phis of n take the value of the edge from it.b
			np, nk := it.phi, it.key
			idx := -1
			for i, p := range n.Preds {
				if p == it.b {
					idx = i
				}
			}
			copied := false
			for _, in := range n.Instrs {
				ph, ok := in.(*ssa.Phi)
				if !ok {
					break
				}
				if idx < 0 || ph.Type().String() != "bool" {
					continue
				}
				e.phi = it.phi
				v := e.Eval(ph.Edges[idx], it.b, it.h, depth)
				if !copied {
					cp := make(map[*ssa.Phi]Tri, len(it.phi)+1)
					for k, t := range it.phi {
						cp[k] = t
					}
					np, copied = cp, true
				}
				np[ph] = v
			}
			if copied {
				nk = phiKey(np)
			}
			work = append(work, item{st{n, nh, nk}, np})
		}
	}
}

// phiKey is a canonical rendering of the known phi values (part of the exploration state).
func phiKey(m map[*ssa.Phi]Tri) string {
	names := make([]string, 0, len(m))
	for p, t := range m {
		if t != Unknown {
			names = append(names, p.Name()+"="+string(rune('0'+int(t))))
		}
	}
	sort.Strings(names)
	return strings.Join(names, "|")
}

// Reaches reports whether target can be reached from f's entry under the environment.
func (e *SignEnv) Reaches(f *ssa.Function, target ssa.Instruction) bool {
	hit := false
	tb := target.Block()
	e.explore(f, e.Depth, func(b *ssa.BasicBlock, _ Hist) {
		if b == tb {
			hit = true
		}
	})
	return hit
}

// ReturnValue joins the bool result #idx of every reachable return of f.
func (e *SignEnv) ReturnValue(f *ssa.Function, idx int) Tri {
	var sawT, sawF, sawU bool
	e.explore(f, e.Depth, func(b *ssa.BasicBlock, hist Hist) {
		if len(b.Instrs) == 0 {
			return
		}
		r, ok := b.Instrs[len(b.Instrs)-1].(*ssa.Return)
		if !ok || len(r.Results) <= idx {
			return
		}
		if f.Recover != nil && b == f.Recover {
			return
		}
		switch e.Eval(RetVal(r, idx), b, hist, e.Depth) {
		case True:
			sawT = true
		case False:
			sawF = true
		default:
			sawU = true
		}
	})
	switch {
	case sawU || (sawT && sawF):
		return Unknown
	case sawT:
		return True
	case sawF:
		return False
	}
	return Unknown
}

// SetSign records sign(a−b)=s under the atom naming used by role-based classification.
func SetSign(signs map[string]int, a, b string, s int) {
	if a < b {
		signs[a+":"+b] = s
	} else {
		signs[b+":"+a] = -s
	}
}

// ReachableReturns lists the returns of f reachable under the environment.
func (e *SignEnv) ReachableReturns(f *ssa.Function) []*ssa.Return {
	var out []*ssa.Return
	seen := map[*ssa.Return]bool{}
	e.explore(f, e.Depth, func(b *ssa.BasicBlock, _ Hist) {
		if len(b.Instrs) == 0 || (f.Recover != nil && b == f.Recover) {
			return
		}
		if r, ok := b.Instrs[len(b.Instrs)-1].(*ssa.Return); ok && !seen[r] {
			seen[r] = true
			out = append(out, r)
		}
	})
	return out
}
