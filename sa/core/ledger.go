package core

import (
	"encoding/json"
	"fmt"
	"go/token"
	"os"
	"path/filepath"
	"sort"
	"strings"
	"time"

	"golang.org/x/tools/go/ssa"
)

// Verdict of one obligation.
type Verdict string

const (
	OK        Verdict = "ok"
	Violation Verdict = "violation"
	Undecided Verdict = "undecided"
	Known     Verdict = "known-finding"
	Info      Verdict = "info"
)

// Obligation is one rule instance evaluated on one construct.
type Obligation struct {
	Property  string  `json:"property"`
	Rule      string  `json:"rule"`      // stable rule id, e.g. "K1.sync-before-ack"
	Construct string  `json:"construct"` // stable construct key (function + role), never a line
	Pos       string  `json:"pos"`       // file:line, informational
	Verdict   Verdict `json:"verdict"`
	Detail    string  `json:"detail"`
	Config    string  `json:"config,omitempty"`
	// Facts counts what the decision examined (paths, blocks, call edges, sites).
	Facts int `json:"facts"`
}

// Key is the identity used by known_findings.json.
func (o *Obligation) Key() string { return o.Property + "|" + o.Rule + "|" + o.Construct }

// Ctx is handed to every property function.
type Ctx struct {
	P        *Program
	Prop     string
	Tier     string
	Obls     []*Obligation
	FuncsSet map[*ssa.Function]bool // functions whose bodies were examined
	Errors   []string               // analysis errors (unresolved anchors, floors)
	Notes    []string               // not-decided notes for the evidence file
	Rules    map[string]string      // rule id -> description
}

func NewCtx(p *Program, prop, tier string) *Ctx {
	return &Ctx{P: p, Prop: prop, Tier: tier, FuncsSet: map[*ssa.Function]bool{}, Rules: map[string]string{}}
}

// Rule registers a rule description (shown in evidence).
func (c *Ctx) Rule(id, desc string) { c.Rules[id] = desc }

// Note records a statement about what is not decided.
func (c *Ctx) Note(s string) { c.Notes = append(c.Notes, s) }

// Errorf records an analysis error: the check fails (exit 1) because the rule could
// not be evaluated (vacuity guard), not because the code was shown wrong.
func (c *Ctx) Errorf(format string, a ...any) {
	msg := fmt.Sprintf(format, a...)
	for _, e := range c.Errors {
		if e == msg {
			return
		}
	}
	c.Errors = append(c.Errors, msg)
	// An unevaluable rule is reported like an undecided obligation: the check must
	// not pass vacuously, and the construct named in msg is the thing to look at.
	c.add("ANALYSIS", msg, token.NoPos, Undecided, 0, "rule could not be evaluated: %s", msg)
}

// Fn resolves an anchor function; a missing anchor is an analysis error.
func (c *Ctx) Fn(relPkg, name string) *ssa.Function {
	fn := c.P.LookupFunc(relPkg, name)
	if fn == nil {
		c.Errorf("UNRESOLVED-ANCHOR %s.%s", relPkg, name)
		return nil
	}
	c.Touch(fn)
	return fn
}

// FnOpt resolves an optional anchor (nil if absent, no error).
func (c *Ctx) FnOpt(relPkg, name string) *ssa.Function {
	fn := c.P.LookupFunc(relPkg, name)
	if fn != nil {
		c.Touch(fn)
	}
	return fn
}

// Touch records that fn (and its closures) were analysed.
func (c *Ctx) Touch(fn *ssa.Function) {
	if fn == nil || c.FuncsSet[fn] {
		return
	}
	c.FuncsSet[fn] = true
	for _, a := range fn.AnonFuncs {
		c.Touch(a)
	}
}

func (c *Ctx) add(rule, construct string, pos token.Pos, v Verdict, facts int, format string, a ...any) *Obligation {
	o := &Obligation{Property: c.Prop, Rule: rule, Construct: construct, Pos: c.P.Pos(pos), Verdict: v,
		Detail: fmt.Sprintf(format, a...), Config: c.P.Config, Facts: facts}
	c.Obls = append(c.Obls, o)
	return o
}

// Pass / Fail / Undec record an obligation.
func (c *Ctx) Pass(rule, construct string, pos token.Pos, facts int, format string, a ...any) {
	c.add(rule, construct, pos, OK, facts, format, a...)
}
func (c *Ctx) Fail(rule, construct string, pos token.Pos, facts int, format string, a ...any) {
	c.add(rule, construct, pos, Violation, facts, format, a...)
}
func (c *Ctx) Undec(rule, construct string, pos token.Pos, facts int, format string, a ...any) {
	c.add(rule, construct, pos, Undecided, facts, format, a...)
}
func (c *Ctx) Inform(rule, construct string, pos token.Pos, format string, a ...any) {
	c.add(rule, construct, pos, Info, 0, format, a...)
}

// Decide records ok or violation according to cond.
func (c *Ctx) Decide(cond bool, rule, construct string, pos token.Pos, facts int, okMsg, failMsg string) bool {
	if cond {
		c.Pass(rule, construct, pos, facts, "%s", okMsg)
	} else {
		c.Fail(rule, construct, pos, facts, "%s", failMsg)
	}
	return cond
}

// Floor asserts that a rule matched at least n instances.
func (c *Ctx) Floor(rule string, got, min int, what string) {
	if got < min {
		c.Errorf("INSTANCE-FLOOR rule=%s: %d %s found, at least %d were confirmed by hand", rule, got, what, min)
	}
}

// ---------------------------------------------------------------------------------
// known findings

type KnownFinding struct {
	Property  string `json:"property"`
	Rule      string `json:"rule"`
	Construct string `json:"construct"`
	What      string `json:"what"`
	Witness   string `json:"witness"`
	Ref       string `json:"ref,omitempty"`
}

type KnownFile struct {
	Comment  string         `json:"comment"`
	Findings []KnownFinding `json:"findings"`
	Fixed    []string       `json:"fixed"`
}

func LoadKnown(path string) (*KnownFile, error) {
	b, err := os.ReadFile(path)
	if err != nil {
		if os.IsNotExist(err) {
			return &KnownFile{}, nil
		}
		return nil, err
	}
	var k KnownFile
	if err := json.Unmarshal(b, &k); err != nil {
		return nil, err
	}
	return &k, nil
}

// ---------------------------------------------------------------------------------
// evidence + exit status

type Result struct {
	Exit       int
	Violations []*Obligation
}

// Finish applies known findings, writes evidence and replay files and prints the
// protocol lines.  verifDir is /verif.
func Finish(c *Ctx, verifDir string, known *KnownFile, seed int, t0 time.Time, extra map[string]any) int {
	kf := map[string]*KnownFinding{}
	for i := range known.Findings {
		f := &known.Findings[i]
		kf[f.Property+"|"+f.Rule+"|"+f.Construct] = f
	}
	sort.SliceStable(c.Obls, func(i, j int) bool {
		if c.Obls[i].Rule != c.Obls[j].Rule {
			return c.Obls[i].Rule < c.Obls[j].Rule
		}
		return c.Obls[i].Construct < c.Obls[j].Construct
	})
	var viol, undec, knownHits, ok, info, nontrivial int
	seenKnown := map[string]bool{}
	outDir := filepath.Join(verifDir, "out")
	os.MkdirAll(outDir, 0o755)
	// clear stale replay files of this property
	if olds, _ := filepath.Glob(filepath.Join(outDir, c.Prop+".*.json")); len(olds) > 0 {
		for _, f := range olds {
			os.Remove(f)
		}
	}
	distinct := map[string]bool{}
	n := 0
	{ // drop exact duplicates (same key and verdict), keep the first
		seenKV := map[string]bool{}
		var keep []*Obligation
		for _, o := range c.Obls {
			kv := o.Key() + "|" + string(o.Verdict)
			if seenKV[kv] && o.Verdict != Info {
				continue
			}
			seenKV[kv] = true
			keep = append(keep, o)
		}
		c.Obls = keep
	}
	for _, o := range c.Obls {
		if o.Verdict == Info {
			info++
			continue
		}
		if !distinct[o.Key()] {
			distinct[o.Key()] = true
			if o.Facts > 0 {
				nontrivial++
			}
		}
		switch o.Verdict {
		case OK:
			ok++
		case Violation, Undecided:
			if f, hit := kf[o.Key()]; hit && o.Verdict == Violation {
				o.Verdict = Known
				knownHits++
				if !seenKnown[o.Key()] {
					seenKnown[o.Key()] = true
					fmt.Printf("KNOWN-FINDING: property=%s %s [%s @ %s] %s\n", c.Prop, f.What, o.Rule, o.Construct, o.Pos)
				}
				continue
			}
			n++
			if o.Verdict == Violation {
				viol++
			} else {
				undec++
			}
			rp := filepath.Join(outDir, fmt.Sprintf("%s.%d.json", c.Prop, n))
			b, _ := json.MarshalIndent(o, "", " ")
			os.WriteFile(rp, b, 0o644)
			fmt.Printf("%s rule=%s construct=%s at %s: %s\n", strings.ToUpper(string(o.Verdict)), o.Rule, o.Construct, o.Pos, o.Detail)
			fmt.Printf("VIOLATION property=%s replay=%s\n", c.Prop, rp)
		}
	}
	for _, e := range c.Errors {
		fmt.Printf("ANALYSIS-ERROR property=%s %s\n", c.Prop, e)
	}
	// evidence
	samples := []any{}
	for i, o := range c.Obls {
		if i < 400 || o.Verdict != OK {
			samples = append(samples, o)
		}
	}
	var ruleList []string
	for id, d := range c.Rules {
		ruleList = append(ruleList, id+": "+d)
	}
	sort.Strings(ruleList)
	var fnNames []string
	for fn := range c.FuncsSet {
		fnNames = append(fnNames, FuncName(fn))
	}
	sort.Strings(fnNames)
	expl := "Static analysis of /repo's current source (type-checked AST + go/ssa, no execution). Decides only the structural clauses named by the rules below, each a necessary condition of the property; it does not decide the behavioural statement over all inputs/schedules/crash points. Rules: " + strings.Join(ruleList, " || ")
	if len(c.Notes) > 0 {
		expl += " || NOT DECIDED: " + strings.Join(c.Notes, "; ")
	}
	cov := map[string]any{
		"explanation":         expl,
		"obligations":         len(distinct),
		"discharged":          ok,
		"known_findings":      knownHits,
		"undecided":           undec,
		"evaluations":         len(c.Obls) - info,
		"distinct_nontrivial": nontrivial,
		"rule":                "one obligation per (rule, construct); an obligation is non-trivial when its decision examined at least one path, call edge, data-flow fact or site (facts>0); distinct by rule+construct key",
		"samples":             samples,
		"functions_analysed":  len(fnNames),
		"functions":           fnNames,
		"packages":            len(c.P.Pkgs),
		"ssa_functions_total": len(c.P.ModFuncs),
		"build_config":        c.P.Config,
		"analysis_errors":     c.Errors,
		"info":                info,
		"exhaustive":          false,
		"checker_cmd":         "bin/nokvsa check " + c.Prop,
		"trusted_base":        []string{"go/types", "go/ssa + dominators (x/tools v0.29.0)", "rule tables in /verif/sa/props (frozen by reading)"},
	}
	for k, v := range extra {
		cov[k] = v
	}
	ev := map[string]any{
		"property_id": c.Prop,
		"tier":        c.Tier,
		"seed":        seed,
		"level":       "other",
		"coverage":    cov,
		"assumptions": []string{
			"library contracts (sync, atomic, bufio, os, flock, rename, etcd/raft) are assumed, not analysed",
			"path rules are path-insensitive beyond dominating branch edges",
			"reflection/unsafe/linkname are not followed (none on anchored paths)",
			"rule tables are instances confirmed by reading this tree; a renamed anchor fails as ANALYSIS-ERROR",
		},
		"wall_s":     time.Since(t0).Seconds(),
		"violations": viol + undec,
	}
	os.MkdirAll(filepath.Join(verifDir, "evidence"), 0o755)
	b, _ := json.MarshalIndent(ev, "", " ")
	if err := os.WriteFile(filepath.Join(verifDir, "evidence", c.Prop+".json"), b, 0o644); err != nil {
		fmt.Printf("ANALYSIS-ERROR property=%s cannot write evidence: %v\n", c.Prop, err)
		return 2
	}
	fmt.Printf("SUMMARY property=%s tier=%s config=%s obligations=%d ok=%d known=%d violations=%d undecided=%d info=%d errors=%d functions=%d wall=%.1fs\n",
		c.Prop, c.Tier, c.P.Config, len(distinct), ok, knownHits, viol, undec, info, len(c.Errors), len(fnNames), time.Since(t0).Seconds())
	if viol+undec > 0 {
		return 1
	}
	if len(c.Errors) > 0 {
		return 2
	}
	return 0
}
