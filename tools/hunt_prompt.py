#!/usr/bin/env python3
"""Prints the sub-agent prompt for hunting genuine defects: hunt_prompt.py <Cxx> <dir>"""
import json, sys
pid, d = sys.argv[1], sys.argv[2]
p = [json.loads(l) for l in open('/verif/properties.jsonl') if json.loads(l)['id'] == pid][0]
mech = "\n".join(f"  - {m['name']}: {m['where']}" for m in p['anchors']['mechanism'])
print(f"""You are working in a scratch git worktree of the Go repository feichai0017/NoKV at {d} (an LSM-tree KV engine with WAL, manifest, value-log separation, MVCC transactions, multi-Raft regions, Percolator 2PC, a PD service and a Redis gateway). There is no network. For every shell command use:
  export PATH=/opt/veriftools/go1.26.8/bin:$PATH GOTOOLCHAIN=local GOFLAGS=-mod=mod GOPROXY=off; unset GOWORK
Work ONLY inside {d}. Do not look at or use anything under /verif or /repo. NEVER run pkill/killall or kill processes you did not start by pid. Do not modify non-test source files.

TASK: find GENUINE DEFECTS in the UNMODIFIED code: inputs, operation sequences, interleavings, injected I/O faults or crash points for which the property below does NOT hold on this tree. The existing tests pass, so look where they do not: boundaries (block/table/segment/window boundaries, empty and maximal values, equal versions/timestamps, keys that are prefixes of one another or contain 0x00/0xff bytes), rarely taken branches and error paths, second and third invocations (re-seek, re-open, re-run of background work), combinations of options, helper functions whose contract the caller assumes but the callee does not provide (compare with how the well-known ancestors of this code - Badger, TinyKV, etcd/raft examples - do the same thing), arithmetic on unsigned values, off-by-one in binary searches and ranges. Read the code of the mechanism carefully first, form concrete hypotheses, then try each with a small Go test (package-internal tests are fine; vfs.FaultFS injects I/O faults; copying the data directory simulates a crash).

PROPERTY {pid} - {p['title']}
{p['statement']}
(Quantifier: {p['quantifier']['text']})
Mechanism (where it is implemented):
{mech}

Already known, do NOT report these again: (1) when the same user key with the same version sits in two L0 tables or two ingest-buffer tables, the older table's value wins (plain, non-transactional writes all share one version); (2) the ART memtable orders keys differently from the skiplist for keys that are prefixes of each other; (3) streaming decoders allocate a length declared in a header before reading the bytes; (4) the WAL watchdog can remove a segment whose memtable is not flushed yet; (5) value-log GC can overwrite a concurrent plain (non-transactional) overwrite, and valueLog.rewrite fails its own post-check after re-inserting; (6) a multi-entry request can be recovered partially after a crash because every entry is its own WAL record; (7) recovery deletes a value-log segment that the manifest has not learnt about yet although WAL records point into it; (8) the WAL's own size-triggered rotation can collide with the id of the next memtable's segment when MemTableSize > 64 MiB; (9) a reverse TxnIterator returns the oldest visible version of each key; (10) keys near 64 KiB overflow the table block header (table layer only); (11) a write or transaction whose WAL fsync fails after it was applied returns an error but stays visible; (12) manifest.Open (without a preceding manifest.Verify) refuses a manifest whose last record is torn.

For EACH defect you can actually demonstrate (aim for 1-3 solid ones rather than many vague ones):
  - write a deterministic Go test file {d}/HUNT/<n>_test.go.txt (plus, in its header comment, the path it must be copied to and the `go test` command) that FAILS on the unmodified tree because the property is violated, and explain in {d}/HUNT/README.md: the faulty function and line, why it is wrong, the minimal scenario, what a correct fix would be (do not apply it), and paste the failing output. The test must fail because of the product code, not because of a wrong expectation - double-check the expectation against the property statement.
  - If a hypothesis turns out to be wrong, say so briefly in README.md under "checked and fine" (that is useful too).
Leave the worktree without your test files in the package directories (only under HUNT/). Your final answer: one paragraph per demonstrated defect (function, scenario, observed vs expected), then the list of hypotheses checked and found fine.""")
