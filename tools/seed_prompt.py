#!/usr/bin/env python3
"""Prints the sub-agent prompt for a seeded-defect request: seed_prompt.py <Cxx> <variant> <dir>"""
import json, sys
pid, variant, d = sys.argv[1], sys.argv[2], sys.argv[3]
p = [json.loads(l) for l in open('/verif/properties.jsonl') if json.loads(l)['id'] == pid][0]
hints = {
 "a": "Prefer a change inside the mechanism that normally guarantees the property (ordering of two steps, a dropped or weakened guard, an off-by-one in a comparison, a missing case).",
 "b": "Prefer a change that needs TWO things to go wrong together or a multi-step history (e.g. a specific interleaving, a fault or crash at one particular point, a rarely taken error path, an unusual but legal input), and that lives in a different function than the most obvious one.",
}
print(f"""You are working in a scratch git worktree of the Go repository feichai0017/NoKV at {d} (an LSM-tree KV engine with WAL, manifest, value-log separation, MVCC transactions, multi-Raft regions, Percolator 2PC, a PD service and a Redis gateway). There is no network. For every shell command use:
  export PATH=/opt/veriftools/go1.26.8/bin:$PATH GOTOOLCHAIN=local GOFLAGS=-mod=mod GOPROXY=off; unset GOWORK
Work ONLY inside {d}. Do not look at or use anything under /verif or /repo.

TASK: produce one realistic seeded defect for the property below: a small change to non-test .go source files that BREAKS the property while the repository still compiles and the ENTIRE existing test suite still passes (`go build ./... && go test -vet=off -count=1 ./...`, about 1-2 minutes). The defect must need something specific to manifest (a particular interleaving, a crash or fault at a particular point, a multi-step sequence of operations, an unusual input, or two cooperating sites that each look fine alone) - not something ordinary use exposes at once. {hints[variant]} Make it look like a plausible refactoring slip or optimisation, not sabotage; do not add comments that reveal it.

PROPERTY {pid} - {p['title']}
{p['statement']}
(Quantifier: {p['quantifier']['text']})

ALSO write a demonstration: a Go test file (name it zz_seed_demo_test.go, in the appropriate package directory) or a small program that FAILS with your change applied and PASSES on the unmodified tree. It may use package internals, fault-injecting file systems (vfs.FaultFS exists), goroutines, copies of the data directory to simulate a crash, etc. It must be deterministic or retry enough to fail reliably (>= 9 of 10 runs) with the change.

DELIVERABLES, in {d}/SEED/ :
  patch.diff  - `git diff` of the non-test source change only (create it BEFORE adding the demo file; it must apply with `git apply` on the unmodified tree)
  demo/       - the demonstration file(s), plus demo/where.txt saying the path (relative to the repo root) each file must be copied to and the exact command to run it
  notes.md    - which file/function you changed and why that breaks the property; what is needed to manifest; and the exact commands you ran with their outcomes for: (1) build, (2) full test suite WITH the change (must pass - paste the tail), (3) demo WITH the change (must fail - paste the failure), (4) demo WITHOUT the change (`git stash` or `git apply -R`; must pass).
Leave the worktree with the change applied and the demo in place. Your final answer should be a 5-line summary (changed function, manifestation requirements, the four outcomes).""")
