#!/usr/bin/env python3
"""For every stored seed: apply it to a scratch worktree of /repo's HEAD (never to /repo itself),
run all quick checks of a private copy of the checker binary against that tree with a private
verif root (so /verif/evidence is not touched), record which properties report it
(meta.json detect_with).  Usage: seed_detect.py [name ...]"""
import json, glob, os, subprocess, sys, re, shutil, tempfile
V='/verif'
names=sys.argv[1:] or [os.path.basename(os.path.dirname(f)) for f in sorted(glob.glob(V+'/seeded/*/meta.json'))]
env=dict(os.environ, PATH='/opt/veriftools/go1.26.8/bin:'+os.environ['PATH'], GOTOOLCHAIN='local', GOPROXY='off', GOFLAGS='-mod=mod')
env.pop('GOWORK',None)
subprocess.run([V+'/check.sh','C22','quick'],capture_output=True)  # makes sure the binary is built
work=tempfile.mkdtemp(prefix='seed_detect_')
binp=work+'/nokvsa'; shutil.copy(V+'/bin/nokvsa',binp)
vroot=work+'/verif'; os.makedirs(vroot+'/evidence'); os.makedirs(vroot+'/out')
for f in ['known_findings.json','properties.jsonl']:
    shutil.copy(V+'/'+f,vroot+'/'+f)
wt=work+'/wt'
subprocess.run(['git','-C','/repo','worktree','add','-q','--detach',wt,'HEAD'],check=True)
try:
    for n in names:
        mf=f'{V}/seeded/{n}/meta.json'; m=json.load(open(mf))
        r=subprocess.run(['git','-C',wt,'apply',f'{V}/seeded/{n}/patch.diff'],capture_output=True,text=True)
        if r.returncode!=0:
            print(n,'PATCH DOES NOT APPLY',r.stderr.strip()[:100],flush=True)
            m['applies_to_head']=False; m['detect_with']=[]
            json.dump(m,open(mf,'w'),indent=1,ensure_ascii=False); continue
        try:
            out=subprocess.run([binp,'check','all','--tier','quick','--repo',wt,'--verif',vroot],capture_output=True,text=True,timeout=1800,env=env).stdout
        finally:
            subprocess.run(['git','-C',wt,'checkout','--','.']); subprocess.run(['git','-C',wt,'clean','-fdq'])
        props=sorted(set(re.findall(r'^VIOLATION property=(C\d+)',out,re.M)))
        if 'type-check/load errors' in out:
            # the change applies but no longer compiles on the current tree (a later fix uses
            # what it removes): it is not a "compiles and passes the tests" change any more
            print(n,'APPLIES BUT DOES NOT BUILD',flush=True)
            m['applies_to_head']=False; m['detect_with']=[]
            json.dump(m,open(mf,'w'),indent=1,ensure_ascii=False); continue
        m['detect_with']=props
        m['applies_to_head']=True
        json.dump(m,open(mf,'w'),indent=1,ensure_ascii=False)
        print(n,props,flush=True)
finally:
    subprocess.run(['git','-C','/repo','worktree','remove','--force',wt])
    shutil.rmtree(work,ignore_errors=True)
