#!/usr/bin/env python3
"""For every stored seed: apply to /repo, run all quick checks, record which properties report it
(meta.json detect_with), revert. Usage: seed_detect.py [name ...]"""
import json, glob, os, subprocess, sys, re
V='/verif'
names=sys.argv[1:] or [os.path.basename(os.path.dirname(f)) for f in sorted(glob.glob(V+'/seeded/*/meta.json'))]
assert subprocess.run(['git','-C','/repo','status','--porcelain'],capture_output=True,text=True).stdout.strip()=='', 'repo not clean'
for n in names:
    mf=f'{V}/seeded/{n}/meta.json'; m=json.load(open(mf))
    r=subprocess.run(['git','-C','/repo','apply',f'{V}/seeded/{n}/patch.diff'],capture_output=True,text=True)
    if r.returncode!=0:
        print(n,'PATCH DOES NOT APPLY',r.stderr.strip()[:100]); continue
    try:
        out=subprocess.run([V+'/check.sh','all','quick'],capture_output=True,text=True,timeout=900).stdout
    finally:
        subprocess.run(['git','-C','/repo','checkout','--','.'])
    props=sorted(set(re.findall(r'^VIOLATION property=(C\d+)',out,re.M)))
    m['detect_with']=props
    json.dump(m,open(mf,'w'),indent=1)
    print(n,props,flush=True)
