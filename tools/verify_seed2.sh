#!/bin/bash
# verify_seed2.sh <name> <demo-src> <demo-dst-rel> <go test args...>
# fresh worktree of /repo HEAD: patch applies, builds, full suite passes with it (all
# packages report ok), demo fails with it and passes without.
set -u
export PATH=/opt/veriftools/go1.26.8/bin:$PATH GOTOOLCHAIN=local GOFLAGS=-mod=mod GOPROXY=off; unset GOWORK
NAME="$1"; DEMO="$2"; DST="$3"; shift 3
SRC=/tmp/seed/$NAME/SEED
WT=/tmp/verify_$NAME
git -C /repo worktree add -q "$WT" HEAD || exit 2
cd "$WT"
git apply "$SRC/patch.diff" && echo "APPLY ok" || { echo "APPLY FAILED"; }
go build ./... && echo "BUILD ok" || echo "BUILD FAILED"
suite() {
  go test -vet=off -count=1 ./... > /tmp/verify_$NAME.full.log 2>&1
  NOK=$(grep -c "^ok" /tmp/verify_$NAME.full.log)
  if grep -q "^FAIL\|^--- FAIL" /tmp/verify_$NAME.full.log; then
    echo "SUITE FAILED:"; grep "^FAIL\|^--- FAIL" /tmp/verify_$NAME.full.log | head; return 1
  elif [ "$NOK" -lt 36 ]; then echo "SUITE INCOMPLETE ok=$NOK"; return 1
  else echo "SUITE ok ($NOK packages ok)"; return 0; fi
}
suite || { echo "retrying suite once (load-related flakes)"; suite; }
cp "$DEMO" "$WT/$DST"
echo "--- demo WITH change:"; go test -vet=off -count=1 "$@" 2>&1 | tail -6
git apply -R "$SRC/patch.diff"
echo "--- demo WITHOUT change:"; go test -vet=off -count=1 "$@" 2>&1 | tail -4
cd /; git -C /repo worktree remove --force "$WT"
