#!/bin/bash
set -e
P=$1; D=/tmp/refac/$P
mkdir -p /tmp/refac
git -C /repo worktree add -q --detach "$D" HEAD
mkdir -p $D/REFAC
python3 /verif/tools/refactor_prompt.py $P $D > $D/TASK.md
echo prepared $D
