#!/usr/bin/env python3
"""Prints the sub-agent prompt for behaviour-preserving refactorings: refactor_prompt.py <Cxx> <dir>"""
import json, sys
pid, d = sys.argv[1], sys.argv[2]
p = [json.loads(l) for l in open('/verif/properties.jsonl') if json.loads(l)['id'] == pid][0]
mech = "\n".join(f"  - {m['name']}: {m['where']}" for m in p['anchors']['mechanism'])
print(f"""You are working in a scratch git worktree of the Go repository feichai0017/NoKV at {d} (an LSM-tree KV engine with WAL, manifest, value-log separation, MVCC transactions, multi-Raft regions, Percolator 2PC, a PD service and a Redis gateway). There is no network. For every shell command use:
  export PATH=/opt/veriftools/go1.26.8/bin:$PATH GOTOOLCHAIN=local GOFLAGS=-mod=mod GOPROXY=off; unset GOWORK
Work ONLY inside {d}. Do not look at or use anything under /verif or /repo. NEVER run pkill/killall or kill processes you did not start by pid.

TASK: produce SIX independent, realistic, BEHAVIOUR-PRESERVING refactorings of the code that implements the property below - the kind of clean-up a maintainer would merge: the observable behaviour (results, errors, ordering of durable effects, locking, what is persisted when) must be exactly the same on every input, schedule and crash point, so the property still holds afterwards. Each refactoring is a separate patch against the UNMODIFIED tree (not stacked) and should touch the functions named under "mechanism" (or their direct helpers/callers), not unrelated code. Use a different kind of edit for each, for example:
  1. extract part of a function into a new unexported helper (or a method), passing what it needs;
  2. inline a small helper into its caller, or merge two adjacent loops/branches that do the same thing;
  3. restructure control flow without changing it: if/else <-> early return, switch <-> if-chain, invert a condition and swap the branches, index loop <-> range loop, named result <-> explicit returns, defer <-> explicit calls on every exit;
  4. replace a standard-library idiom by an equivalent one (sort.Slice <-> slices.SortFunc, bytes.Compare(a,b) < 0 <-> another equivalent spelling, fmt.Errorf wrapping with %w, errors.Is instead of ==, min/max builtins, append patterns), rename locals/parameters, introduce or remove a temporary variable;
  5. add harmless instrumentation: a metrics counter, a debug log line, an extra nil/argument check that only turns a would-be panic into the same error, a comment; or reorder statements that are truly independent;
  6. your choice: anything else a reviewer would accept as "no functional change" (splitting a long function in two, moving a function to another file of the same package, changing a parameter from value to pointer with all callers, ...).
Do NOT weaken, remove or reorder anything the property depends on (sync/flush before acknowledge, checks before writes, lock scopes, error propagation, bounds checks). If you are unsure whether an edit preserves behaviour, choose a different edit.

PROPERTY {pid} - {p['title']}
{p['statement']}
Mechanism (where it is implemented):
{mech}

For EACH refactoring k = 1..6:
  - start from the unmodified tree (`git checkout -- . && git clean -fdq -e REFAC`),
  - make the edit, run `gofmt -l .` (must print nothing for your files), `go build ./...` and the tests of every package you touched (`go test -vet=off -count=1 ./<pkg>/`); for two of the six also run the whole suite `go test -vet=off -count=1 ./...` (about 1-2 minutes; a few timing-sensitive tests in hotring, cmd/nokv-redis, raftstore/server, raftstore/transport, raftstore/store can fail under load for unrelated reasons - re-run that package alone),
  - save it as {d}/REFAC/r<k>.diff with `git diff > REFAC/r<k>.diff` (must apply with `git apply` on the unmodified tree) and add a line to {d}/REFAC/README.md: r<k>: kind of edit, functions touched, why behaviour is unchanged, which tests you ran and that they passed.
Finish with the tree restored to unmodified (`git checkout -- .`), keeping the REFAC directory. Your final answer: the six one-line descriptions.""")
