#!/usr/bin/env python3
"""Regenerates /verif/MANIFEST.json from tools/claims.json (claimed properties) and properties.jsonl."""
import json, os
V = os.path.dirname(os.path.dirname(os.path.abspath(__file__)))
props = [json.loads(l) for l in open(os.path.join(V, 'properties.jsonl'))]
claims = json.load(open(os.path.join(V, 'tools', 'claims.json')))
ENV = "cd /verif && "
checks = []
na = []
for p in props:
    pid = p['id']
    cl = claims.get(pid)
    if not cl or cl.get('na'):
        na.append({"property_id": pid, "reason": (cl or {}).get('na', 'check not built yet (framework under construction)')})
        continue
    checks.append({
        "property_id": pid,
        "quick_cmd": ENV + f"./check.sh {pid} quick",
        "thorough_cmd": ENV + f"./check.sh {pid} thorough",
        "evidence_file": f"/verif/evidence/{pid}.json",
        "replay_cmd_template": ENV + f"./check.sh {pid} quick  # re-evaluates all obligations of {pid}; the obligation in {{path}} is identified by its rule+construct key",
        "engine": "nokvsa",
        "level_claimed": {
            "category": "other",
            "text": "Static analysis (no execution). Decides, on every path / caller / site of /repo's current source, the structural clause(s): " + cl['decides'] + " These are necessary conditions of the property; the behavioural statement over all inputs, schedules, histories or crash points is NOT decided.",
            "design_ref": "DESIGN.md §5 " + pid,
        },
        "level_note": "Trusted: go/types, go/ssa and its dominator tree (x/tools v0.29.0, vendored), the rule tables in /verif/sa/props (instances confirmed by reading this tree), library contracts (sync, atomic, bufio, os, flock, rename, etcd/raft). Path rules are path-insensitive beyond dominating branch edges. " + cl.get('note', ''),
        "technique": cl['technique'],
    })
m = {
    "version": 1,
    "setup_cmd": "cd /verif/sa && PATH=/opt/veriftools/go1.26.8/bin:$PATH GOTOOLCHAIN=local GOPROXY=off GOFLAGS=-mod=vendor go build -o /verif/bin/nokvsa ./cmd/nokvsa",
    "hooks": {
        "guard": "verif",
        "enable": "none needed: the checker reads /repo's source (go/packages + go/ssa); nothing in /repo is built with a tag",
        "baseline_off_cmd": "cd /repo && go test -vet=off -count=1 -timeout 25m ./...",
        "source_commits": [],
        "add_only": True,
    },
    "engines": [{"name": "nokvsa", "path": "/verif/sa", "serves_properties": [c['property_id'] for c in checks],
                 "kind_free_text": "repository-specific static analyzer: type-checked AST + go/ssa dominance, def-use, lockset, who-may-call (VTA), taint and enum-exhaustiveness rules with frozen, hand-confirmed instance tables"}],
    "checks": checks,
    "notes": "Every check is `check.sh <id> <tier>`: builds /verif/sa offline if needed (vendored x/tools v0.29.0, go1.26.8) and analyses /repo's current working tree. Exit 0 = all obligations discharged (known findings listed in known_findings.json print KNOWN-FINDING lines); exit 1 + VIOLATION line otherwise. thorough adds linux/arm64, darwin/amd64, darwin/arm64 build configurations.",
    "not_applicable": na,
}
json.dump(m, open(os.path.join(V, 'MANIFEST.json'), 'w'), indent=1)
print("checks:", len(checks), "n/a:", len(na))
