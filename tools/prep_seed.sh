#!/bin/bash
# prep_seed.sh <Cxx> <variant>: scratch worktree /tmp/seed/<Cxx><variant> of /repo HEAD with TASK.md
set -e
P=$1; V=$2; D=/tmp/seed/$P$V
git -C /repo worktree add -q --detach "$D" HEAD
mkdir -p $D/SEED/demo
python3 /verif/tools/seed_prompt.py $P $V $D > $D/TASK.md
cat >> $D/TASK.md <<'EOT'

PRACTICAL NOTES: the machine is shared and may be heavily loaded; a few timing-sensitive tests (hotring, cmd/nokv-redis TestMainSignalBranch and TestEmbeddedBackendTTLExpire, raftstore/server, raftstore/transport, raftstore/store, an lsm timeout) can fail under load for reasons unrelated to your change - re-run such a package alone before concluding. Keep SEED/demo copies of *_test.go files named with a .txt suffix (e.g. zz_seed_demo_test.go.txt) so that `go test ./...` does not try to build them. Name the demo's test functions TestSeedDemo... . NEVER run pkill/killall or kill processes you did not start by pid: other jobs run `go test` on this machine. Stay away from cosmetically obvious sabotage; do not touch test files of the repository.
EOT
echo prepared $D
