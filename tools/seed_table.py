#!/usr/bin/env python3
"""Rewrites the table between the SEED-TABLE markers in DESIGN.md from seeded/*/meta.json."""
import json, glob, os, re
V = os.path.dirname(os.path.dirname(os.path.abspath(__file__)))
rows = []
for f in sorted(glob.glob(os.path.join(V, 'seeded', '*', 'meta.json'))):
    m = json.load(open(f))
    if m.get('status') == 'regression-of-fix':
        continue
    cb = m['caught_by']
    if cb.lower().startswith('from the start') or cb.lower().startswith('caught from') or cb.lower().startswith('c11 k2') or cb.lower().startswith('caught by'):
        first = 'caught'
    elif 'missed by every check and left' in cb.lower() or m.get('status') == 'confirmed-missed':
        first = 'missed (left)'
    elif 'initially missed' in cb.lower():
        first = 'missed, rule added'
    elif 'initially caught' in cb.lower():
        first = 'caught for the wrong reason, rule repaired'
    else:
        first = 'caught'
    esc = lambda s: s.replace('|', '\\|').replace('\n', ' ')
    rows.append(f"| {m['name']} | {m['breaks_property']} | {esc(m['needs_to_manifest'])} | {first} | {esc(cb)} |")
table = "| seed | property | what it takes to manifest | first run | which check reports it now |\n|---|---|---|---|---|\n" + "\n".join(rows)
p = os.path.join(V, 'DESIGN.md')
s = open(p).read()
a, b = '<!-- SEED-TABLE:BEGIN -->', '<!-- SEED-TABLE:END -->'
assert a in s and b in s
s = s[:s.index(a) + len(a)] + "\n" + table + "\n" + s[s.index(b):]
open(p, 'w').write(s)
from collections import Counter
print(Counter(r.split('|')[4].strip() for r in rows))
