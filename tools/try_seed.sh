#!/bin/bash
# try_seed.sh <patch.diff> <Cxx|all> : apply a seeded change to /repo, run the check(s), revert.
set -u
PATCH="$1"; ID="${2:-all}"
cd /repo || exit 2
if [ -n "$(git status --porcelain)" ]; then echo "repo not clean"; exit 2; fi
git apply "$PATCH" || { echo "patch does not apply"; exit 2; }
cd /verif && timeout 600 ./check.sh "$ID" quick 2>&1 | grep -v "^KNOWN-FINDING" | grep -E "^VIOLATION rule|^UNDECIDED|^SUMMARY.*violations=[1-9]|^SUMMARY.*undecided=[1-9]|ANALYSIS-ERROR" | cut -c1-420
git -C /repo checkout -- . ; git -C /repo clean -fdq; git -C /repo status --porcelain | head -3
