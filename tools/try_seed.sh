#!/bin/bash
# try_seed.sh <patch.diff> <Cxx|all> : apply a change to a scratch worktree of /repo's HEAD (never to
# /repo itself), run the check(s) of the current checker against it with a private verif root (so
# /verif/evidence is not rewritten), remove the worktree.  Prints the reports only.
set -u
PATCH="$(readlink -f "$1")"; ID="${2:-all}"
export PATH=/opt/veriftools/go1.26.8/bin:$PATH GOTOOLCHAIN=local GOPROXY=off GOFLAGS=-mod=mod; unset GOWORK
/verif/check.sh C22 quick >/dev/null 2>&1   # builds the checker if needed
W=$(mktemp -d /tmp/try_seed_XXXXXX)
cleanup() { git -C /repo worktree remove --force "$W/wt" 2>/dev/null; rm -rf "$W"; }
trap cleanup EXIT
git -C /repo worktree add -q --detach "$W/wt" HEAD || exit 2
# uncommitted changes of /repo's working tree are part of "the current tree"
(cd /repo && git diff) | (cd "$W/wt" && git apply --allow-empty 2>/dev/null)
(cd "$W/wt" && git apply "$PATCH") || { echo "patch does not apply"; exit 2; }
mkdir -p "$W/verif/evidence" "$W/verif/out"; cp /verif/known_findings.json /verif/properties.jsonl "$W/verif/"
cp /verif/bin/nokvsa "$W/nokvsa"
timeout 900 "$W/nokvsa" check "$ID" --tier quick --repo "$W/wt" --verif "$W/verif" 2>&1 | grep -v "^KNOWN-FINDING" | grep -E "^VIOLATION rule|^UNDECIDED|^SUMMARY.*violations=[1-9]|^SUMMARY.*undecided=[1-9]|ANALYSIS-ERROR" | cut -c1-420
