#!/bin/bash
set -e
P=$1; D=/tmp/hunt/$P
mkdir -p /tmp/hunt
git -C /repo worktree add -q --detach "$D" HEAD
mkdir -p $D/HUNT
python3 /verif/tools/hunt_prompt.py $P $D > $D/TASK.md
echo prepared $D
