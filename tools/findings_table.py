#!/usr/bin/env python3
"""Rewrites the block between the FINDINGS markers in DESIGN.md from known_findings.json."""
import json, os, re
V = os.path.dirname(os.path.dirname(os.path.abspath(__file__)))
d = json.load(open(os.path.join(V, 'known_findings.json')))
esc = lambda s: s.replace('|', '\\|').replace('\n', ' ')
out = ["### B.2 Complete list (generated from `known_findings.json` by `tools/findings_table.py`)", "",
       "**Repaired in /repo** (`fix:` commits; each rule was run on the parent commit and fires there; the reverse patch of every fix is stored as `seeded/F_<commit>` and re-checked by the thorough tier's checker self-test):", "",
       "| property | commit | what failed; rule; witness |", "|---|---|---|"]
for f in d['fixed']:
    m = re.match(r'fixed: property=(C\d+) (\w+) (.*)', f)
    if m:
        out.append(f"| {m.group(1)} | `{m.group(2)}` | {esc(m.group(3))} |")
out += ["", "**Known findings** (genuine, witnessed, not repaired; the check prints `KNOWN-FINDING:` for exactly these constructs and still reports any other violation of the same rule):", "",
        "| property | rule @ construct | what fails | witness | why not repaired |", "|---|---|---|---|---|"]
for f in d['findings']:
    out.append(f"| {f['property']} | `{f['rule']}` @ `{esc(f['construct'])}` | {esc(f['what'])} | {esc(f.get('witness',''))} | {esc(f.get('ref',''))} |")
p = os.path.join(V, 'DESIGN.md')
s = open(p).read()
a, b = '<!-- FINDINGS:BEGIN -->', '<!-- FINDINGS:END -->'
assert a in s and b in s
s = s[:s.index(a) + len(a)] + "\n" + "\n".join(out) + "\n" + s[s.index(b):]
open(p, 'w').write(s)
print(len(d['fixed']), 'fixed;', len(d['findings']), 'findings')
