#!/bin/bash
# try_refacs.sh [pattern]: apply each behaviour-preserving refactoring in /verif/refactors to /repo,
# run all quick checks, revert.  Any VIOLATION here is a FALSE ALARM of the checker.
for f in /verif/refactors/${1:-*}.diff; do
  n=$(basename $f .diff)
  out=$(/verif/tools/try_seed.sh $f all 2>&1 | grep -v "^SUMMARY")
  if [ -z "$out" ]; then echo "ok    $n"; elif echo "$out" | grep -q "patch does not apply"; then echo "skip  $n (no longer applies to the current tree)"; elif echo "$out" | grep -q "type-check/load errors"; then echo "skip  $n (applies but no longer builds on the current tree)"; else echo "ALARM $n"; echo "$out" | cut -c1-300 | sed 's/^/      /' | head -8; fi
done
