#!/usr/bin/env python3
"""store_seed.py <name> <property> <needs> <caught_by> <ran> [status]: copies /tmp/seed/<name>/SEED into /verif/seeded/<name>/ with meta.json"""
import json, os, shutil, sys
name, prop, needs, caught, ran = sys.argv[1:6]
status = sys.argv[6] if len(sys.argv) > 6 else "confirmed"
src = f"/tmp/seed/{name}/SEED"
dst = f"/verif/seeded/{name}"
os.makedirs(dst, exist_ok=True)
shutil.copy(f"{src}/patch.diff", f"{dst}/patch.diff")
if os.path.isdir(f"{dst}/demo"): shutil.rmtree(f"{dst}/demo")
shutil.copytree(f"{src}/demo", f"{dst}/demo")
for f in os.listdir(f"{dst}/demo"):
    if f.endswith("_test.go"):
        os.rename(f"{dst}/demo/{f}", f"{dst}/demo/{f}.txt")   # keep go tooling away from it
if os.path.exists(f"{src}/notes.md"): shutil.copy(f"{src}/notes.md", f"{dst}/notes.md")
json.dump({"name": name, "breaks_property": prop, "needs_to_manifest": needs, "caught_by": caught, "what_i_ran": ran, "status": status,
           "origin": "independent sub-agent given only the property text and a scratch worktree of /repo"}, open(f"{dst}/meta.json", "w"), indent=1)
print("stored", dst)
