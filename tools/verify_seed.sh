#!/bin/bash
# verify_seed.sh <name> <demo-src> <demo-dst-rel> <go test args...>
# fresh worktree of /repo HEAD: patch applies, builds, full suite passes with it, demo fails with it and passes without.
set -u
export PATH=/opt/veriftools/go1.26.8/bin:$PATH GOTOOLCHAIN=local GOFLAGS=-mod=mod GOPROXY=off; unset GOWORK
NAME="$1"; DEMO="$2"; DST="$3"; shift 3
SRC=/tmp/seed/$NAME/SEED
WT=/tmp/verify_$NAME
git -C /repo worktree add -q "$WT" HEAD || exit 2
cd "$WT"
git apply "$SRC/patch.diff" && echo "APPLY ok" || { echo "APPLY FAILED"; }
go build ./... && echo "BUILD ok" || echo "BUILD FAILED"
go test -vet=off -count=1 ./... > /tmp/verify_$NAME.full.log 2>&1; if grep -q "^FAIL\|^---" /tmp/verify_$NAME.full.log; then echo "SUITE FAILED:"; grep "^FAIL\|^--- FAIL" /tmp/verify_$NAME.full.log | head; else echo "SUITE ok"; fi
cp "$DEMO" "$WT/$DST"
echo "--- demo WITH change:"; go test -vet=off -count=1 "$@" 2>&1 | tail -6
git apply -R "$SRC/patch.diff"
echo "--- demo WITHOUT change:"; go test -vet=off -count=1 "$@" 2>&1 | tail -4
cd /; git -C /repo worktree remove --force "$WT"
